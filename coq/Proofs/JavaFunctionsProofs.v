(* C01, function entries: walking the members of a type files exactly one named entry per declared
   constructor / method / interface method, with its name, return type and ordered parameter list;
   statements and initialisers never create a named entry and never change a signature. *)
From Coq Require Import String List Bool Arith Lia.
From Coca Require Import Lib.Sx Lib.GoMap Lib.Str Model.CodeModel Model.JavaFull Proofs.JavaFullProofs Proofs.EvaluateProofs.
Import ListNotations.
Open Scope string_scope.
Open Scope list_scope.

Definition fsig (f : func) : string * string * list prop * bool := (f_name f, f_ret f, f_params f, f_isctor f).
Definition sig_at (st : fstate) (k : string) : option (string * string * list prop * bool) :=
  option_map fsig (mget (s_methodMap st) k).

(* b differs from a only by calls appended to existing entries and by unnamed entries added *)
Definition quiet_at (a b : fstate) (k : string) : Prop :=
  sig_at b k = sig_at a k \/ (sig_at a k = None /\ sig_at b k = Some (fsig empty_func)).

Definition quiet_ext (a b : fstate) : Prop :=
  s_pkg b = s_pkg a /\ s_clz b = s_clz a /\ (NoDup (mkeys (s_methodMap a)) -> NoDup (mkeys (s_methodMap b))) /\
  forall k, quiet_at a b k.

Lemma quiet_refl : forall a, quiet_ext a a.
Proof. intros a. unfold quiet_ext, quiet_at. repeat split; auto. Qed.

Lemma quiet_trans : forall a b c, quiet_ext a b -> quiet_ext b c -> quiet_ext a c.
Proof.
  unfold quiet_ext, quiet_at. intros a b c [P1 [C1 [N1 H1]]] [P2 [C2 [N2 H2]]].
  repeat split; try congruence; [auto|]. intros k.
  destruct (H1 k) as [E1|[E1 E1']]; destruct (H2 k) as [E2|[E2 E2']].
  - left. congruence.
  - right. split; congruence.
  - right. split; congruence.
  - congruence.
Qed.

Lemma quiet_same_map : forall a b,
    s_pkg b = s_pkg a -> s_clz b = s_clz a -> s_methodMap b = s_methodMap a -> quiet_ext a b.
Proof.
  intros a b P C M. unfold quiet_ext, quiet_at, sig_at. rewrite M. repeat split; auto.
Qed.

Lemma quiet_add_call : forall st c, quiet_ext st (add_call_to_current st c).
Proof.
  intros st c. unfold quiet_ext. repeat split; try reflexivity.
  - intros H. unfold add_call_to_current, with_methods. cbn [s_methodMap]. now apply mput_keys_nodup.
  - intros k. unfold quiet_at, sig_at, add_call_to_current, with_methods. cbn [s_methodMap].
    rewrite mget_mput. destruct (String.eqb (method_map_name st (s_method st)) k) eqn:E.
    + apply String.eqb_eq in E. subst k. unfold mget_d.
      destruct (mget (s_methodMap st) (method_map_name st (s_method st))) as [m|]; cbn [option_map fsig f_name f_ret f_params f_isctor].
      * left. reflexivity.
      * right. split; reflexivity.
    + left. reflexivity.
Qed.

Lemma quiet_set_tables : forall st a b c, quiet_ext st (set_tables st a b c).
Proof. intros. apply quiet_same_map; reflexivity. Qed.
Lemma quiet_set_override : forall st b, quiet_ext st (set_override st b).
Proof. intros. apply quiet_same_map; reflexivity. Qed.
Lemma quiet_set_current : forall st m, quiet_ext st (set_current_method st m).
Proof. intros. apply quiet_same_map; reflexivity. Qed.
Lemma quiet_record_params : forall st ps, quiet_ext st (record_params st ps).
Proof. intros. apply quiet_same_map; reflexivity. Qed.
Lemma quiet_set_fields : forall st fs mf n, quiet_ext st (set_fields st fs mf n).
Proof. intros. apply quiet_same_map; reflexivity. Qed.

Lemma quiet_body_event : forall st e, quiet_ext st (body_event st e).
Proof.
  intros st e. destruct e; cbn [body_event].
  - apply quiet_set_tables.
  - apply quiet_set_tables.
  - unfold enter_method_call.
    repeat match goal with |- context [let '(_, _) := ?X in _] => destruct X end.
    apply quiet_add_call.
  - unfold enter_creator. destruct created as [|name rest]; [apply quiet_refl|].
    match goal with |- context [if ?b then _ else _] => destruct b end.
    + apply quiet_add_call.
    + eapply quiet_trans; [apply quiet_set_tables|apply quiet_add_call].
  - destruct has_expr; [|apply quiet_refl]. unfold enter_mref. apply quiet_add_call.
  - apply quiet_set_override.
  - apply quiet_refl.
Qed.

Lemma quiet_fold : forall (A : Type) (f : fstate -> A -> fstate) l st,
    (forall s x, quiet_ext s (f s x)) -> quiet_ext st (fold_left f l st).
Proof.
  intros A f. induction l as [|x l IH]; intros st H; [apply quiet_refl|].
  cbn [fold_left]. eapply quiet_trans; [apply H|apply IH; assumption].
Qed.

Lemma quiet_body_events : forall evs st, quiet_ext st (fold_left body_event evs st).
Proof. intros. apply quiet_fold. apply quiet_body_event. Qed.

(* ------------------------------------------------------------------ declarations *)
Definition fkey (pkg clz name : string) (sl sc : nat) : string :=
  pkg ++ "." ++ clz ++ "." ++ name ++ ":" ++ string_of_nat sl ++ ":" ++ string_of_nat sc.

Lemma method_map_name_named : forall st m,
    f_name m <> "" -> method_map_name st m = fkey (s_pkg st) (s_clz st) (f_name m) (p_sl (f_pos m)) (p_sc (f_pos m)).
Proof.
  intros st m H. unfold method_map_name, fkey.
  destruct (String.eqb (f_name m) "") eqn:E; [apply String.eqb_eq in E; contradiction|]. reflexivity.
Qed.

(* filing a declaration: its key gets its signature, every other key is untouched *)
Definition files_decl (a b : fstate) (k : string) (f : func) : Prop :=
  s_pkg b = s_pkg a /\ s_clz b = s_clz a /\ s_method b = f /\
  (NoDup (mkeys (s_methodMap a)) -> NoDup (mkeys (s_methodMap b))) /\
  sig_at b k = Some (fsig f) /\ forall k', k' <> k -> sig_at b k' = sig_at a k'.

Lemma update_method_files : forall st f,
    f_name f <> "" ->
    files_decl st (update_method st f) (fkey (s_pkg st) (s_clz st) (f_name f) (p_sl (f_pos f)) (p_sc (f_pos f))) f.
Proof.
  intros st f H. unfold files_decl, update_method.
  set (st1 := with_methods st (s_methodMap st) f (s_methodQueue st ++ [f])).
  assert (K : method_map_name st1 f = fkey (s_pkg st) (s_clz st) (f_name f) (p_sl (f_pos f)) (p_sc (f_pos f)))
    by (rewrite method_map_name_named by assumption; reflexivity).
  rewrite K. unfold with_methods, sig_at. cbn [s_pkg s_clz s_method s_methodMap st1 with_methods].
  repeat split; try reflexivity.
  - intros N. now apply mput_keys_nodup.
  - now rewrite mget_mput_same.
  - intros k' Hk. rewrite mget_mput_other by congruence. reflexivity.
Qed.

Lemma update_method_decl_files : forall st f b,
    f_name f <> "" ->
    files_decl st (update_method_decl st f b) (fkey (s_pkg st) (s_clz st) (f_name f) (p_sl (f_pos f)) (p_sc (f_pos f))) f.
Proof.
  intros st f b H. unfold update_method_decl. destruct b; [|now apply update_method_files].
  destruct (update_method_files st f H) as [P1 [C1 [M1 [N1 [S1 O1]]]]].
  destruct (update_method_files (update_method st f) f H) as [P2 [C2 [M2 [N2 [S2 O2]]]]].
  rewrite P1, C1 in *. unfold files_decl. repeat split; try congruence; [auto|].
  intros k' Hk. rewrite O2 by assumption. now apply O1.
Qed.

(* ------------------------------------------------------------------ members *)
Definition is_fun (m : jmember) : bool := negb (String.eqb (m_kind m) "field").

Definition member_params (m : jmember) : list prop :=
  if m_has_param_list m then map (fun p => mkProp (fst p) (snd p)) (m_params m) else [].

(* what the entry of a declared function must say *)
Definition expected_sig (m : jmember) : string * string * list prop * bool :=
  if String.eqb (m_kind m) "ctor" then (m_name m, "", member_params m, true)
  else (m_name m, m_ret m, member_params m, false).

(* the position the listener files a declaration under: line and column of the name (methods and interface
   methods) or of the declaration (constructors) *)
Definition member_key (pkg clz : string) (m : jmember) : string :=
  if String.eqb (m_kind m) "ctor" then fkey pkg clz (m_name m) (q_sl (m_decl m)) (q_sc (m_decl m))
  else fkey pkg clz (m_name m) (q_sl (m_ident m)) (q_sc (m_ident m)).

Definition member_effect (a b : fstate) (m : jmember) : Prop :=
  s_pkg b = s_pkg a /\ s_clz b = s_clz a /\
  (NoDup (mkeys (s_methodMap a)) -> NoDup (mkeys (s_methodMap b))) /\
  if is_fun m then
    sig_at b (member_key (s_pkg a) (s_clz a) m) = Some (expected_sig m) /\
    forall k, k <> member_key (s_pkg a) (s_clz a) m -> quiet_at a b k
  else forall k, quiet_at a b k.

Lemma files_then_quiet : forall a b c k f,
    quiet_ext a b -> files_decl b c k f -> forall d, quiet_ext c d ->
    s_pkg d = s_pkg a /\ s_clz d = s_clz a /\
    (NoDup (mkeys (s_methodMap a)) -> NoDup (mkeys (s_methodMap d))) /\
    sig_at d k = Some (fsig f) /\ forall k', k' <> k -> quiet_at a d k'.
Proof.
  intros a b c k f [P1 [C1 [N1 Q1]]] [P2 [C2 [_ [N2 [S2 O2]]]]] d [P3 [C3 [N3 Q3]]].
  repeat split; try congruence; [auto|..].
  - destruct (Q3 k) as [E|[E _]]; congruence.
  - intros k' Hk. unfold quiet_at in *. specialize (O2 k' Hk).
    destruct (Q1 k') as [E1|[E1 E1']]; destruct (Q3 k') as [E3|[E3 E3']].
    + left. congruence.
    + right. split; congruence.
    + right. split; congruence.
    + congruence.
Qed.

Lemma member_step_effect : forall st m,
    (is_fun m = true -> m_name m <> "") -> member_effect st (member_step st m) m.
Proof.
  intros st m Hname. unfold member_step, member_effect, is_fun in *.
  set (st1 := fold_left (fun s a => set_override s (String.eqb a "Override")) (m_annots m) st).
  assert (Q1 : quiet_ext st st1) by (apply quiet_fold; intros; apply quiet_set_override).
  destruct (String.eqb (m_kind m) "field") eqn:Ef; cbn [negb].
  - (* a field: its initialisers are body events *)
    assert (Q : quiet_ext st (if String.eqb (m_ident0 m) "" then fold_left body_event (m_events m) st1
                              else fold_left body_event (m_events m)
                                     (fold_left (fun s name =>
                 let mf := mput (s_mapFields s) name (m_ident0 m) in
                 let fs := (s_fields s ++ [mkField (m_ident0 m) name []])%list in
                 let s1 := set_fields s fs mf (s_node s) in
                 let target := fst (warp_target_full_type s1 (m_ident0 m)) in
                 if String.eqb target "" then s1 else
                 let d := m_decl m in
                 set_fields s1 fs mf
                   (add_node_call (s_node s1)
                      (mkCall (remove_target target) "field" (m_ident0 m) "" []
                              (mkPos (q_sl d) (q_sc d) (q_el d) (q_ec d + rune_count target)))))
              (m_names m) st1))).
    { destruct (String.eqb (m_ident0 m) "").
      - eapply quiet_trans; [exact Q1|apply quiet_body_events].
      - eapply quiet_trans; [exact Q1|]. eapply quiet_trans; [|apply quiet_body_events].
        apply quiet_fold. intros s name. cbv zeta.
        match goal with |- context [if ?b then _ else _] => destruct b end.
        + apply quiet_set_fields.
        + eapply quiet_trans; apply quiet_set_fields. }
    destruct Q as [P [C [N Q]]]. repeat split; assumption.
  - (* a constructor, method or interface method *)
    specialize (Hname eq_refl).
    set (st2 := set_tables st1 (s_mapFields st1) [] []).
    assert (Q2 : quiet_ext st st2) by (eapply quiet_trans; [exact Q1|apply quiet_set_tables]).
    assert (P2 : s_pkg st2 = s_pkg st /\ s_clz st2 = s_clz st) by (destruct Q2 as [P [C _]]; auto).
    destruct P2 as [P2 C2].
    destruct (String.eqb (m_kind m) "ctor") eqn:Ec.
    + set (f := mkFunc (m_name m) "" (if m_has_param_list m then map (fun p => mkProp (fst p) (snd p)) (m_params m) else [])
                       [] (s_override st2) (f_annots (s_method st2)) true false []
                       (mkPos (q_sl (m_decl m)) (q_sc (m_decl m)) (q_el (m_decl m)) (q_ec (m_decl m) + rune_count (m_name m)))).
      set (st3 := if m_has_param_list m then record_params st2 (m_params m) else st2).
      assert (Q3 : quiet_ext st st3)
        by (unfold st3; destruct (m_has_param_list m); [eapply quiet_trans; [exact Q2|apply quiet_record_params]|exact Q2]).
      assert (P3 : s_pkg st3 = s_pkg st /\ s_clz st3 = s_clz st) by (destruct Q3 as [P [C _]]; auto).
      destruct P3 as [P3 C3].
      pose proof (update_method_decl_files st3 f (m_has_param_list m) Hname) as F.
      cbn [f f_name f_pos p_sl p_sc] in F. rewrite P3, C3 in F.
      assert (K : member_key (s_pkg st) (s_clz st) m = fkey (s_pkg st) (s_clz st) (m_name m) (q_sl (m_decl m)) (q_sc (m_decl m))).
      { unfold member_key. now rewrite Ec. }
      rewrite K.
      destruct (files_then_quiet st st3 _ _ f Q3 F
                  (set_override (set_current_method (fold_left body_event (m_events m) (update_method_decl st3 f (m_has_param_list m))) empty_func) false))
        as [R1 [R2 [R3 [R4 R5]]]].
      { eapply quiet_trans; [apply quiet_body_events|]. eapply quiet_trans; [apply quiet_set_current|apply quiet_set_override]. }
      repeat split; try assumption.
      rewrite R4. unfold expected_sig, member_params. rewrite Ec. reflexivity.
    + destruct (String.eqb (m_kind m) "method") eqn:Em.
      * set (f := mkFunc (m_name m) (m_ret m) (if m_has_param_list m then map (fun p => mkProp (fst p) (snd p)) (m_params m) else [])
                         [] (s_override st2) (annots_of_first st2 m) false false []
                         (mkPos (q_sl (m_ident m)) (q_sc (m_ident m)) (q_el (m_decl m)) (q_sc (m_ident m) + rune_count (m_name m)))).
        set (st3 := if m_has_param_list m then record_params st2 (m_params m) else st2).
        assert (Q3 : quiet_ext st st3)
          by (unfold st3; destruct (m_has_param_list m); [eapply quiet_trans; [exact Q2|apply quiet_record_params]|exact Q2]).
        assert (P3 : s_pkg st3 = s_pkg st /\ s_clz st3 = s_clz st) by (destruct Q3 as [P [C _]]; auto).
        destruct P3 as [P3 C3].
        pose proof (update_method_decl_files st3 f (m_has_param_list m) Hname) as F.
        cbn [f f_name f_pos p_sl p_sc] in F. rewrite P3, C3 in F.
        assert (K : member_key (s_pkg st) (s_clz st) m = fkey (s_pkg st) (s_clz st) (m_name m) (q_sl (m_ident m)) (q_sc (m_ident m)))
          by (unfold member_key; now rewrite Ec).
        rewrite K.
        destruct (files_then_quiet st st3 _ _ f Q3 F
                    (set_current_method (fold_left body_event (m_events m) (update_method_decl st3 f (m_has_param_list m))) empty_func))
          as [R1 [R2 [R3 [R4 R5]]]].
        { eapply quiet_trans; [apply quiet_body_events|apply quiet_set_current]. }
        repeat split; try assumption.
        rewrite R4. unfold expected_sig, member_params. rewrite Ec. reflexivity.
      * set (f := mkFunc (m_name m) (m_ret m) (if m_has_param_list m then map (fun p => mkProp (fst p) (snd p)) (m_params m) else [])
                         [] false [] false false []
                         (mkPos (q_sl (m_ident m)) (q_sc (m_ident m)) (q_el (m_decl m)) (q_sc (m_ident m) + rune_count (m_name m)))).
        set (st3 := if m_has_param_list m then record_params st2 (m_params m) else st2).
        assert (Q3 : quiet_ext st st3)
          by (unfold st3; destruct (m_has_param_list m); [eapply quiet_trans; [exact Q2|apply quiet_record_params]|exact Q2]).
        assert (P3 : s_pkg st3 = s_pkg st /\ s_clz st3 = s_clz st) by (destruct Q3 as [P [C _]]; auto).
        destruct P3 as [P3 C3].
        pose proof (update_method_decl_files st3 f (m_has_param_list m) Hname) as F.
        cbn [f f_name f_pos p_sl p_sc] in F. rewrite P3, C3 in F.
        assert (K : member_key (s_pkg st) (s_clz st) m = fkey (s_pkg st) (s_clz st) (m_name m) (q_sl (m_ident m)) (q_sc (m_ident m)))
          by (unfold member_key; now rewrite Ec).
        rewrite K.
        destruct (files_then_quiet st st3 _ _ f Q3 F
                    (fold_left body_event (m_events m) (update_method_decl st3 f (m_has_param_list m))))
          as [R1 [R2 [R3 [R4 R5]]]]; [apply quiet_body_events|].
        repeat split; try assumption.
        rewrite R4. unfold expected_sig, member_params. rewrite Ec. reflexivity.
Qed.

(* ------------------------------------------------------------------ all the members of a type *)
Definition fun_keys (pkg clz : string) (ms : list jmember) : list string :=
  map (member_key pkg clz) (filter is_fun ms).

Theorem members_functions_exact : forall ms st,
    (forall m, In m ms -> is_fun m = true -> m_name m <> "") ->
    NoDup (fun_keys (s_pkg st) (s_clz st) ms) ->
    let st' := fold_left member_step ms st in
    (NoDup (mkeys (s_methodMap st)) -> NoDup (mkeys (s_methodMap st'))) /\
    (forall m, In m ms -> is_fun m = true ->
               sig_at st' (member_key (s_pkg st) (s_clz st) m) = Some (expected_sig m)) /\
    (forall k, ~ In k (fun_keys (s_pkg st) (s_clz st) ms) -> quiet_at st st' k).
Proof.
  induction ms as [|m ms IH]; intros st Hn Hd; cbn [fold_left].
  - cbv zeta. repeat split; [auto|intros ? []|]. intros k _. left. reflexivity.
  - cbv zeta. pose proof (member_step_effect st m (Hn m (or_introl eq_refl))) as E.
    unfold member_effect in E. destruct E as [P [C [N E]]].
    assert (Hn' : forall x, In x ms -> is_fun x = true -> m_name x <> "") by (intros; apply Hn; [now right|assumption]).
    unfold fun_keys in Hd. cbn [filter] in Hd.
    destruct (is_fun m) eqn:Ef.
    + cbn [map] in Hd. inversion Hd as [|? ? Hnot Hd']; subst.
      destruct E as [E1 E2].
      specialize (IH (member_step st m) Hn'). rewrite P, C in IH. specialize (IH Hd').
      cbv zeta in IH. destruct IH as [I0 [I1 I2]].
      repeat split.
      * auto.
      * intros x [Hx|Hx] Hfx.
        -- subst x. destruct (I2 (member_key (s_pkg st) (s_clz st) m) Hnot) as [Q|[Q _]]; congruence.
        -- now apply I1.
      * intros k Hk. unfold fun_keys in Hk. cbn [filter] in Hk. rewrite Ef in Hk. cbn [map] in Hk.
        assert (Hk1 : k <> member_key (s_pkg st) (s_clz st) m) by (intros ->; apply Hk; now left).
        assert (Hk2 : ~ In k (fun_keys (s_pkg st) (s_clz st) ms)) by (intros H; apply Hk; now right).
        specialize (E2 k Hk1). specialize (I2 k Hk2). unfold quiet_at in *.
        destruct E2 as [A|[A A']]; destruct I2 as [B|[B B']].
        -- left. congruence.
        -- right. split; congruence.
        -- right. split; congruence.
        -- congruence.
    + specialize (IH (member_step st m) Hn'). rewrite P, C in IH. specialize (IH Hd).
      cbv zeta in IH. destruct IH as [I0 [I1 I2]].
      repeat split.
      * auto.
      * intros x [Hx|Hx] Hfx; [subst x; congruence|now apply I1].
      * intros k Hk. unfold fun_keys in Hk. cbn [filter] in Hk. rewrite Ef in Hk.
        specialize (E k). specialize (I2 k Hk). unfold quiet_at in *.
        destruct E as [A|[A A']]; destruct I2 as [B|[B B']].
        -- left. congruence.
        -- right. split; congruence.
        -- right. split; congruence.
        -- congruence.
Qed.

(* from an empty table (every type starts with one): a NAMED entry exists only under the key of a
   declared function, and every declared function has its entry *)
Corollary type_functions_exact : forall ms st,
    s_methodMap st = [] ->
    (forall m, In m ms -> is_fun m = true -> m_name m <> "") ->
    NoDup (fun_keys (s_pkg st) (s_clz st) ms) ->
    let mm := s_methodMap (fold_left member_step ms st) in
    NoDup (mkeys mm) /\
    (forall m, In m ms -> is_fun m = true ->
               option_map fsig (mget mm (member_key (s_pkg st) (s_clz st) m)) = Some (expected_sig m)) /\
    (forall k f, mget mm k = Some f -> f_name f <> "" -> In k (fun_keys (s_pkg st) (s_clz st) ms)).
Proof.
  intros ms st He Hn Hd. destruct (members_functions_exact ms st Hn Hd) as [N [A B]]. cbv zeta in *.
  repeat split.
  - apply N. rewrite He. constructor.
  - exact A.
  - intros k f Hk Hf.
    destruct (in_dec string_dec k (fun_keys (s_pkg st) (s_clz st) ms)) as [Hin|Hin]; [exact Hin|].
    exfalso. specialize (B k Hin). unfold quiet_at, sig_at in B. rewrite He in B. cbn [mget option_map] in B.
    rewrite Hk in B. cbn [option_map] in B. destruct B as [B|[_ B]]; [discriminate|].
    inversion B. contradiction.
Qed.

(* ------------------------------------------------------------------ the entry of a compilation unit *)
Definition typed_state (st0 : fstate) (u : junit) : fstate :=
  enter_type (fold_left type_annot (u_annots u) (unit_header st0 u)) u.

Lemma walk_unit_funcs : forall st0 u,
    exists n, s_classNodes (walk_unit st0 u) =
              s_classNodes (fold_left member_step (u_members u) (typed_state st0 u)) ++ [n] /\
              d_funcs n = map snd (s_methodMap (fold_left member_step (u_members u) (typed_state st0 u))).
Proof.
  intros st0 u. unfold walk_unit, exit_body, typed_state. eexists. split; reflexivity.
Qed.

Lemma typed_state_empty_table : forall st ids cls file u,
    s_methodMap (typed_state (new_listener st ids cls file) u) = [].
Proof.
  intros. unfold typed_state, enter_type.
  assert (H : forall l s, s_methodMap (fold_left type_annot l s) = s_methodMap s).
  { induction l as [|a l IH]; intros s; cbn [fold_left]; [reflexivity|]. rewrite IH. unfold type_annot.
    cbn [set_override s_hasEnterClass]. destruct (s_hasEnterClass s); reflexivity. }
  destruct (String.eqb (u_kind u) "class"); cbn [set_node s_methodMap]; rewrite H; reflexivity.
Qed.

Lemma mget_of_in : forall (V : Type) (m : gomap V) k v, NoDup (mkeys m) -> In (k, v) m -> mget m k = Some v.
Proof. intros. now apply mget_in_nodup. Qed.

(* C01, function clause: in the entry of a unit analysed by a fresh listener there is, for every declared
   constructor / method / interface method, an entry with its name, return type and ordered parameters, and
   every NAMED entry is the entry of a declared one; the entries are filed under distinct keys (one each) *)
Theorem unit_functions_exact : forall st ids cls file u,
    let ts := typed_state (new_listener st ids cls file) u in
    (forall m, In m (u_members u) -> is_fun m = true -> m_name m <> "") ->
    NoDup (fun_keys (s_pkg ts) (s_clz ts) (u_members u)) ->
    exists n, In n (s_classNodes (walk_unit (new_listener st ids cls file) u)) /\
      (forall m, In m (u_members u) -> is_fun m = true ->
                 exists f, In f (d_funcs n) /\ fsig f = expected_sig m) /\
      (forall f, In f (d_funcs n) -> f_name f <> "" ->
                 exists m, In m (u_members u) /\ is_fun m = true /\ fsig f = expected_sig m).
Proof.
  intros st ids cls file u ts Hn Hd.
  destruct (walk_unit_funcs (new_listener st ids cls file) u) as [n [Hc Hf]].
  fold ts in Hc, Hf.
  destruct (type_functions_exact (u_members u) ts (typed_state_empty_table st ids cls file u) Hn Hd) as [N [A B]].
  cbv zeta in *. exists n. split; [rewrite Hc; apply in_or_app; right; now left|]. split.
  - intros m Hm Hfm. specialize (A m Hm Hfm).
    destruct (mget (s_methodMap (fold_left member_step (u_members u) ts)) (member_key (s_pkg ts) (s_clz ts) m)) as [f|] eqn:E;
      [|discriminate].
    exists f. split; [|now inversion A]. rewrite Hf. apply in_map_iff. exists (member_key (s_pkg ts) (s_clz ts) m, f).
    split; [reflexivity|]. now apply mget_some_in.
  - intros f Hin Hnamed. rewrite Hf in Hin. apply in_map_iff in Hin. destruct Hin as [[k f'] [E Hin]]. cbn [snd] in E. subst f'.
    pose proof (mget_of_in _ _ k f N Hin) as G.
    pose proof (B k f G Hnamed) as Hk. unfold fun_keys in Hk. apply in_map_iff in Hk.
    destruct Hk as [m [Hk Hm]]. apply filter_In in Hm. destruct Hm as [Hm Hfm].
    exists m. repeat split; try assumption.
    specialize (A m Hm Hfm). rewrite Hk, G in A. now inversion A.
Qed.

(* non-vacuity: the example unit of C01 satisfies the hypotheses and its entry lists its two functions *)
Example ex_unit_function_hypotheses :
  let ts := typed_state (new_listener fstate0 ["p.q.A"] ["p.q.A"] "src/A.java") ex_unit in
  (forall m, In m (u_members ex_unit) -> is_fun m = true -> m_name m <> "") /\
  NoDup (fun_keys (s_pkg ts) (s_clz ts) (u_members ex_unit)) /\
  fun_keys (s_pkg ts) (s_clz ts) (u_members ex_unit) <> [].
Proof.
  cbv zeta. split; [|split].
  - intros m [Hm|[Hm|[]]] Hf; subst m; vm_compute in Hf; try discriminate; vm_compute; discriminate.
  - vm_compute. constructor; [intros []|constructor].
  - vm_compute. discriminate.
Qed.
