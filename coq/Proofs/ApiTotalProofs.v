(* C09 / C12: after the repair of the quote removal the API scan model has no panic left:
   api_unit never yields APanic, so the scan of any file list completes and is per file unconditionally. *)
From Coq Require Import String List Bool Arith.
From Coca Require Import Lib.Sx Lib.Str Model.ApiScan Proofs.ApiProofs.
Import ListNotations.
Open Scope string_scope.
Open Scope list_scope.

Lemma strip1_some : forall t, exists r, strip1 t = Some r.
Proof. intros t. unfold strip1. destruct (Nat.ltb (String.length t) 2); eexists; reflexivity. Qed.

Lemma build_base_ok : forall st a, exists s, build_base st a = AOk s.
Proof.
  intros st a. unfold build_base.
  destruct (negb (String.eqb (aa_name a) "RequestMapping")); [eexists; reflexivity|].
  destruct (aa_has_pairs a).
  - assert (G : forall l s0, exists s, fold_left (fun acc kv =>
                 match acc with
                 | APanic => APanic
                 | AOk s => if String.eqb (fst kv) "value"
                            then match strip1 (snd kv) with Some t => AOk (with_base s t) | None => APanic end
                            else AOk s
                 end) l (AOk s0) = AOk s).
    { induction l as [|kv l IH]; intros s0; cbn [fold_left]; [eexists; reflexivity|].
      destruct (String.eqb (fst kv) "value"); [|apply IH].
      destruct (strip1_some (snd kv)) as [r ->]. apply IH. }
    apply G.
  - destruct (aa_has_value a); [|eexists; reflexivity].
    destruct (strip1_some (aa_value a)) as [r ->]. eexists; reflexivity.
Qed.

Lemma enter_annotation_ok : forall st a, exists s, enter_annotation st a = AOk s.
Proof.
  intros st a. unfold enter_annotation.
  match goal with |- context [if negb (a_hasEnterClass ?s) then _ else _] => destruct (negb (a_hasEnterClass s)) end;
    [apply build_base_ok|].
  match goal with |- context [if negb ?c then AOk _ else _] => destruct (negb c) end; [eexists; reflexivity|].
  destruct (negb (is_mapping (aa_name a))); [eexists; reflexivity|].
  destruct (aa_has_pairs a); [|eexists; reflexivity].
  match goal with |- context [fold_left ?f (aa_pairs a) (Some ?c)] =>
    assert (G : forall l c0, exists r, fold_left f l (Some c0) = Some r) end.
  { induction l as [|kv l IH]; intros c0; cbn [fold_left]; [eexists; reflexivity|].
    destruct (String.eqb (fst kv) "value"); [|apply IH].
    destruct (strip1_some (snd kv)) as [r ->]. apply IH. }
  match goal with |- context [fold_left ?f (aa_pairs a) (Some ?c)] => destruct (G (aa_pairs a) c) as [r ->] end.
  eexists; reflexivity.
Qed.

Lemma enter_annotations_ok : forall l st, exists s, enter_annotations st l = AOk s.
Proof.
  unfold enter_annotations. induction l as [|a l IH]; intros st; cbn [fold_left]; [eexists; reflexivity|].
  destruct (enter_annotation_ok st a) as [s ->]. apply IH.
Qed.

Lemma member_api_ok : forall st m, exists s, member_api (AOk st) m = AOk s.
Proof.
  intros st m. unfold member_api. destruct (enter_annotations_ok (am_annots m) st) as [s1 ->].
  destruct (am_is_method m); [apply enter_annotations_ok|eexists; reflexivity].
Qed.

Lemma members_api_ok : forall l st, exists s, fold_left member_api l (AOk st) = AOk s.
Proof.
  induction l as [|m l IH]; intros st; cbn [fold_left]; [eexists; reflexivity|].
  destruct (member_api_ok st m) as [s ->]. apply IH.
Qed.

(* the API scan of a file never panics *)
Theorem api_unit_total : forall st u, exists s, api_unit st u = AOk s.
Proof.
  intros st u. unfold api_unit.
  match goal with |- context [enter_annotations ?s (au_annots u)] => destruct (enter_annotations_ok (au_annots u) s) as [s2 ->] end.
  match goal with |- context [fold_left member_api (au_members u) (AOk ?s)] => destruct (members_api_ok (au_members u) s) as [s4 ->] end.
  eexists; reflexivity.
Qed.

Theorem unit_apis_total : forall u, unit_apis u <> None.
Proof. intros u. unfold unit_apis. destruct (api_unit_total (new_api_listener astate0) u) as [s ->]. discriminate. Qed.

(* hence, for EVERY file list: the scan completes and its result is the concatenation of the per-file results *)
Theorem api_files_total_per_file : forall units,
    option_map snd (api_files astate0 units)
    = Some (flat_map (fun u => match unit_apis u with Some l => l | None => [] end) units).
Proof. intros units. apply api_files_per_file. intros u _. apply unit_apis_total. Qed.
