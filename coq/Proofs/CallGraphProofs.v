(* Lemmas about Model/CallGraph.v (C03). *)
From Coq Require Import String List Bool Arith Lia.
From Coca Require Import Lib.Sx Lib.GoMap Lib.Dot Lib.Cmp Lib.Reach Model.CodeModel Model.RCall
     Model.RCallSpec Model.CallGraph Model.CallGraphSpec Generated.Constants
     Proofs.DotProofs Proofs.RCallProofs.
Import ListNotations.
Open Scope string_scope.
Open Scope list_scope.

(* ------------------------------------------------------------------ the method map *)
Definition calls_named (d : ds) (k : string) (f : func) : list string :=
  if String.eqb (func_full_name d f) k then all_call_strings f else [].

Lemma fold_add_method : forall d fs acc k,
    mget_d [] (fold_left (add_method d) fs acc) k =
    mget_d [] acc k ++ flat_map (calls_named d k) fs.
Proof.
  intros d. induction fs as [|f fs IH]; intros acc k.
  - simpl. now rewrite app_nil_r.
  - cbn [fold_left flat_map]. rewrite IH. unfold add_method at 1. rewrite mget_d_mput.
    unfold calls_named at 2. destruct (String.eqb (func_full_name d f) k) eqn:E.
    + apply String.eqb_eq in E. subst k. now rewrite <- app_assoc.
    + reflexivity.
Qed.

Lemma fold_classes : forall m acc k,
    mget_d [] (fold_left (fun acc d => fold_left (add_method d) (d_funcs d) acc) m acc) k =
    mget_d [] acc k ++ flat_map (fun d => flat_map (calls_named d k) (d_funcs d)) m.
Proof.
  induction m as [|d m IH]; intros acc k.
  - simpl. now rewrite app_nil_r.
  - cbn [fold_left flat_map]. rewrite IH, fold_add_method. now rewrite <- app_assoc.
Qed.

Theorem method_map_exact : forall m a, callees (method_map m) a = spec_callees_raw m a.
Proof.
  intros m a. unfold callees, method_map. rewrite fold_classes. reflexivity.
Qed.

(* ------------------------------------------------------------------ the chain *)
Section Chain.
  Variable mm : gomap (list string).
  Variable di : gomap string.

  Definition succ (a : string) : list string := map (subst_di di) (callees mm a).

  Lemma succ_nil : forall a, callees mm a = [] <-> succ a = [].
  Proof.
    intros a. unfold succ. destruct (callees mm a); simpl; split; intros H; try reflexivity; discriminate.
  Qed.

  Definition CSound (k : nat) (f : string) (items : list citem) : Prop :=
    forall a b, In (CEdge a b) items -> In b (succ a) /\ ReachN succ k f a.

  Lemma CSound_app : forall k f x y, CSound k f x -> CSound k f y -> CSound k f (x ++ y).
  Proof. intros k f x y Hx Hy a b H. apply in_app_or in H. destruct H; auto. Qed.

  Lemma CSound_trivial : forall k f i, (forall a b, i <> CEdge a b) -> CSound k f [i].
  Proof. intros k f i Hi a b [H|[]]. subst. exfalso. eapply Hi; eauto. Qed.

  Lemma cloop_sound : forall (rec : nat -> string -> nat * list citem) f k,
      (forall cnt g, CSound k g (snd (rec cnt g))) ->
      forall children cnt acc,
        (forall c, In c children -> In c (succ f)) ->
        CSound (S k) f acc ->
        CSound (S k) f (snd (cloop rec mm f children cnt acc)).
  Proof.
    intros rec f k Hrec. induction children as [|child rest IH]; intros cnt acc Hcs Hacc; simpl; [assumption|].
    assert (Hrest : forall c, In c rest -> In c (succ f)) by (intros; apply Hcs; now right).
    assert (Hchild : In child (succ f)) by (apply Hcs; now left).
    assert (Hedge : CSound (S k) f [CEdge f child]).
    { intros a b [H|[]]. inversion H; subst. split; [assumption|constructor]. }
    destruct (callees mm child) eqn:Hcc.
    - apply IH; [assumption|]. apply CSound_app; assumption.
    - specialize (Hrec cnt child). destruct (rec cnt child) as [c' items]. simpl in Hrec.
      apply IH; [assumption|]. apply CSound_app; [|assumption].
      apply CSound_app; [assumption|].
      intros a b H. destruct (Hrec a b H) as [H1 H2]. split; [assumption|].
      eapply rn_step; eassumption.
  Qed.

  Theorem chain_sound : forall fuel cnt f, CSound fuel f (snd (chain fuel mm di cnt f)).
  Proof.
    induction fuel as [|fuel IH]; intros cnt f; cbn [chain].
    - destruct (cmp_eval _ _ _); cbn [snd]; apply CSound_trivial; discriminate.
    - destruct (cmp_eval _ _ _); cbn [snd]; [apply CSound_trivial; discriminate|].
      destruct (callees mm f) as [|c0 cs0] eqn:Hc; cbn [snd]; [apply CSound_trivial; discriminate|].
      apply cloop_sound.
      + intros cnt0 g. apply IH.
      + unfold succ. rewrite Hc. auto.
      + intros a b [].
  Qed.

  (* every (substituted) direct callee of an expanded method gets its edge *)
  Lemma cloop_acc_incl : forall rec f children cnt acc x,
      In x acc -> In x (snd (cloop rec mm f children cnt acc)).
  Proof.
    intros rec f. induction children as [|child rest IH]; intros cnt acc x Hx; simpl; [assumption|].
    destruct (callees mm child).
    - apply IH. apply in_or_app. now left.
    - destruct (rec cnt child) as [c' items]. apply IH. apply in_or_app. left. apply in_or_app. now left.
  Qed.

  Lemma cloop_direct : forall rec f children cnt acc c,
      In c children -> In (CEdge f c) (snd (cloop rec mm f children cnt acc)).
  Proof.
    intros rec f. induction children as [|child rest IH]; intros cnt acc c Hin; simpl; [contradiction|].
    destruct Hin as [Heq|Hin].
    - subst child. destruct (callees mm c).
      + apply cloop_acc_incl. apply in_or_app. right. now left.
      + destruct (rec cnt c) as [c' items]. apply cloop_acc_incl. apply in_or_app. right. now left.
    - destruct (callees mm child).
      + now apply IH.
      + destruct (rec cnt child) as [c' items]. now apply IH.
  Qed.

  Lemma budget_test_c : forall n, cmp_eval maxLoopCount_cmp n maxLoopCount = Nat.ltb maxLoopCount n.
  Proof. reflexivity. Qed.

  Theorem root_complete : forall fuel cnt root b,
      cnt <= maxLoopCount -> In b (succ root) ->
      In (CEdge root b) (snd (chain (S fuel) mm di cnt root)).
  Proof.
    intros fuel cnt root b Hcnt Hb. cbn [chain]. rewrite budget_test_c.
    assert (E : Nat.ltb maxLoopCount cnt = false) by (apply Nat.ltb_ge; assumption).
    rewrite E. unfold succ in Hb.
    destruct (callees mm root) as [|c0 cs0] eqn:Hc; [contradiction|].
    now apply cloop_direct.
  Qed.

  (* termination inside the fixed budget *)
  Definition NoOOFc (items : list citem) : Prop := ~ In COutOfFuel items.
  Definition B : nat := S maxLoopCount.

  Lemma cloop_budget : forall (rec : nat -> string -> nat * list citem) f K,
      (forall cnt g, K <= cnt ->
                     NoOOFc (snd (rec cnt g)) /\ cnt <= fst (rec cnt g) /\
                     (cnt <= B -> fst (rec cnt g) <= B)) ->
      forall children cnt acc,
        K <= cnt -> NoOOFc acc ->
        NoOOFc (snd (cloop rec mm f children cnt acc)) /\ cnt <= fst (cloop rec mm f children cnt acc) /\
        (cnt <= B -> fst (cloop rec mm f children cnt acc) <= B).
  Proof.
    intros rec f K Hrec. induction children as [|child rest IH]; intros cnt acc HK Hacc; simpl.
    - auto.
    - assert (Hadd : forall l, NoOOFc l -> NoOOFc (l ++ [CEdge f child])).
      { intros l Hl H. apply in_app_or in H. destruct H as [H|[H|[]]]; [auto|discriminate]. }
      destruct (callees mm child).
      + apply IH; auto.
      + specialize (Hrec cnt child HK). destruct (rec cnt child) as [c' items]. simpl in Hrec.
        destruct Hrec as [H1 [H2 H3]].
        assert (Hn : NoOOFc ((acc ++ items) ++ [CEdge f child])).
        { apply Hadd. intros H. apply in_app_or in H. destruct H; auto. }
        destruct (IH c' _ (Nat.le_trans _ _ _ HK H2) Hn) as [G1 [G2 G3]].
        split; [assumption|]. split; [lia|]. intros Hle. apply G3. auto.
  Qed.

  Lemma chain_budget : forall fuel cnt f,
      B <= cnt + fuel ->
      NoOOFc (snd (chain fuel mm di cnt f)) /\ cnt <= fst (chain fuel mm di cnt f) /\
      (cnt <= B -> fst (chain fuel mm di cnt f) <= B).
  Proof.
    unfold B. induction fuel as [|fuel IH]; intros cnt f Hf; cbn [chain]; rewrite budget_test_c.
    - destruct (Nat.ltb maxLoopCount cnt) eqn:E; cbn [fst snd].
      + split; [intros [H|[]]; discriminate|]. auto.
      + apply Nat.ltb_ge in E. lia.
    - destruct (Nat.ltb maxLoopCount cnt) eqn:E; cbn [fst snd].
      + split; [intros [H|[]]; discriminate|]. auto.
      + apply Nat.ltb_ge in E.
        destruct (callees mm f) as [|c0 cs0] eqn:Hc; cbn [fst snd].
        * split; [intros [H|[]]; discriminate|]. split; lia.
        * pose proof (cloop_budget (chain fuel mm di) f (S cnt)) as HL.
          destruct (HL (fun c g HK => IH c g ltac:(unfold B in *; lia)) (map (subst_di di) (c0 :: cs0))
                       (S cnt) [] (le_n _) (fun H => H)) as [G1 [G2 G3]].
          split; [assumption|]. split; [lia|]. intros _. apply G3. unfold B. lia.
  Qed.

  Theorem chain_terminates_in_budget : forall root,
      NoOOFc (snd (chain cfuel mm di 0 root)) /\ fst (chain cfuel mm di 0 root) <= S maxLoopCount.
  Proof.
    intros root. destruct (chain_budget cfuel 0 root) as [H1 [_ H3]].
    - unfold B, cfuel. lia.
    - split; [assumption|]. apply H3. unfold B. lia.
  Qed.
End Chain.

(* ------------------------------------------------------------------ exactness inside the budget *)
Section Exact.
  Variable mm : gomap (list string).
  Variable di : gomap string.
  Notation succ := (succ mm di).

  Lemma sum_children_le : forall (rec : nat -> string -> option nat),
      (forall r a n, rec r a = Some n -> n <= r) ->
      forall cs r d, sum_children rec succ cs r = Some d -> d <= r.
  Proof.
    intros rec Hrec. induction cs as [|c rest IH]; intros r d H; cbn [sum_children] in H.
    - inversion H. lia.
    - destruct (succ c); [now apply IH|].
      destruct (rec r c) as [k|] eqn:Hk; [|discriminate].
      destruct (sum_children rec succ rest (r - k)) as [j|] eqn:Hj; [|discriminate].
      inversion H. subst d. apply Hrec in Hk. apply IH in Hj. lia.
  Qed.

  Lemma expansions_le : forall fe r a n, expansions fe succ r a = Some n -> 1 <= n /\ n <= r.
  Proof.
    induction fe as [|fe IH]; intros r a n H; [discriminate|].
    cbn [expansions] in H. destruct r as [|r]; [discriminate|].
    destruct (sum_children (expansions fe succ) succ (succ a) r) as [d|] eqn:Hd; [|discriminate].
    inversion H. subst n. apply sum_children_le in Hd; [lia|].
    intros r0 a0 n0 H0. now apply IH in H0.
  Qed.

  Lemma ReachN_leaf : forall k a x, succ a = [] -> ReachN succ k a x -> x = a.
  Proof.
    intros k a x Hs H. inversion H as [|k0 h h1 g Hin Hr]; subst; [reflexivity|].
    rewrite Hs in Hin. contradiction.
  Qed.

  Definition ExactAt (fuel cnt : nat) (a : string) (n : nat) : Prop :=
    fst (chain fuel mm di cnt a) = cnt + n /\
    forall k x y, ReachN succ k a x -> In y (succ x) -> In (CEdge x y) (snd (chain fuel mm di cnt a)).

  Lemma cloop_exact : forall fe fuel f,
      (forall r a n cnt, expansions fe succ r a = Some n -> cnt + n <= B -> ExactAt fuel cnt a n) ->
      forall children r d,
        sum_children (expansions fe succ) succ children r = Some d ->
        forall c0 acc, c0 + d <= B ->
          fst (cloop (chain fuel mm di) mm f children c0 acc) = c0 + d /\
          forall child, In child children -> succ child <> [] ->
            forall k x y, ReachN succ k child x -> In y (succ x) ->
              In (CEdge x y) (snd (cloop (chain fuel mm di) mm f children c0 acc)).
  Proof.
    intros fe fuel f Hrec. induction children as [|child rest IH]; intros r d Hd c0 acc Hb.
    - simpl in Hd. inversion Hd. subst d. simpl. split; [lia|]. intros child [].
    - cbn [sum_children] in Hd. cbn [cloop].
      destruct (callees mm child) as [|c1 cs1] eqn:Hcc.
      + assert (Hs : succ child = []) by (apply succ_nil; assumption).
        rewrite Hs in Hd.
        destruct (IH r d Hd c0 (acc ++ [CEdge f child]) Hb) as [G1 G2].
        split; [exact G1|].
        intros ch [Hch|Hch] Hne; [subst ch; congruence|]. now apply G2.
      + assert (Hs : succ child <> []).
        { intros Hs. apply succ_nil in Hs. congruence. }
        destruct (succ child) as [|s0 ss] eqn:Hsc; [congruence|].
        destruct (expansions fe succ r child) as [a|] eqn:Ha; [|discriminate].
        destruct (sum_children (expansions fe succ) succ rest (r - a)) as [b|] eqn:Hb'; [|discriminate].
        inversion Hd. subst d. clear Hd.
        destruct (Hrec r child a c0 Ha ltac:(lia)) as [E1 E2].
        destruct (chain fuel mm di c0 child) as [c' items] eqn:Hch. cbn [fst snd] in E1, E2. subst c'.
        destruct (IH (r - a) b Hb' (c0 + a) ((acc ++ items) ++ [CEdge f child]) ltac:(lia)) as [G1 G2].
        split; [rewrite G1; lia|].
        intros ch [Hch'|Hch'] Hne k x y Hr Hy.
        * subst ch. apply cloop_acc_incl. apply in_or_app. left. apply in_or_app. right.
          eapply E2; eassumption.
        * eapply G2; eassumption.
  Qed.

  Theorem chain_exact : forall fe r a n,
      expansions fe succ r a = Some n ->
      forall fuel cnt, fe <= fuel -> cnt + n <= B -> ExactAt fuel cnt a n.
  Proof.
    induction fe as [|fe IH]; intros r a n He fuel cnt Hf Hb; [discriminate|].
    pose proof (expansions_le _ _ _ _ He) as [Hpos _].
    destruct fuel as [|fuel]; [lia|].
    cbn [expansions] in He. destruct r as [|r]; [discriminate|].
    destruct (sum_children (expansions fe succ) succ (succ a) r) as [d|] eqn:Hd; [|discriminate].
    inversion He. subst n. clear He.
    unfold ExactAt. cbn [chain]. rewrite budget_test_c.
    assert (E : Nat.ltb maxLoopCount cnt = false) by (apply Nat.ltb_ge; unfold B in Hb; lia).
    rewrite E.
    destruct (callees mm a) as [|c0 cs0] eqn:Hc.
    - assert (Hs : succ a = []) by (apply succ_nil; assumption).
      rewrite Hs in Hd. simpl in Hd. inversion Hd. subst d. cbn [fst snd]. split; [lia|].
      intros k x y Hr Hy. apply ReachN_leaf in Hr; [|assumption]. subst x. rewrite Hs in Hy. contradiction.
    - assert (Hsa : succ a = map (subst_di di) (c0 :: cs0)) by (unfold CallGraphProofs.succ; now rewrite Hc).
      rewrite <- Hsa.
      destruct (cloop_exact fe fuel a (fun r0 a0 n0 cnt0 H1 H2 => IH r0 a0 n0 H1 fuel cnt0 ltac:(lia) H2)
                            (succ a) r d Hd (S cnt) [] ltac:(lia)) as [G1 G2].
      split; [rewrite G1; lia|].
      intros k x y Hr Hy. inversion Hr as [|k0 h h1 g Hin Hr']; subst.
      + now apply cloop_direct.
      + destruct (succ h1) as [|s0 ss] eqn:Hs1.
        * apply ReachN_leaf in Hr'; [|assumption]. subst x. rewrite Hs1 in Hy. contradiction.
        * eapply G2; try eassumption. congruence.
  Qed.
End Exact.

(* ------------------------------------------------------------------ DOT text and the verdict *)
Definition cstmt (i : citem) : stmt :=
  match i with CEdge a b => SEdge a b | CNewline => SBlank | COutOfFuel => SBlank end.

Lemma render_citems_stmts : forall items,
    ~ In COutOfFuel items -> render_citems items = render_stmts (map cstmt items).
Proof.
  intros items H. unfold render_citems, render_stmts. rewrite map_map. f_equal.
  apply map_ext_in. intros i Hi. destruct i; try reflexivity. contradiction.
Qed.

Lemma cstmt_edges_in : forall items a b,
    In (a, b) (stmt_edges (map cstmt items)) <-> In (CEdge a b) items.
Proof.
  intros items a b. unfold stmt_edges. rewrite in_flat_map. split.
  - intros [s [Hs Hin]]. apply in_map_iff in Hs. destruct Hs as [i [Hi Hs]]. subst s.
    destruct i; simpl in Hin; try contradiction. destruct Hin as [Hin|[]]. now inversion Hin; subst.
  - intros H. exists (SEdge a b). split; [|now left].
    apply in_map_iff. exists (CEdge a b). split; [reflexivity|assumption].
Qed.

Lemma render_stmts_cons : forall s l, render_stmts (s :: l) = (render_stmt s ++ render_stmts l)%string.
Proof.
  intros s l. unfold render_stmts. cbn [map]. destruct (map render_stmt l) eqn:E.
  - cbn [String.concat]. now rewrite append_nil_r.
  - cbn [String.concat]. reflexivity.
Qed.

Lemma render_stmts_app : forall a b, render_stmts (a ++ b) = (render_stmts a ++ render_stmts b)%string.
Proof.
  induction a as [|s a IH]; intros b.
  - reflexivity.
  - cbn [app]. rewrite !render_stmts_cons, IH. now rewrite append_assoc.
Qed.

Lemma stmt_edges_app : forall a b, stmt_edges (a ++ b) = stmt_edges a ++ stmt_edges b.
Proof. intros a b. unfold stmt_edges. apply flat_map_app. Qed.

Lemma subst_di_nil : forall c, subst_di [] c = c.
Proof. reflexivity. Qed.

Lemma succ_nil_di : forall mm a, succ mm [] a = callees mm a.
Proof. intros mm a. unfold succ. rewrite map_ext with (g := fun x => x); [apply map_id|reflexivity]. Qed.

Lemma spec_callees_nil_di : forall m a, spec_callees m [] a = callees (method_map m) a.
Proof.
  intros m a. unfold spec_callees. rewrite method_map_exact.
  rewrite map_ext with (g := fun x => x); [apply map_id|reflexivity].
Qed.

Lemma sum_children_ext : forall (s1 s2 : string -> list string) (r1 r2 : nat -> string -> option nat),
    (forall x, s1 x = s2 x) -> (forall r x, r1 r x = r2 r x) ->
    forall cs r, sum_children r1 s1 cs r = sum_children r2 s2 cs r.
Proof.
  intros s1 s2 r1 r2 Hs Hr. induction cs as [|c rest IH]; intros r; [reflexivity|].
  cbn [sum_children]. rewrite Hs, Hr. destruct (s2 c); [apply IH|].
  destruct (r2 r c); [|reflexivity]. now rewrite IH.
Qed.

Lemma expansions_ext : forall (s1 s2 : string -> list string), (forall x, s1 x = s2 x) ->
    forall fe r a, expansions fe s1 r a = expansions fe s2 r a.
Proof.
  intros s1 s2 He. induction fe as [|fe IH]; intros r a; [reflexivity|].
  cbn [expansions]. destruct r as [|r]; [reflexivity|]. rewrite He. f_equal.
  apply sum_children_ext; [exact He|exact IH].
Qed.

Lemma Reach_ReachN : forall (s : string -> list string) t g, Reach s t g -> exists k, ReachN s k t g.
Proof.
  intros s t g H. induction H as [|h g Hr [k IH] Hin].
  - exists 0. constructor.
  - exists (S k). eapply ReachN_snoc; eassumption.
Qed.

Lemma Reach_ext : forall (s1 s2 : string -> list string), (forall x, s1 x = s2 x) ->
    forall t g, Reach s1 t g -> Reach s2 t g.
Proof.
  intros s1 s2 He t g H. induction H as [|h g Hr IH Hin]; [constructor|].
  eapply r_step; [exact IH|]. now rewrite <- He.
Qed.

Definition all_call_names (m : list ds) : list string :=
  flat_map (fun d => flat_map all_call_strings (d_funcs d)) m.

Definition names_ok_c (m : list ds) (root : string) : Prop :=
  names_ok m root /\ forall x, In x (all_call_names m) -> plain x = true.

Lemma spec_callees_raw_names : forall m a b, In b (spec_callees_raw m a) -> In b (all_call_names m).
Proof.
  unfold spec_callees_raw, all_call_names. intros m a b H.
  apply in_flat_map in H. destruct H as [d [Hd H]]. apply in_flat_map in H. destruct H as [f [Hf H]].
  apply in_flat_map. exists d. split; [assumption|]. apply in_flat_map. exists f. split; [assumption|].
  destruct (String.eqb (func_full_name d f) a); [assumption|contradiction].
Qed.

Lemma cfuel_le_16 : cfuel <= 16.
Proof. apply Nat.leb_le. reflexivity. Qed.

(* the three clauses of the verdict, for an abstract item list with the chain's properties *)
Section Verdict.
  Variable m : list ds.
  Variable root : string.
  Variable lookup : bool.
  Variable items : list citem.
  Variable rst : list stmt.
  Variable bud : nat.
  Let mm := method_map m.
  Hypothesis Hsound : forall a b, In (CEdge a b) items ->
                                  In b (succ mm [] a) /\ ReachN (succ mm []) cfuel root a.
  Hypothesis Hroot : forall b, In b (succ mm [] root) -> In (CEdge root b) items.
  Hypothesis Hrst : forall a b, In (a, b) (stmt_edges rst) ->
                                lookup = true /\ rev_edge_ok m root (a, b) = true.

  Lemma Hsucc_ : forall x, succ mm [] x = spec_callees m [] x.
  Proof. intros x. unfold mm. now rewrite succ_nil_di, spec_callees_nil_di. Qed.

  Lemma verdict_sound :
    edges_sound_b m [] root lookup (stmt_edges (map cstmt items) ++ stmt_edges rst) = true.
  Proof.
    unfold edges_sound_b. apply forallb_forall. intros [a b] Hin. apply in_app_or in Hin.
    destruct Hin as [Hin|Hin].
    - apply cstmt_edges_in in Hin. destruct (Hsound a b Hin) as [H1 H2].
      apply orb_true_iff. left. unfold fwd_edge_ok. cbn [fst snd]. apply andb_true_iff. split.
      + apply str_mem_In. now rewrite <- Hsucc_.
      + apply str_mem_In. unfold freach. eapply reach_within_complete.
        * eapply ReachN_ext; [exact Hsucc_|exact H2].
        * pose proof cfuel_le_16. lia.
    - destruct (Hrst a b Hin) as [Hl Hr]. apply orb_true_iff. right. now rewrite Hl, Hr.
  Qed.

  Lemma verdict_root :
    root_complete_b m [] root (stmt_edges (map cstmt items) ++ stmt_edges rst) = true.
  Proof.
    unfold root_complete_b. apply forallb_forall. intros b Hb. unfold has_edge. apply existsb_exists.
    exists (root, b). split.
    - apply in_or_app. left. apply cstmt_edges_in. apply Hroot. now rewrite Hsucc_.
    - cbn [fst snd]. now rewrite !String.eqb_refl.
  Qed.

  Hypothesis Hexact : forall n, expansions (S bud) (succ mm []) bud root = Some n ->
                                forall k x y, ReachN (succ mm []) k root x -> In y (succ mm [] x) ->
                                              In (CEdge x y) items.

  Lemma fits_expansions : fits bud m [] root = true ->
                          exists n, expansions (S bud) (succ mm []) bud root = Some n.
  Proof.
    unfold fits. intros Hfit.
    destruct (expansions (S bud) (spec_callees m []) bud root) as [n|] eqn:Hexp; [|discriminate].
    exists n. rewrite <- Hexp. apply expansions_ext. exact Hsucc_.
  Qed.

  Lemma freach_ReachN : forall a, In a (freach m [] root) -> exists k, ReachN (succ mm []) k root a.
  Proof.
    intros a Ha. unfold freach in Ha. apply reach_within_sound in Ha.
    apply Reach_ReachN. eapply Reach_ext; [|exact Ha]. intros x. symmetry. apply Hsucc_.
  Qed.

  Lemma verdict_exact :
    exact_in_budget_b bud m [] root (stmt_edges (map cstmt items) ++ stmt_edges rst) = true.
  Proof.
    unfold exact_in_budget_b. destruct (fits bud m [] root) eqn:Hfit; [|reflexivity]. cbn [negb orb].
    destruct (fits_expansions Hfit) as [n Hexp].
    apply forallb_forall. intros a Ha. apply forallb_forall. intros b Hb.
    destruct (freach_ReachN a Ha) as [k Hk].
    unfold has_edge. apply existsb_exists. exists (a, b). split.
    - apply in_or_app. left. apply cstmt_edges_in. apply (Hexact n Hexp k a b Hk). now rewrite Hsucc_.
    - cbn [fst snd]. now rewrite !String.eqb_refl.
  Qed.

  Hypothesis Hcalls : forall x, In x (all_call_names m) -> plain x = true.
  Hypothesis Hrootplain : plain root = true.
  Hypothesis Hrplain : names_plain rst.

  Lemma verdict_plain : names_plain (SRankdir :: map cstmt items ++ rst).
  Proof.
    intros a b [Hin|Hin]; [discriminate|]. apply in_app_or in Hin. destruct Hin as [Hin|Hin].
    - assert (Hin' : In (CEdge a b) items).
      { apply cstmt_edges_in. unfold stmt_edges. apply in_flat_map. exists (SEdge a b). split; [assumption|now left]. }
      destruct (Hsound a b Hin') as [H1 H2].
      assert (Hsp : forall x y, In x (succ mm [] y) -> plain x = true).
      { intros x y Hx. apply Hcalls. rewrite Hsucc_ in Hx. unfold spec_callees in Hx.
        apply in_map_iff in Hx. destruct Hx as [x0 [Hx0 Hx]]. rewrite subst_di_nil in Hx0. subst x0.
        eapply spec_callees_raw_names; eassumption. }
      split; [|eapply Hsp; eassumption].
      apply ReachN_target_or_succ in H2. destruct H2 as [H2|[h H2]]; [now subst|eapply Hsp; eassumption].
    - now apply Hrplain.
  Qed.

  Lemma verdict_all :
    c03_call_verdict bud m root lookup
      ("digraph G {" ++ nl ++ render_stmts (SRankdir :: map cstmt items ++ rst) ++ "}" ++ nl)%string = [].
  Proof.
    unfold c03_call_verdict. rewrite dot_parse_render by exact verdict_plain.
    cbn [stmt_edges flat_map app]. fold (stmt_edges (map cstmt items ++ rst)). rewrite stmt_edges_app.
    now rewrite verdict_sound, verdict_root, verdict_exact.
  Qed.
End Verdict.

Lemma canalysis_text : forall cnt m root lookup,
    snd (canalysis cnt root m lookup) =
    ("digraph G {" ++ nl ++
     render_stmts (SRankdir :: map cstmt (snd (chain cfuel (method_map m) [] 0 root)) ++
                   (if lookup then map stmt_of (snd (build_rcall_chain rstate0 (method_call_map m) root)) else []))
     ++ "}" ++ nl)%string.
Proof.
  intros cnt m root lookup. unfold canalysis.
  pose proof (chain_terminates_in_budget (method_map m) [] root) as [Hoof _].
  pose proof (build_rcall_chain_terminates_in_budget (method_call_map m) rstate0 root) as [Hroof _].
  destruct (chain cfuel (method_map m) [] 0 root) as [cnt' items]. cbn [fst snd] in *.
  unfold call_to_graphviz. rewrite render_stmts_cons, render_stmts_app.
  rewrite render_citems_stmts by exact Hoof.
  destruct lookup.
  - destruct (build_rcall_chain rstate0 (method_call_map m) root) as [st' ri].
    cbn [snd] in *. rewrite render_ritems_stmts by exact Hroof.
    cbn [render_stmt]. now rewrite !append_assoc.
  - cbn [render_stmt]. change (render_stmts []) with "". now rewrite !append_assoc.
Qed.

Theorem canalysis_meets_spec : forall cnt m root lookup,
    names_ok_c m root ->
    c03_call_verdict (S maxLoopCount) m root lookup (snd (canalysis cnt root m lookup)) = [].
Proof.
  intros cnt m root lookup [Hok Hcalls]. rewrite canalysis_text.
  apply verdict_all.
  - exact (chain_sound (method_map m) [] cfuel 0 root).
  - intros b Hb. apply root_complete; [lia|assumption].
  - intros a b Hin. destruct lookup; [|contradiction]. split; [reflexivity|].
    apply stmt_edges_in in Hin. destruct (rchain_rev_edge_ok m rstate0 root a b Hin) as [H1 H2].
    unfold rev_edge_ok. cbn [fst snd]. now rewrite H1, H2.
  - intros n He. pose proof (expansions_le _ _ _ _ _ _ He) as [_ Hn].
    destruct (chain_exact (method_map m) [] _ _ _ _ He cfuel 0) as [_ G]; [unfold cfuel; lia|unfold B; lia|].
    exact G.
  - exact Hcalls.
  - exact (proj1 Hok).
  - destruct lookup; [|intros a b []]. now apply rchain_names_plain.
Qed.

(* non-vacuity: a diamond with an overloaded root fits the budget; a cycle does not *)
Definition ex_cmodel : list ds :=
  [ mkDs "A" "Class" "p" "" [] "" []
         [ex_func "r" [ex_call "p" "A" "a"]; ex_func "r" [ex_call "p" "A" "b"];
          ex_func "a" [ex_call "p" "A" "d"]; ex_func "b" [ex_call "p" "A" "d"; ex_call "ext" "E" "x"];
          ex_func "d" []; ex_func "c" [ex_call "p" "A" "c"]] [] [] [] ].

Lemma names_ok_c_of_b : forall m root,
    forallb plain (root :: declared_methods m ++ all_call_names m) = true -> names_ok_c m root.
Proof.
  intros m root H. rewrite forallb_forall in H. split; [split|].
  - apply H. now left.
  - intros x Hx. apply H. right. apply in_or_app. now left.
  - intros x Hx. apply H. right. apply in_or_app. now right.
Qed.

Example ex_cmodel_names_ok : names_ok_c ex_cmodel "p.A.r".
Proof. apply names_ok_c_of_b. vm_compute. reflexivity. Qed.

Example ex_cmodel_fits : fits (S maxLoopCount) ex_cmodel [] "p.A.r" = true
                         /\ fits (S maxLoopCount) ex_cmodel [] "p.A.c" = false.
Proof. split; vm_compute; reflexivity. Qed.

Example ex_cmodel_graph :
  dot_parse (snd (canalysis 0 "p.A.r" ex_cmodel false))
  = Some [("p.A.a", "p.A.d"); ("p.A.r", "p.A.a"); ("p.A.b", "p.A.d"); ("p.A.b", "ext.E.x"); ("p.A.r", "p.A.b")].
Proof. vm_compute. reflexivity. Qed.
