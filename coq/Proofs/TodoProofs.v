(* Lemmas and theorems about Model/Todo.v and Model/TodoSpec.v (C17). *)
From Coq Require Import String List Bool Arith Ascii Lia.
From Coca Require Import Lib.Str Lib.Scan Generated.Constants Model.Todo Model.TodoSpec.
Import ListNotations.
Open Scope string_scope.
Open Scope list_scope.

Arguments Ascii.eqb : simpl never.
Arguments nat_of_ascii : simpl never.

Local Notation "a +++ b" := (String.append a b) (at level 60, right associativity).

(* ------------------------------------------------------------------ characters *)
Ltac all_chars c := destruct c as [[] [] [] [] [] [] [] []]; vm_compute; try reflexivity; try discriminate; auto.

Lemma blank_is_space : forall c, blank c = is_space c.
Proof. intros c. all_chars c. Qed.

Lemma name_char_is_assignee_char : forall c, name_char c = is_assignee_char c.
Proof. intros c. all_chars c. Qed.

Lemma eqb_false_of (p : ascii -> bool) (d : ascii) :
  p d = true -> forall c, p c = false -> Ascii.eqb c d = false.
Proof.
  intros Hd c Hc. destruct (Ascii.eqb c d) eqn:E; auto.
  apply Ascii.eqb_eq in E. subst. congruence.
Qed.

(* ------------------------------------------------------------------ strings *)
Lemma take_app_length : forall a b, take (String.length a) (a +++ b) = a.
Proof. induction a; simpl; intros; f_equal; auto. Qed.

Lemma drop_app_length : forall a b, drop (String.length a) (a +++ b) = b.
Proof. induction a; simpl; intros; auto. Qed.

Lemma drop_app_le : forall n a b, n <= String.length a -> drop n (a +++ b) = drop n a +++ b.
Proof.
  induction n; intros a b H; simpl; auto.
  destruct a; simpl in *; [lia|]. apply IHn. lia.
Qed.

Lemma app_nil_r_s : forall a : string, a +++ "" = a.
Proof. apply append_nil_r. Qed.

Lemma app_assoc_s : forall a b c : string, (a +++ b) +++ c = a +++ (b +++ c).
Proof. apply append_assoc. Qed.

Lemma length_app_s : forall a b, String.length (a +++ b) = String.length a + String.length b.
Proof. apply length_append. Qed.

Lemma is_empty_true : forall s, is_empty s = true -> s = "".
Proof. destruct s; simpl; congruence. Qed.

(* ------------------------------------------------------------------ trimming *)
Definition rt (s : string) : Prop := rtrim s = s.

Lemma rtrim_empty_iff : forall s, is_empty (rtrim s) = forallb is_space (chars s).
Proof.
  induction s as [|c r IH]; simpl; auto.
  destruct (is_space c); simpl; auto.
  rewrite <- IH. destruct (is_empty (rtrim r)); reflexivity.
Qed.

Lemma rtrim_idem : forall s, rtrim (rtrim s) = rtrim s.
Proof.
  induction s as [|c r IH]; simpl; auto.
  destruct (is_space c && is_empty (rtrim r)) eqn:E; simpl; auto.
  rewrite IH, E. reflexivity.
Qed.

Lemma ltrim_idem : forall s, ltrim (ltrim s) = ltrim s.
Proof.
  induction s as [|c r IH]; simpl; auto.
  destruct (is_space c) eqn:E; auto. simpl. rewrite E. reflexivity.
Qed.

Lemma rtrim_all_blank_ltrim : forall s, rtrim s = "" -> ltrim s = "".
Proof.
  induction s as [|c r IH]; simpl; auto.
  destruct (is_space c) eqn:E; simpl.
  - destruct (is_empty (rtrim r)) eqn:E2; [|discriminate]. intros _. apply IH. now apply is_empty_true.
  - discriminate.
Qed.

Lemma ltrim_rtrim : forall s, ltrim (rtrim s) = rtrim (ltrim s).
Proof.
  induction s as [|c r IH]; simpl; auto.
  destruct (is_space c) eqn:E; simpl.
  - destruct (is_empty (rtrim r)) eqn:E2; simpl.
    + apply is_empty_true in E2. rewrite (rtrim_all_blank_ltrim _ E2). reflexivity.
    + rewrite E. apply IH.
  - rewrite E. simpl. reflexivity.
Qed.

Lemma trim_space_rtrim : forall s, trim_space (rtrim s) = trim_space s.
Proof. intros. unfold trim_space. rewrite ltrim_rtrim, rtrim_idem. reflexivity. Qed.

Lemma trim_space_idem : forall s, trim_space (trim_space s) = trim_space s.
Proof. intros. unfold trim_space. rewrite ltrim_rtrim, ltrim_idem, rtrim_idem. reflexivity. Qed.

Lemma rt_trim_space : forall s, rt (trim_space s).
Proof. intros. unfold rt, trim_space. apply rtrim_idem. Qed.

Lemma rt_nil : rt "".
Proof. reflexivity. Qed.

(* a right-trimmed text is empty or ends with a non-blank: its suffixes are right-trimmed *)
Lemma rt_cons_inv : forall c r, rt (String c r) -> rt r.
Proof.
  unfold rt. intros c r H. simpl in H.
  destruct (is_space c && is_empty (rtrim r)); [discriminate|]. injection H; auto.
Qed.

Lemma rt_suffix : forall a b, rt (a +++ b) -> rt b.
Proof. induction a; simpl; intros; auto. apply IHa. eapply rt_cons_inv; eauto. Qed.

Lemma ltrim_suffix : forall s, exists w, s = w +++ ltrim s /\ forallb is_space (chars w) = true.
Proof.
  induction s as [|c r IH]; simpl.
  - exists "". auto.
  - destruct (is_space c) eqn:E.
    + destruct IH as [w [H1 H2]]. exists (String c w). simpl. rewrite E, H2. split; auto. now rewrite <- H1.
    + exists "". auto.
Qed.

Lemma rt_ltrim : forall s, rt s -> rt (ltrim s).
Proof. intros s H. destruct (ltrim_suffix s) as [w [H1 _]]. rewrite H1 in H. eapply rt_suffix; eauto. Qed.

Lemma drop_suffix : forall n s, exists w, s = w +++ drop n s.
Proof.
  induction n; intros s; simpl.
  - exists "". reflexivity.
  - destruct s as [|c r]. { exists "". reflexivity. }
    destruct (IHn r) as [w H]. exists (String c w). simpl. now rewrite <- H.
Qed.

Lemma rt_drop : forall n s, rt s -> rt (drop n s).
Proof. intros n s H. destruct (drop_suffix n s) as [w H1]. rewrite H1 in H. eapply rt_suffix; eauto. Qed.

Lemma trim_left_colon_suffix : forall s, exists w, s = w +++ trim_left_colon s.
Proof.
  induction s as [|c r IH]; simpl.
  - exists "". reflexivity.
  - destruct (Ascii.eqb c ":"%char).
    + destruct IH as [w H]. exists (String c w). simpl. now rewrite <- H.
    + exists "". reflexivity.
Qed.

Lemma rt_trim_left_colon : forall s, rt s -> rt (trim_left_colon s).
Proof. intros s H. destruct (trim_left_colon_suffix s) as [w H1]. rewrite H1 in H. eapply rt_suffix; eauto. Qed.

(* a right-trimmed text is trimmed by cutting its leading blanks *)
Lemma trim_space_rt : forall s, rt s -> trim_space s = ltrim s.
Proof. intros s H. unfold trim_space. rewrite <- ltrim_rtrim. now rewrite H. Qed.

Lemma rtrim_app_nonblank : forall x y, rt y -> y <> "" -> rtrim (x +++ y) = x +++ y.
Proof.
  induction x as [|c x IH]; simpl; intros y Hy Hne; auto.
  rewrite IH by auto.
  destruct (x +++ y) eqn:E.
  - destruct x; simpl in E; [congruence|discriminate].
  - simpl. rewrite andb_false_r. reflexivity.
Qed.

Lemma ltrim_app_nonblank : forall x y, ltrim x <> "" -> ltrim (x +++ y) = ltrim x +++ y.
Proof.
  induction x as [|c x IH]; simpl; intros y H; [congruence|].
  destruct (is_space c); auto.
Qed.

Lemma ltrim_all_blank_app : forall w y, forallb is_space (chars w) = true -> ltrim (w +++ y) = ltrim y.
Proof.
  induction w as [|c w IH]; simpl; intros y H; auto.
  apply andb_true_iff in H. destruct H as [H1 H2]. rewrite H1. auto.
Qed.

Lemma ltrim_nil_all_blank : forall s, ltrim s = "" -> forallb is_space (chars s) = true.
Proof.
  induction s as [|c r IH]; simpl; auto.
  destruct (is_space c); simpl; auto. discriminate.
Qed.

Lemma rt_all_blank_nil : forall s, rt s -> forallb is_space (chars s) = true -> s = "".
Proof.
  intros s H Hb. unfold rt in H. rewrite <- H.
  apply is_empty_true. rewrite rtrim_empty_iff. exact Hb.
Qed.

(* ------------------------------------------------------------------ what follows the text of a comment *)
(* after the marker has been cut off, the text of a block comment is still followed by blanks and
   the closing marker; that of a line or hash comment by nothing *)
Definition tailc (c : ascii) : bool := is_space c || Ascii.eqb c "*"%char || Ascii.eqb c "/"%char.

Definition tailish (t : string) : Prop :=
  t = "" \/ exists w, forallb is_space (chars w) = true /\ t = w +++ "*/".

Lemma forallb_chars_cons : forall p c s, forallb p (chars (String c s)) = p c && forallb p (chars s).
Proof. reflexivity. Qed.

Lemma forallb_chars_app : forall p a b, forallb p (chars (a +++ b)) = forallb p (chars a) && forallb p (chars b).
Proof. intros. rewrite chars_app. apply forallb_app. Qed.

Lemma tailish_chars : forall t, tailish t -> forallb tailc (chars t) = true.
Proof.
  intros t [H|[w [H1 H2]]]; subst; auto.
  rewrite forallb_chars_app. apply andb_true_iff. split; [|reflexivity].
  induction w as [|c w IH]; simpl in *; auto.
  apply andb_true_iff in H1. destruct H1 as [Hc Hw].
  unfold tailc at 1. rewrite Hc. simpl. auto.
Qed.

Lemma tailish_rt : forall t, tailish t -> rt t.
Proof.
  intros t [H|[w [H1 H2]]]; subst; [reflexivity|].
  unfold rt. apply rtrim_app_nonblank; [reflexivity|discriminate].
Qed.

Lemma tailish_star : tailish "*/".
Proof. right. exists "". auto. Qed.

(* L1: trimming a right-trimmed text followed by a tail *)
Lemma trim_space_tail : forall r t, rt r -> tailish t ->
  exists t', tailish t' /\ trim_space (r +++ t) = ltrim r +++ t'.
Proof.
  intros r t Hr Ht. unfold trim_space.
  destruct (ltrim r) eqn:E.
  - assert (r = "") by (apply rt_all_blank_nil; auto; now apply ltrim_nil_all_blank). subst r. simpl.
    destruct Ht as [Ht|[w [H1 H2]]]; subst.
    + exists "". split; [now left|reflexivity].
    + exists "*/". split; [apply tailish_star|]. rewrite ltrim_all_blank_app by auto. reflexivity.
  - rewrite ltrim_app_nonblank by (rewrite E; discriminate). rewrite E.
    destruct Ht as [Ht|[w [H1 H2]]].
    + subst t. exists "". split; [now left|]. rewrite !app_nil_r_s. rewrite <- E. apply rt_ltrim; auto.
    + exists t. split; [right; eauto|]. apply rtrim_app_nonblank.
      * apply tailish_rt. right; eauto.
      * subst t. destruct w; discriminate.
Qed.

Lemma tailc_not (d : ascii) : tailc d = false -> forall t, forallb tailc (chars t) = true ->
  has_prefix (String d "") t = false.
Proof.
  intros Hd t Ht. destruct t as [|c t]; simpl; auto. simpl in Ht. apply andb_true_iff in Ht. destruct Ht as [Hc _].
  destruct (Ascii.eqb d c) eqn:E; auto. apply Ascii.eqb_eq in E. subst. congruence.
Qed.

Lemma trim_left_colon_tail : forall x t, has_prefix ":" t = false -> trim_left_colon (x +++ t) = trim_left_colon x +++ t.
Proof.
  induction x as [|c x IH]; simpl; intros t Ht.
  - destruct t as [|c t]; simpl in *; auto. revert Ht. rewrite (Ascii.eqb_sym c).
    destruct (Ascii.eqb ":" c); [discriminate|reflexivity].
  - destruct (Ascii.eqb c ":"%char); auto.
Qed.

(* the separator after the keyword / the assignee: blanks, colons, blanks *)
Definition sep (r : string) : string :=
  let x := ltrim r in if has_prefix ":" x then ltrim (trim_left_colon x) else x.

Lemma rt_sep : forall r, rt r -> rt (sep r).
Proof.
  intros r H. unfold sep. destruct (has_prefix ":" (ltrim r)).
  - apply rt_ltrim, rt_trim_left_colon, rt_ltrim, H.
  - apply rt_ltrim, H.
Qed.

(* L2: the separator in front of a tail *)
Lemma strip_colon_tail : forall r t, rt r -> tailish t ->
  exists t', tailish t' /\ strip_colon (trim_space (r +++ t)) = sep r +++ t'.
Proof.
  intros r t Hr Ht.
  destruct (trim_space_tail r t Hr Ht) as [t1 [Ht1 E1]]. rewrite E1.
  unfold strip_colon, sep.
  assert (Hc : has_prefix ":" t1 = false) by (apply tailc_not; [reflexivity|now apply tailish_chars]).
  destruct (ltrim r) as [|c x] eqn:E.
  - change ("" +++ t1) with t1. rewrite Hc. exists t1. split; [auto|reflexivity].
  - assert (Hp : has_prefix ":" (String c x +++ t1) = has_prefix ":" (String c x)) by reflexivity.
    rewrite Hp. destruct (has_prefix ":" (String c x)) eqn:E2.
    + rewrite trim_left_colon_tail by auto.
      assert (Hrt : rt (trim_left_colon (String c x))).
      { apply rt_trim_left_colon. rewrite <- E. now apply rt_ltrim. }
      destruct (trim_space_tail _ t1 Hrt Ht1) as [t2 [Ht2 E3]]. exists t2. split; auto.
    + exists t1. auto.
Qed.

Lemma skip_blanks_ltrim : forall s, skip_blanks s = ltrim s.
Proof. induction s as [|c r IH]; simpl; auto. rewrite blank_is_space. destruct (is_space c); auto. Qed.

Lemma skip_colons_tlc : forall s, skip_colons s = trim_left_colon s.
Proof. induction s as [|c r IH]; simpl; auto; try (destruct (Ascii.eqb c ":"%char); auto). Qed.

Lemma tlc_no_colon : forall x, has_prefix ":" x = false -> trim_left_colon x = x.
Proof.
  destruct x as [|c x]; simpl; auto. rewrite (Ascii.eqb_sym c). destruct (Ascii.eqb ":" c); [discriminate|auto].
Qed.

Lemma skip_sep_sep : forall r, skip_sep r = sep r.
Proof.
  intros r. unfold skip_sep, sep. rewrite !skip_blanks_ltrim, skip_colons_tlc.
  destruct (has_prefix ":" (ltrim r)) eqn:E; auto.
  rewrite tlc_no_colon by auto. apply ltrim_idem.
Qed.

(* ------------------------------------------------------------------ the assignee *)
Lemma span_eq : forall p s, fst (span p s) +++ snd (span p s) = s.
Proof.
  induction s as [|c r IH]; simpl; auto.
  destruct (p c); simpl; auto. destruct (span p r) as [a b]. simpl in *. now rewrite IH.
Qed.

Lemma span_app : forall p a b,
  span p (a +++ b) =
  match snd (span p a) with
  | EmptyString => (a +++ fst (span p b), snd (span p b))
  | _ => (fst (span p a), snd (span p a) +++ b)
  end.
Proof.
  induction a as [|c a IH]; intros b; simpl.
  - destruct (span p b); reflexivity.
  - destruct (p c); simpl; auto.
    rewrite IH. destruct (span p a) as [x y]. simpl. destruct y; reflexivity.
Qed.

Lemma span_snd_chars : forall p q s, forallb q (chars s) = true -> forallb q (chars (snd (span p s))) = true.
Proof.
  induction s as [|c r IH]; simpl; auto. intros H.
  destruct (p c); simpl; auto. apply andb_true_iff in H. destruct H as [_ H].
  destruct (span p r). simpl in *. auto.
Qed.

Lemma find_assignee_tail : forall y t, tailish t -> find_assignee (y +++ t) = find_assignee y.
Proof.
  intros y t Ht. pose proof (tailish_chars _ Ht) as Hc.
  destruct y as [|c y]; unfold find_assignee; cbn [append].
  - destruct t as [|d t]; auto. rewrite forallb_chars_cons in Hc.
    apply andb_true_iff in Hc. destruct Hc as [Hd _].
    destruct (Ascii.eqb d "("%char) eqn:E; auto. apply Ascii.eqb_eq in E. subst. discriminate.
  - destruct (Ascii.eqb c "("%char); auto.
    rewrite span_app. destruct (span is_assignee_char y) as [a0 b0] eqn:E0. cbn [fst snd].
    destruct b0 as [|d b0].
    + destruct (span is_assignee_char t) as [a1 b1] eqn:E1. cbn [fst snd].
      assert (Hb : has_prefix ")" b1 = false).
      { apply tailc_not; [reflexivity|]. replace b1 with (snd (span is_assignee_char t)) by now rewrite E1.
        now apply span_snd_chars. }
      rewrite Hb, andb_false_r. cbn [has_prefix]. rewrite andb_false_r. reflexivity.
    + reflexivity.
Qed.

(* the match of the assignee expression at the head of y, as the specification reads it *)
Lemma find_assignee_split : forall y,
  match split_assignee y with
  | (EmptyString, r) => find_assignee y = "" /\ r = y
  | (a, r) => find_assignee y = "(" +++ a +++ ")" /\ r = skip_sep (drop (String.length a + 2) y)
  end.
Proof.
  intros y. destruct y as [|c y]; simpl; auto.
  destruct (Ascii.eqb c "("%char) eqn:Ec; simpl; auto.
  assert (Hs : span name_char y = span is_assignee_char y).
  { clear. induction y as [|c y IH]; simpl; auto. rewrite name_char_is_assignee_char, IH. reflexivity. }
  rewrite Hs. pose proof (span_eq is_assignee_char y) as Hy.
  destruct (span is_assignee_char y) as [a b]. simpl in Hy.
  destruct a as [|a0 a]; simpl; auto.
  destruct b as [|d b]; simpl; auto.
  rewrite (Ascii.eqb_sym ")" d).
  destruct (Ascii.eqb d ")"%char) eqn:Ed; simpl; auto.
  split; auto. f_equal.
  rewrite <- Hy. apply Ascii.eqb_eq in Ed. subst d.
  replace (String.length a + 2) with (S (String.length (a +++ ")"))) by (rewrite length_app_s; simpl; lia).
  cbn [append drop].
  replace (a +++ String ")" b) with ((a +++ ")") +++ b) by (rewrite app_assoc_s; reflexivity).
  now rewrite drop_app_length.
Qed.

Lemma take_drop_parens : forall a, take (String.length ("(" +++ a +++ ")") - 2) (drop 1 ("(" +++ a +++ ")")) = a.
Proof.
  intros a. simpl. rewrite length_app_s. simpl.
  replace (String.length a + 1 - 1) with (String.length a) by lia.
  apply take_app_length.
Qed.

(* ------------------------------------------------------------------ the message *)
(* strong induction on the length, for the two-character look-ahead of the star replacement *)
Lemma string_len_ind : forall P : string -> Prop,
  (forall s, (forall s', String.length s' < String.length s -> P s') -> P s) -> forall s, P s.
Proof.
  intros P H s. remember (String.length s) as n eqn:E. revert s E.
  induction n as [n IH] using lt_wf_ind. intros s E. apply H. intros s' Hlt.
  apply (IH (String.length s')); auto. lia.
Qed.

Definition nostar (s : string) : Prop := forallb (fun c => negb (Ascii.eqb c "*"%char)) (chars s) = true.

Lemma rtrim_prefix : forall s, exists w, s = rtrim s +++ w.
Proof.
  induction s as [|c r [w IH]]; simpl.
  - exists "". reflexivity.
  - destruct (is_space c && is_empty (rtrim r)).
    + exists (String c r). reflexivity.
    + exists w. simpl. now rewrite <- IH.
Qed.

(* newlines as blanks *)
Fixpoint nl2sp (s : string) : string :=
  match s with
  | EmptyString => EmptyString
  | String c r => String (if Ascii.eqb c c_nl then " "%char else c) (nl2sp r)
  end.

(* handleForMultipleLine is the documented normalisation, plus newlines as blanks *)
Lemma norm_message_unstar : forall s, norm_message s = nl2sp (unstar s).
Proof.
  induction s as [s IH] using string_len_ind. destruct s as [|a r]; [reflexivity|].
  cbn [norm_message unstar]. change c_star with "*"%char. change c_slash with "/"%char.
  destruct (Ascii.eqb a "*"%char) eqn:Ea.
  - destruct r as [|b r2]; [reflexivity|].
    destruct (Ascii.eqb b "/"%char); cbn [nl2sp]; change (Ascii.eqb " " c_nl) with false; cbv iota; f_equal;
      apply IH; cbn [String.length]; lia.
  - cbn [nl2sp]. destruct (Ascii.eqb a c_nl); f_equal; apply IH; cbn [String.length]; lia.
Qed.

Lemma unstar_app : forall m t, has_prefix "/" t = false -> unstar (m +++ t) = unstar m +++ unstar t.
Proof.
  intros m t Ht. induction m as [m IH] using string_len_ind. destruct m as [|a r]; [reflexivity|].
  cbn [append unstar]. destruct (Ascii.eqb a "*"%char).
  - destruct r as [|b r2].
    + cbn [append]. destruct t as [|b t']; [reflexivity|].
      cbn [has_prefix] in Ht. rewrite (Ascii.eqb_sym b). destruct (Ascii.eqb "/" b); [discriminate|reflexivity].
    + cbn [append]. destruct (Ascii.eqb b "/"%char); cbn [append]; f_equal.
      * apply IH. cbn [String.length]. lia.
      * apply (IH (String b r2)). cbn [String.length]. lia.
  - cbn [append]. f_equal. apply IH. cbn [String.length]. lia.
Qed.

Lemma nostar_unstar : forall s, nostar (unstar s).
Proof.
  unfold nostar. induction s as [s IH] using string_len_ind. destruct s as [|a r]; [reflexivity|].
  cbn [unstar]. destruct (Ascii.eqb a "*"%char) eqn:Ea.
  - destruct r as [|b r2]; [reflexivity|].
    destruct (Ascii.eqb b "/"%char); rewrite forallb_chars_cons; change (negb (Ascii.eqb " " "*")) with true;
      cbn [andb]; apply IH; cbn [String.length]; lia.
  - rewrite forallb_chars_cons, Ea. cbn [negb andb]. apply IH. cbn [String.length]. lia.
Qed.

Lemma nostar_nl2sp : forall s, nostar s -> nostar (nl2sp s).
Proof.
  unfold nostar. induction s as [|c s IH]; intros H; auto.
  rewrite forallb_chars_cons in H. apply andb_true_iff in H. destruct H as [Hc Hs].
  cbn [nl2sp]. rewrite forallb_chars_cons, (IH Hs), andb_true_r.
  destruct (Ascii.eqb c c_nl); [reflexivity|exact Hc].
Qed.

Lemma unstar_nostar : forall s, nostar s -> unstar s = s.
Proof.
  unfold nostar. induction s as [|c s IH]; intros H; auto.
  rewrite forallb_chars_cons in H. apply andb_true_iff in H. destruct H as [Hc Hs].
  apply negb_true_iff in Hc. cbn [unstar]. rewrite Hc. f_equal. auto.
Qed.

Lemma tailish_no_slash : forall t, tailish t -> has_prefix "/" t = false.
Proof.
  intros t [H|[w [Hw H]]]; subst; auto.
  destruct w as [|c w]; [reflexivity|]. rewrite forallb_chars_cons in Hw. apply andb_true_iff in Hw.
  destruct Hw as [Hc _]. cbn [append has_prefix].
  destruct (Ascii.eqb "/" c) eqn:E; auto. apply Ascii.eqb_eq in E. subst c. discriminate.
Qed.

Lemma unstar_tail_blank : forall t, tailish t -> forallb blank (chars (unstar t)) = true.
Proof.
  intros t [H|[w [Hw H]]]; subst; auto.
  rewrite unstar_app by reflexivity. rewrite forallb_chars_app. apply andb_true_iff. split; [|reflexivity].
  induction w as [|c w IH]; [reflexivity|].
  rewrite forallb_chars_cons in Hw. apply andb_true_iff in Hw. destruct Hw as [Hc Hw].
  assert (Hs : Ascii.eqb c "*"%char = false) by (apply (eqb_false_of (fun c => negb (is_space c))); [reflexivity|now rewrite Hc]).
  cbn [unstar]. rewrite Hs, forallb_chars_cons, blank_is_space, Hc. cbn [andb]. auto.
Qed.

Lemma words_from_blank_tail : forall b, forallb blank (chars b) = true ->
  forall s cur, words_from (s +++ b) cur = words_from s cur.
Proof.
  intros b Hb. induction s as [|c s IH]; intros cur.
  - simpl. revert cur. induction b as [|c b IHb]; intros cur; auto.
    rewrite forallb_chars_cons in Hb. apply andb_true_iff in Hb. destruct Hb as [Hc Hb].
    cbn [words_from]. rewrite Hc. destruct cur; rewrite (IHb Hb); reflexivity.
  - cbn [append words_from]. destruct (blank c); [destruct cur|]; rewrite IH; reflexivity.
Qed.

Lemma words_from_nl2sp : forall s cur, words_from (nl2sp s) cur = words_from s cur.
Proof.
  induction s as [|c s IH]; intros cur; auto.
  cbn [nl2sp words_from]. destruct (Ascii.eqb c c_nl) eqn:E.
  - apply Ascii.eqb_eq in E. subst c. change (blank " ") with true. change (blank c_nl) with true.
    cbv iota. destruct cur; now rewrite IH.
  - destruct (blank c); [destruct cur|]; now rewrite IH.
Qed.

(* the message in front of what a block comment leaves behind: the same words *)
Lemma message_words_model : forall m t, tailish t ->
  message_words (norm_message (m +++ t)) = message_words m.
Proof.
  intros m t Ht. unfold message_words.
  rewrite norm_message_unstar, unstar_app by (now apply tailish_no_slash).
  rewrite unstar_nostar.
  - unfold words. rewrite words_from_nl2sp. apply words_from_blank_tail. now apply unstar_tail_blank.
  - apply nostar_nl2sp. rewrite <- unstar_app by (now apply tailish_no_slash). apply nostar_unstar.
Qed.

(* ------------------------------------------------------------------ the keyword *)
Lemma upper_tail : forall c, tailc c = true -> in_range 65 90 (upper_char c) = false.
Proof. intros c. all_chars c. Qed.

Lemma has_prefix_upper_tail : forall p v t,
  forallb (in_range 65 90) (chars p) = true -> forallb tailc (chars t) = true ->
  has_prefix p (to_upper (v +++ t)) = has_prefix p (to_upper v).
Proof.
  induction p as [|x p IH]; intros v t Hp Ht; auto.
  rewrite forallb_chars_cons in Hp. apply andb_true_iff in Hp. destruct Hp as [Hx Hp].
  destruct v as [|c v]; cbn [append to_upper has_prefix].
  - destruct t as [|d t]; auto. cbn [to_upper has_prefix].
    rewrite forallb_chars_cons in Ht. apply andb_true_iff in Ht. destruct Ht as [Hd _].
    destruct (Ascii.eqb x (upper_char d)) eqn:E; auto.
    apply Ascii.eqb_eq in E. subst x. rewrite (upper_tail _ Hd) in Hx. discriminate.
  - destruct (Ascii.eqb x (upper_char c)); auto.
Qed.

Lemma todo_ident_len_tail : forall v t, tailish t ->
  todo_ident_len todo_identifiers (v +++ t) = todo_ident_len todo_identifiers v.
Proof.
  intros v t Ht. pose proof (tailish_chars _ Ht) as Hc. unfold todo_identifiers. cbn [todo_ident_len].
  rewrite !has_prefix_upper_tail by (auto; reflexivity). reflexivity.
Qed.

Lemma up_t b : Ascii.eqb "T" (upper_char b) = Ascii.eqb "t" (lower b). Proof. all_chars b. Qed.
Lemma up_o b : Ascii.eqb "O" (upper_char b) = Ascii.eqb "o" (lower b). Proof. all_chars b. Qed.
Lemma up_d b : Ascii.eqb "D" (upper_char b) = Ascii.eqb "d" (lower b). Proof. all_chars b. Qed.
Lemma up_f b : Ascii.eqb "F" (upper_char b) = Ascii.eqb "f" (lower b). Proof. all_chars b. Qed.
Lemma up_i b : Ascii.eqb "I" (upper_char b) = Ascii.eqb "i" (lower b). Proof. all_chars b. Qed.
Lemma up_x b : Ascii.eqb "X" (upper_char b) = Ascii.eqb "x" (lower b). Proof. all_chars b. Qed.
Lemma up_m b : Ascii.eqb "M" (upper_char b) = Ascii.eqb "m" (lower b). Proof. all_chars b. Qed.
Lemma up_e b : Ascii.eqb "E" (upper_char b) = Ascii.eqb "e" (lower b). Proof. all_chars b. Qed.

Ltac kw_step v :=
  destruct v as [|?c v]; cbn [to_upper has_prefix ci_prefix drop];
  [auto | rewrite ?up_t, ?up_o, ?up_d, ?up_f, ?up_i, ?up_x, ?up_m, ?up_e;
          match goal with |- context [Ascii.eqb ?a (lower ?b)] => destruct (Ascii.eqb a (lower b)); auto end].

Lemma kw_todo : forall v,
  if has_prefix "TODO" (to_upper v) then ci_prefix "todo" v = Some (drop 4 v) else ci_prefix "todo" v = None.
Proof. intros v. kw_step v. kw_step v. kw_step v. kw_step v. Qed.

Lemma kw_fixme : forall v,
  if has_prefix "FIXME" (to_upper v) then ci_prefix "fixme" v = Some (drop 5 v) else ci_prefix "fixme" v = None.
Proof. intros v. kw_step v. kw_step v. kw_step v. kw_step v. kw_step v. Qed.

(* IsTodoIdentifier reads the keyword exactly as the specification does *)
Lemma todo_ident_len_spec : forall v,
  match todo_ident_len todo_identifiers v with
  | Some n => after_keyword v = Some (drop n v)
  | None => after_keyword v = None
  end.
Proof.
  intros v. unfold todo_identifiers, after_keyword. cbn [todo_ident_len].
  pose proof (kw_todo v) as H1. pose proof (kw_fixme v) as H2.
  destruct (has_prefix "TODO" (to_upper v)).
  - rewrite H1. reflexivity.
  - rewrite H1. destruct (has_prefix "FIXME" (to_upper v)); exact H2.
Qed.

(* ------------------------------------------------------------------ ParseComment after the marker *)
Lemma has_prefix_length : forall p s, has_prefix p s = true -> String.length p <= String.length s.
Proof.
  induction p as [|c p IH]; intros s H; simpl; [lia|].
  destruct s as [|d s]; simpl in H; [discriminate|].
  destruct (Ascii.eqb c d); [|discriminate]. simpl. apply IH in H. lia.
Qed.

Lemma length_to_upper : forall s, String.length (to_upper s) = String.length s.
Proof. induction s; simpl; auto. Qed.

Lemma todo_ident_len_le : forall ids v n, todo_ident_len ids v = Some n -> n <= String.length v.
Proof.
  induction ids as [|i ids IH]; intros v n H; simpl in H; [discriminate|].
  destruct (has_prefix i (to_upper v)) eqn:E; auto.
  inversion H; subst. apply has_prefix_length in E. now rewrite length_to_upper in E.
Qed.

Lemma find_assignee_prefix : forall y, exists y2, y = find_assignee y +++ y2.
Proof.
  intros y. unfold find_assignee. destruct y as [|c y]; [exists ""; reflexivity|].
  destruct (Ascii.eqb c "("%char) eqn:Ec; [|eexists; reflexivity].
  pose proof (span_eq is_assignee_char y) as Hy. destruct (span is_assignee_char y) as [a b]. cbn [fst snd] in Hy.
  destruct (negb (is_empty a) && has_prefix ")" b) eqn:E; [|eexists; reflexivity].
  apply andb_true_iff in E. destruct E as [_ E]. apply has_prefix_spec in E. destruct E as [b' E]. subst b.
  apply Ascii.eqb_eq in Ec. subst c. exists b'. rewrite <- Hy. cbn [append]. f_equal.
  rewrite !app_assoc_s. reflexivity.
Qed.

(* For every trimmed comment text, followed by what the marker cut leaves behind it, ParseComment
   decides "todo or not", the assignee and the words of the message as specified. *)
Theorem parse_stripped_spec : forall v t, rt v -> tailish t ->
  match after_keyword v with
  | None => parse_stripped (v +++ t) = PNone
  | Some rest =>
    exists m', parse_stripped (v +++ t) = PTodo (fst (split_assignee (skip_sep rest))) m' /\
               message_words m' = message_words (snd (split_assignee (skip_sep rest)))
  end.
Proof.
  intros v t Hrt Ht. unfold parse_stripped. rewrite todo_ident_len_tail by auto.
  pose proof (todo_ident_len_spec v) as Hk.
  destruct (todo_ident_len todo_identifiers v) as [n|] eqn:En; rewrite Hk; [|reflexivity].
  rewrite drop_app_le by (eapply todo_ident_len_le; eauto).
  set (r := drop n v).
  assert (Hr : rt r) by (apply rt_drop; auto).
  destruct (strip_colon_tail r t Hr Ht) as [t1 [Ht1 E1]]. rewrite E1.
  rewrite find_assignee_tail by auto. rewrite skip_sep_sep.
  set (y := sep r).
  assert (Hy : rt y) by (apply rt_sep; auto).
  pose proof (find_assignee_split y) as Hs.
  destruct (split_assignee y) as [a m]. cbn [fst snd].
  destruct a as [|a0 a].
  - destruct Hs as [Hf Hm]. subst m. rewrite Hf. cbn [is_empty].
    eexists. split; [reflexivity|]. apply message_words_model; auto.
  - destruct Hs as [Hf Hm]. rewrite Hf.
    change (is_empty ("(" +++ String a0 a +++ ")")) with false. cbv iota.
    rewrite take_drop_parens.
    destruct (find_assignee_prefix y) as [y2 Hy2]. rewrite Hf in Hy2.
    assert (Hlen : String.length ("(" +++ String a0 a +++ ")") = String.length (String a0 a) + 2).
    { cbn [append String.length]. rewrite length_app_s. cbn [String.length]. lia. }
    rewrite drop_app_le by (rewrite Hy2, !length_app_s; lia).
    rewrite Hlen.
    set (r2 := drop (String.length (String a0 a) + 2) y) in *.
    assert (Hr2 : rt r2) by (apply rt_drop; auto).
    destruct (strip_colon_tail r2 t1 Hr2 Ht1) as [t2 [Ht2 E2]]. rewrite E2.
    eexists. split; [reflexivity|]. rewrite Hm, skip_sep_sep.
    apply message_words_model; auto.
Qed.

(* ------------------------------------------------------------------ the specification's strip is TrimSpace *)
Lemma drop_while_ext : forall p q l, (forall c, p c = q c) -> drop_while p l = drop_while q l.
Proof. induction l as [|c l IH]; intros H; simpl; auto. rewrite H, IH by auto. reflexivity. Qed.

Lemma forallb_rev : forall (p : ascii -> bool) l, forallb p (rev l) = forallb p l.
Proof.
  induction l as [|a l IH]; simpl; auto. rewrite forallb_app, IH. simpl.
  destruct (p a), (forallb p l); reflexivity.
Qed.

Lemma drop_while_snoc : forall p l c,
  drop_while p (l ++ [c]) = if forallb p l then (if p c then [] else [c]) else drop_while p l ++ [c].
Proof.
  induction l as [|a l IH]; intros c; simpl; auto.
  destruct (p a); simpl; auto.
Qed.

Lemma chars_ltrim : forall s, chars (ltrim s) = drop_while is_space (chars s).
Proof. induction s as [|c r IH]; simpl; auto. destruct (is_space c); auto. Qed.

Lemma chars_rtrim : forall s, chars (rtrim s) = rev (drop_while is_space (rev (chars s))).
Proof.
  induction s as [|c r IH]; auto.
  change (chars (String c r)) with (c :: chars r). cbn [rev]. rewrite drop_while_snoc, forallb_rev.
  cbn [rtrim]. rewrite rtrim_empty_iff.
  destruct (forallb is_space (chars r)) eqn:E.
  - rewrite andb_true_r. destruct (is_space c); auto.
    assert (Hr : rtrim r = "") by (apply is_empty_true; now rewrite rtrim_empty_iff).
    rewrite Hr. reflexivity.
  - rewrite andb_false_r. rewrite rev_app_distr. cbn [rev app]. rewrite <- IH. reflexivity.
Qed.

Lemma strip_trim_space : forall s, strip s = trim_space s.
Proof.
  intros s. unfold strip, trim_space.
  rewrite !(drop_while_ext blank is_space) by apply blank_is_space.
  rewrite <- chars_ltrim, <- chars_rtrim. apply unchars_chars.
Qed.

(* ------------------------------------------------------------------ ParseComment on the three comment shapes *)
Lemma rtrim_prefix_blank : forall s, exists w, s = rtrim s +++ w /\ forallb is_space (chars w) = true.
Proof.
  induction s as [|c r [w [IH Hw]]]; simpl.
  - exists "". auto.
  - destruct (is_space c && is_empty (rtrim r)) eqn:E.
    + exists (String c r). split; auto. apply andb_true_iff in E. destruct E as [Hc Hr].
      rewrite forallb_chars_cons, Hc. rewrite rtrim_empty_iff in Hr. exact Hr.
    + exists w. simpl. now rewrite <- IH.
Qed.

Lemma parse_comment_line : forall b, parse_comment ("//" +++ b) = parse_stripped (trim_space b).
Proof.
  intros b. unfold parse_comment.
  assert (E : trim_space ("//" +++ b) = "//" +++ rtrim b) by reflexivity.
  rewrite E. change (has_prefix "#" ("//" +++ rtrim b)) with false. cbv iota.
  change (has_marker_prefix ("//" +++ rtrim b)) with true. cbv iota.
  change (slice_from 2 ("//" +++ rtrim b)) with (Some (rtrim b)). cbv iota.
  now rewrite trim_space_rtrim.
Qed.

Lemma parse_comment_block : forall b, exists t, tailish t /\
  parse_comment ("/*" +++ b +++ "*/") = parse_stripped (trim_space b +++ t).
Proof.
  intros b. unfold parse_comment.
  assert (E : trim_space ("/*" +++ b +++ "*/") = "/*" +++ b +++ "*/").
  { unfold trim_space. change (ltrim ("/*" +++ b +++ "*/")) with ("/*" +++ b +++ "*/").
    replace ("/*" +++ b +++ "*/") with (("/*" +++ b) +++ "*/") by reflexivity.
    apply rtrim_app_nonblank; [reflexivity|discriminate]. }
  rewrite E. change (has_prefix "#" ("/*" +++ b +++ "*/")) with false. cbv iota.
  change (has_marker_prefix ("/*" +++ b +++ "*/")) with true. cbv iota.
  change (slice_from 2 ("/*" +++ b +++ "*/")) with (Some (b +++ "*/")). cbv iota.
  unfold trim_space at 1.
  destruct (ltrim b) eqn:El.
  - exists "*/". split; [apply tailish_star|].
    rewrite ltrim_all_blank_app by (now apply ltrim_nil_all_blank).
    unfold trim_space. rewrite El. reflexivity.
  - rewrite ltrim_app_nonblank by (rewrite El; discriminate).
    rewrite rtrim_app_nonblank by (reflexivity || discriminate).
    destruct (rtrim_prefix_blank (ltrim b)) as [w [Hw Hb]].
    exists (w +++ "*/"). split; [right; eauto|].
    unfold trim_space. rewrite <- app_assoc_s, <- Hw, El. reflexivity.
Qed.

(* the one-byte marker is cut as one byte: whatever follows the hash is the text *)
Lemma parse_comment_hash : forall b, parse_comment ("#" +++ b) = parse_stripped (trim_space b).
Proof.
  intros b. unfold parse_comment.
  assert (E : trim_space ("#" +++ b) = "#" +++ rtrim b) by reflexivity.
  rewrite E. change (has_prefix "#" ("#" +++ rtrim b)) with true. cbv iota.
  change (slice_from 1 ("#" +++ rtrim b)) with (Some (rtrim b)). cbv iota.
  now rewrite trim_space_rtrim.
Qed.

(* The property for one comment: for EVERY line comment, block comment or hash comment,
   ParseComment reports it iff its text begins (after the marker and blanks) with TODO / FIXME in
   any letter case, with the specified assignee and the words of the specified message;
   otherwise it returns nil. *)
Theorem parse_comment_meets_spec : forall k body,
  k = ILine \/ k = IBlock \/ k = IHash ->
  match read_comment k body with
  | None => parse_comment (render k body) = PNone
  | Some (a, m) => exists m', parse_comment (render k body) = PTodo a m' /\ message_words m' = message_words m
  end.
Proof.
  intros k body Hk. unfold read_comment. rewrite strip_trim_space.
  assert (Hgen : forall t, tailish t ->
            match after_keyword (trim_space body) with
            | None => parse_stripped (trim_space body +++ t) = PNone
            | Some rest => let '(a, m) := split_assignee (skip_sep rest) in
                           exists m', parse_stripped (trim_space body +++ t) = PTodo a m' /\
                                      message_words m' = message_words m
            end).
  { intros t Ht. pose proof (parse_stripped_spec (trim_space body) t (rt_trim_space body) Ht) as H.
    destruct (after_keyword (trim_space body)); auto. destruct (split_assignee (skip_sep s)); auto. }
  destruct Hk as [Hk|[Hk|Hk]]; subst k; cbn [render].
  - rewrite parse_comment_line. specialize (Hgen "" (or_introl eq_refl)). rewrite app_nil_r_s in Hgen.
    destruct (after_keyword (trim_space body)) as [rest|]; [destruct (split_assignee (skip_sep rest))|]; assumption.
  - destruct (parse_comment_block body) as [t [Ht E]]. rewrite E. specialize (Hgen t Ht).
    destruct (after_keyword (trim_space body)) as [rest|]; [destruct (split_assignee (skip_sep rest))|]; assumption.
  - rewrite parse_comment_hash. specialize (Hgen "" (or_introl eq_refl)). rewrite app_nil_r_s in Hgen.
    destruct (after_keyword (trim_space body)) as [rest|]; [destruct (split_assignee (skip_sep rest))|]; assumption.
Qed.

(* ------------------------------------------------------------------ totality *)
Lemma parse_stripped_no_panic : forall t, parse_stripped t <> PPanic.
Proof.
  intros t. unfold parse_stripped. destruct (todo_ident_len todo_identifiers t); [|discriminate].
  destruct (is_empty _); discriminate.
Qed.

(* ParseComment is total: no text whatsoever -- in particular no comment token the lexer can
   produce: empty, marker only, one character, a lone hash -- makes a slice expression panic *)
Theorem parse_comment_total : forall t, parse_comment t <> PPanic.
Proof.
  intros t. unfold parse_comment.
  destruct (has_prefix "#" (trim_space t)) eqn:Eh.
  - apply has_prefix_length in Eh. unfold slice_from.
    replace (Nat.ltb (String.length (trim_space t)) 1) with false
      by (symmetry; apply Nat.ltb_ge; exact Eh).
    apply parse_stripped_no_panic.
  - destruct (has_marker_prefix (trim_space t)) eqn:Em; [|apply parse_stripped_no_panic].
    unfold has_marker_prefix in Em.
    assert (Hl : 2 <= String.length (trim_space t)).
    { apply orb_true_iff in Em. destruct Em as [Em|Em]; [apply orb_true_iff in Em; destruct Em as [Em|Em]|];
        apply has_prefix_length in Em; exact Em. }
    unfold slice_from.
    replace (Nat.ltb (String.length (trim_space t)) 2) with false by (symmetry; apply Nat.ltb_ge; exact Hl).
    apply parse_stripped_no_panic.
Qed.

(* ------------------------------------------------------------------ the extension filter *)
Lemma length_drop : forall n s, String.length (drop n s) = String.length s - n.
Proof. induction n; destruct s; simpl; auto. Qed.

Lemma has_suffix_spec : forall e s, has_suffix e s = true <-> exists b, s = b +++ e.
Proof.
  intros e s. unfold has_suffix. split.
  - destruct (Nat.leb (String.length e) (String.length s)) eqn:El; [|discriminate].
    intros H. apply String.eqb_eq in H. exists (take (String.length s - String.length e) s).
    rewrite <- H at 2. symmetry. apply take_drop.
  - intros [b H]. subst s. rewrite length_app_s.
    replace (Nat.leb (String.length e) (String.length b + String.length e)) with true
      by (symmetry; apply Nat.leb_le; lia).
    replace (String.length b + String.length e - String.length e) with (String.length b) by lia.
    rewrite drop_app_length. apply String.eqb_refl.
Qed.

Lemma unchars_app : forall a b, unchars (a ++ b) = unchars a +++ unchars b.
Proof. induction a; simpl; intros; f_equal; auto. Qed.

Lemma rev_string_app : forall a b, rev_string (a +++ b) = rev_string b +++ rev_string a.
Proof. intros. unfold rev_string. now rewrite chars_app, rev_app_distr, unchars_app. Qed.

Lemma rev_string_involutive : forall s, rev_string (rev_string s) = s.
Proof. intros. unfold rev_string. now rewrite chars_unchars, rev_involutive, unchars_chars. Qed.

Lemma ends_with_spec : forall e s, ends_with e s = true <-> exists b, s = b +++ e.
Proof.
  intros e s. unfold ends_with. rewrite has_prefix_spec. split.
  - intros [r H]. exists (rev_string r).
    rewrite <- (rev_string_involutive s), H, rev_string_app, rev_string_involutive. reflexivity.
  - intros [b H]. exists (rev_string b). now rewrite H, rev_string_app.
Qed.

Lemma bool_eq_iff : forall a b : bool, (a = true <-> b = true) -> a = b.
Proof. intros [] [] [H1 H2]; auto; try (symmetry; auto); try (now apply H1); now apply H2. Qed.

Lemma ends_with_has_suffix : forall e s, ends_with e s = has_suffix e s.
Proof. intros. apply bool_eq_iff. now rewrite ends_with_spec, has_suffix_spec. Qed.

(* the file filter of the model is the specification's: a path is scanned iff it ends with one
   of the extensions *)
Theorem selected_exact : forall exts p,
  selected exts p = true <-> exists e, In e exts /\ exists b, p = b +++ e.
Proof.
  intros exts p. unfold selected. rewrite existsb_exists. split.
  - intros [e [Hi H]]. exists e. split; auto. now apply has_suffix_spec.
  - intros [e [Hi H]]. exists e. split; auto. now apply has_suffix_spec.
Qed.

Theorem file_selected_selected : forall exts p, file_selected exts p = selected exts p.
Proof.
  intros. unfold file_selected, selected. induction exts as [|e l IH]; simpl; auto.
  now rewrite ends_with_has_suffix, IH.
Qed.

(* ------------------------------------------------------------------ the lexer: every round consumes *)
Lemma scan_lit_mono : forall chr s q n, n <= consumed (scan_lit chr q s n).
Proof.
  induction s as [|c r IH]; intros q n; [simpl; lia|].
  assert (Hrec : forall q', n <= consumed (scan_lit chr q' r (S n))).
  { intros q'. specialize (IH q' (S n)). lia. }
  destruct q; cbn [scan_lit];
    repeat match goal with
           | |- context [if ?b then _ else _] => destruct b
           | |- context [match ?k with 0 => _ | S _ => _ end] => destruct k
           end; try apply Hrec; simpl; lia.
Qed.

Lemma scan_tpl_mono : forall n0 s n pb last,
  (forall m, last = Some m -> n0 <= m) -> n0 <= n -> n0 <= consumed (scan_tpl s n pb last).
Proof.
  induction s as [|c r IH]; intros n pb last Hl Hn; cbn [scan_tpl].
  - destruct last as [m|]; simpl; auto.
  - destruct (Ascii.eqb c c_btick).
    + destruct pb; [|simpl; lia]. apply IH; [|lia]. intros m H. inversion H. lia.
    + apply IH; auto.
Qed.

Lemma lex_step_pos : forall c r, 1 <= snd (lex_step (String c r)).
Proof.
  intros c r. unfold lex_step.
  destruct (Ascii.eqb c c_slash).
  { destruct r as [|d r2]; [simpl; lia|]. destruct (Ascii.eqb d c_star).
    - destruct (find_close r2); simpl; lia.
    - destruct (Ascii.eqb d c_slash); simpl; lia. }
  destruct (Ascii.eqb c c_hash); [simpl; lia|].
  destruct (Ascii.eqb c c_dquote); [cbn [snd]; apply scan_lit_mono|].
  destruct (Ascii.eqb c c_squote); [cbn [snd]; apply scan_lit_mono|].
  destruct (Ascii.eqb c c_btick); [cbn [snd]; apply scan_tpl_mono; [discriminate|lia]|].
  simpl; lia.
Qed.

Lemma lex_fuel : forall f1 f2 s line,
  String.length s <= f1 -> String.length s <= f2 -> lex f1 s line = lex f2 s line.
Proof.
  induction f1 as [|f1 IH]; intros f2 s line H1 H2.
  - destruct s; [|simpl in H1; lia]. destruct f2; reflexivity.
  - destruct f2 as [|f2]; [destruct s; [reflexivity|simpl in H2; lia]|].
    destruct s as [|c r]; [reflexivity|].
    cbn [lex]. pose proof (lex_step_pos c r) as Hp.
    destruct (lex_step (String c r)) as [k n]. cbn [snd] in Hp.
    rewrite (IH f2) by (rewrite length_drop; cbn [String.length] in *; lia). reflexivity.
Qed.

Lemma lex_unfold : forall f s line k n,
  s <> "" -> String.length s <= f -> lex_step s = (k, n) ->
  lex f s line =
  (match k with Some kd => [mkTok kd (take n s) line] | None => [] end) ++
  lex f (drop n s) (line + count_nl (take n s)).
Proof.
  intros f s line k n Hne Hf Hs. destruct s as [|c r]; [congruence|].
  destruct f as [|f]; [simpl in Hf; lia|].
  pose proof (lex_step_pos c r) as Hp. rewrite Hs in Hp. cbn [snd] in Hp.
  cbn [lex]. rewrite Hs.
  rewrite (lex_fuel f (S f)) by (rewrite length_drop; cbn [String.length] in *; lia).
  destruct k; reflexivity.
Qed.

(* a piece of text that one round of the lexer takes off entirely *)
Lemma lex_piece : forall s R f line k,
  s <> "" -> String.length (s +++ R) <= f -> lex_step (s +++ R) = (k, String.length s) ->
  lex f (s +++ R) line =
  (match k with Some kd => [mkTok kd s line] | None => [] end) ++ lex f R (line + count_nl s).
Proof.
  intros s R f line k Hne Hf Hs.
  rewrite (lex_unfold f (s +++ R) line k (String.length s)); auto.
  - now rewrite take_app_length, drop_app_length.
  - destruct s; [congruence|discriminate].
Qed.

(* ------------------------------------------------------------------ the lexer on each kind of item *)
Lemma is_line_end_spec : forall c, is_line_end c = is_cr_nl c.
Proof. intros c. all_chars c. Qed.
Lemma is_hash_end_spec : forall c, is_hash_end c = is_cr_nl_ff c.
Proof. intros c. all_chars c. Qed.
Lemma short_escape_model : forall d, short_escape d = true -> is_simple_esc d || is_oct d = true.
Proof. intros d. all_chars d. Qed.
Lemma short_escape_simple : forall d, short_escape d = true ->
  (Nat.leb 48 (nat_of_ascii d) && Nat.leb (nat_of_ascii d) 55) = false -> is_simple_esc d = true.
Proof. intros d. all_chars d. Qed.
Lemma squote_eqb : forall c, Ascii.eqb c c_squote = Nat.eqb (nat_of_ascii c) 39.
Proof. intros c. all_chars c. Qed.
Lemma btick_eqb : forall c, Ascii.eqb c c_btick = Nat.eqb (nat_of_ascii c) 96.
Proof. intros c. all_chars c. Qed.

Lemma code_step : forall c rest, is_quote_or_hash c = false ->
  (Ascii.eqb c c_slash = true ->
   exists d r, rest = String d r /\ Ascii.eqb d c_slash = false /\ Ascii.eqb d c_star = false) ->
  lex_step (String c rest) = (None, 1).
Proof.
  intros c rest Hq Hs. unfold lex_step.
  destruct (Ascii.eqb c c_slash) eqn:E.
  - destruct (Hs eq_refl) as [d [r [Hr [H1 H2]]]]. subst rest. now rewrite H2, H1.
  - rewrite (eqb_false_of is_quote_or_hash c_hash eq_refl c Hq).
    rewrite (eqb_false_of is_quote_or_hash c_dquote eq_refl c Hq).
    rewrite (eqb_false_of is_quote_or_hash c_squote eq_refl c Hq).
    rewrite (eqb_false_of is_quote_or_hash c_btick eq_refl c Hq). reflexivity.
Qed.

Lemma lex_code : forall b, code_ok b = true -> forall R f line,
  String.length (b +++ R) <= f -> lex f (b +++ R) line = lex f R (line + count_nl b).
Proof.
  induction b as [|c b IH]; intros Hok R f line Hf.
  - simpl. now rewrite Nat.add_0_r.
  - cbn [code_ok] in Hok. apply andb_true_iff in Hok. destruct Hok as [Hok Hb].
    apply andb_true_iff in Hok. destruct Hok as [Hq Hs]. apply negb_true_iff in Hq.
    assert (Hstep : lex_step (String c (b +++ R)) = (None, 1)).
    { apply code_step; auto. intros E. change c_slash with "/"%char in E. rewrite E in Hs.
      destruct b as [|d b']; [discriminate|]. apply andb_true_iff in Hs. destruct Hs as [H1 H2].
      apply negb_true_iff in H1. apply negb_true_iff in H2. exists d, (b' +++ R). auto. }
    cbn [append]. rewrite (lex_unfold f _ line None 1) by (auto; discriminate).
    cbn [take drop app]. rewrite IH by (auto; cbn [append String.length] in Hf; lia).
    f_equal. cbn [count_nl]. lia.
Qed.

Lemma hex_digit_model : forall c, hex_digit c = is_hexd c.
Proof. intros c. all_chars c. Qed.
Lemma oct_digit_model : forall c, oct_digit c = is_oct c.
Proof. intros c. all_chars c. Qed.
Lemma oct_digit03_model : forall c, oct_digit03 c = is_oct03 c.
Proof. intros c. all_chars c. Qed.
Lemma hexd_not_u : forall c, is_hexd c = true -> Ascii.eqb c "u"%char = false.
Proof. intros c. all_chars c. Qed.
Lemma oct_not_simple : forall c, is_oct c = true -> is_simple_esc c = false.
Proof. intros c. all_chars c. Qed.
Lemma oct_not_squote : forall c, is_oct c = true -> Ascii.eqb c c_squote = false.
Proof. intros c. all_chars c. Qed.
Lemma oct03_oct : forall c, is_oct03 c = true -> is_oct c = true.
Proof. intros c. all_chars c. Qed.

(* the four hex digits of a unicode escape, then the state that follows the escape *)
Lemma scan_lit_u4 : forall chr h1 h2 h3 h4 rest n,
  is_hexd h1 = true -> is_hexd h2 = true -> is_hexd h3 = true -> is_hexd h4 = true ->
  scan_lit chr QU (String h1 (String h2 (String h3 (String h4 rest)))) n =
  scan_lit chr (if chr then QClose else QNorm) rest (S (S (S (S n)))).
Proof.
  intros chr h1 h2 h3 h4 rest n H1 H2 H3 H4. cbn [scan_lit].
  now rewrite (hexd_not_u h1 H1), H1, H2, H3, H4.
Qed.

Lemma scan_str_bslash : forall rest n,
  scan_lit false QNorm (String c_bslash rest) n = scan_lit false QEsc rest (S n).
Proof. reflexivity. Qed.

Lemma scan_esc_u : forall chr rest n, scan_lit chr QEsc (String "u" rest) n = scan_lit chr QU rest (S n).
Proof. reflexivity. Qed.

Lemma scan_str_ok : forall R m b n, String.length b <= m -> str_body_ok b = true ->
  scan_lit false QNorm (b +++ dquote +++ R) n = Accept (n + String.length b + 1).
Proof.
  induction m as [|m IH]; intros b n Hm Hok.
  - destruct b; [|simpl in Hm; lia]. cbn [append scan_lit]. unfold dquote. cbn [append scan_lit].
    change (Ascii.eqb (ascii_of_nat 34) c_dquote) with true. cbv iota. f_equal. simpl. lia.
  - destruct b as [|c b].
    + cbn [append scan_lit]. unfold dquote. cbn [append scan_lit].
      change (Ascii.eqb (ascii_of_nat 34) c_dquote) with true. cbv iota. f_equal. simpl. lia.
    + cbn [str_body_ok] in Hok. destruct (Ascii.eqb c c_bslash) eqn:Eb.
      * destruct b as [|d r2]; [discriminate|].
        apply Ascii.eqb_eq in Eb. subst c.
        destruct (Ascii.eqb d "u"%char) eqn:Eu.
        -- destruct r2 as [|h1 [|h2 [|h3 [|h4 r3]]]]; try discriminate.
           repeat (apply andb_true_iff in Hok; destruct Hok as [Hok ?]).
           rewrite hex_digit_model in *. apply Ascii.eqb_eq in Eu. subst d.
           cbn [append]. rewrite scan_str_bslash, scan_esc_u, scan_lit_u4 by assumption.
           rewrite IH by (auto; cbn [String.length] in Hm; lia). f_equal. cbn [String.length]. lia.
        -- apply andb_true_iff in Hok. destruct Hok as [Hd Hr]. cbn [append scan_lit].
           change (Ascii.eqb c_bslash c_dquote) with false. change (Ascii.eqb c_bslash c_bslash) with true. cbv iota.
           apply short_escape_model in Hd.
           assert (Hgo : scan_lit false QNorm (r2 +++ dquote +++ R) (S (S n)) = Accept (S (S n) + String.length r2 + 1))
             by (apply IH; auto; cbn [String.length] in Hm; lia).
           destruct (is_simple_esc d); [|simpl in Hd; rewrite Hd]; rewrite Hgo; f_equal; cbn [String.length]; lia.
      * apply andb_true_iff in Hok. destruct Hok as [Hok Hr]. apply andb_true_iff in Hok. destruct Hok as [Hq Hn].
        apply negb_true_iff in Hq. apply negb_true_iff in Hn. cbn [append scan_lit].
        rewrite Hq, Eb, is_line_end_spec, Hn.
        rewrite IH by (auto; cbn [String.length] in Hm; lia). f_equal. cbn [String.length]. lia.
Qed.

Lemma scan_close : forall R n, scan_lit true QClose (a_squote +++ R) n = Accept (S n).
Proof. reflexivity. Qed.

Lemma scan_esc_start : forall rest, scan_lit true QFirst (String c_bslash rest) 1 = scan_lit true QEsc rest 2.
Proof. reflexivity. Qed.

Lemma scan_chr_ok : forall R b, chr_body_ok b = true ->
  scan_lit true QFirst (b +++ a_squote +++ R) 1 = Accept (String.length b + 2).
Proof.
  intros R b Hok. unfold chr_body_ok in Hok.
  destruct b as [|c [|d [|e [|f [|g [|h [|i b]]]]]]]; try discriminate.
  - (* one plain character *)
    apply andb_true_iff in Hok. destruct Hok as [Hok Hn]. apply andb_true_iff in Hok. destruct Hok as [Hq Hb].
    apply negb_true_iff in Hq. apply negb_true_iff in Hb. apply negb_true_iff in Hn.
    cbn [append scan_lit]. rewrite squote_eqb, Hq, is_line_end_spec, Hn, Hb. cbn [orb]. now rewrite scan_close.
  - (* backslash + one character *)
    apply andb_true_iff in Hok. destruct Hok as [Hb Hd]. apply Ascii.eqb_eq in Hb. subst c.
    cbn [append]. rewrite scan_esc_start. cbn [scan_lit].
    pose proof (short_escape_model d Hd) as Hm.
    destruct (is_simple_esc d); [now rewrite scan_close|].
    simpl in Hm. rewrite Hm. unfold a_squote. cbn [append scan_lit].
    change (Ascii.eqb (ascii_of_nat 39) c_squote) with true. reflexivity.
  - (* two octal digits *)
    apply andb_true_iff in Hok. destruct Hok as [Hok He]. apply andb_true_iff in Hok. destruct Hok as [Hb Hd].
    apply Ascii.eqb_eq in Hb. subst c. rewrite oct_digit_model in *.
    cbn [append]. rewrite scan_esc_start. cbn [scan_lit].
    rewrite (oct_not_simple d Hd), Hd, (oct_not_squote e He), He.
    destruct (is_oct03 d); unfold a_squote; cbn [append scan_lit];
      change (Ascii.eqb (ascii_of_nat 39) c_squote) with true; reflexivity.
  - (* three octal digits *)
    apply andb_true_iff in Hok. destruct Hok as [Hok Hf]. apply andb_true_iff in Hok. destruct Hok as [Hok He].
    apply andb_true_iff in Hok. destruct Hok as [Hb Hd].
    apply Ascii.eqb_eq in Hb. subst c. rewrite oct_digit_model, oct_digit03_model in *.
    cbn [append]. rewrite scan_esc_start. cbn [scan_lit].
    rewrite (oct_not_simple d (oct03_oct d Hd)), (oct03_oct d Hd), Hd, (oct_not_squote e He), He, (oct_not_squote f Hf), Hf.
    unfold a_squote; cbn [append scan_lit]. change (Ascii.eqb (ascii_of_nat 39) c_squote) with true. reflexivity.
  - (* u + four hex digits *)
    repeat (apply andb_true_iff in Hok; destruct Hok as [Hok ?]).
    apply Ascii.eqb_eq in Hok. subst c. rewrite hex_digit_model in *.
    match goal with H : Ascii.eqb d "u"%char = true |- _ => apply Ascii.eqb_eq in H; subst d end.
    cbn [append]. rewrite scan_esc_start, scan_esc_u, scan_lit_u4 by assumption. now rewrite scan_close.
Qed.

Definition ends_bs (pb : bool) (b : string) : bool :=
  match b with EmptyString => pb | _ => last_is (Ascii.eqb c_bslash) b end.

Lemma scan_tpl_ok : forall R b n pb last,
  has_char (fun c => Nat.eqb (nat_of_ascii c) 96) b = false -> ends_bs pb b = false ->
  scan_tpl (b +++ a_btick +++ R) n pb last = Accept (n + String.length b + 1).
Proof.
  induction b as [|c b IH]; intros n pb last Hn He.
  - simpl in He. subst pb. unfold a_btick. cbn [append scan_tpl].
    change (Ascii.eqb (ascii_of_nat 96) c_btick) with true. cbv iota. f_equal. simpl. lia.
  - unfold has_char in Hn. change (chars (String c b)) with (c :: chars b) in Hn. cbn [existsb] in Hn.
    apply orb_false_iff in Hn. destruct Hn as [Hc Hn].
    cbn [append scan_tpl]. rewrite btick_eqb, Hc.
    rewrite IH; [f_equal; cbn [String.length]; lia | exact Hn | ].
    destruct b as [|d b']; [|exact He]. simpl in He. simpl. now rewrite Ascii.eqb_sym.
Qed.

Lemma span_len_app : forall p b R,
  forallb (fun c => negb (p c)) (chars b) = true ->
  (R = "" \/ exists c r, R = String c r /\ p c = true) ->
  span_len p (b +++ R) = String.length b.
Proof.
  induction b as [|c b IH]; intros R Hb HR.
  - destruct HR as [HR|[c [r [HR Hc]]]]; subst; simpl; auto. now rewrite Hc.
  - rewrite forallb_chars_cons in Hb. apply andb_true_iff in Hb. destruct Hb as [Hc Hb].
    apply negb_true_iff in Hc. cbn [append span_len String.length]. rewrite Hc. f_equal. auto.
Qed.

Lemma find_close_cons2 : forall a d r,
  find_close (String a (String d r)) =
  if Ascii.eqb a c_star && Ascii.eqb d c_slash then Some 0
  else match find_close (String d r) with Some i => Some (S i) | None => None end.
Proof. reflexivity. Qed.

Lemma find_close_ok : forall R b, has_star_slash b = false ->
  find_close (b +++ "*/" +++ R) = Some (String.length b).
Proof.
  induction b as [|a b IH]; intros H.
  - reflexivity.
  - destruct b as [|d b'].
    + change (String a "" +++ "*/" +++ R) with (String a (String "*" (String "/" R))).
      rewrite find_close_cons2. change (Ascii.eqb "*" c_slash) with false. rewrite andb_false_r.
      reflexivity.
    + cbn [has_star_slash] in H. apply orb_false_iff in H. destruct H as [H1 H2].
      change ((String a (String d b')) +++ "*/" +++ R) with (String a (String d (b' +++ "*/" +++ R))).
      rewrite find_close_cons2. change c_star with "*"%char. change c_slash with "/"%char. rewrite H1.
      change (String d (b' +++ "*/" +++ R)) with ((String d b') +++ "*/" +++ R).
      rewrite IH by exact H2. reflexivity.
Qed.

(* ------------------------------------------------------------------ the lexer on a whole file *)
Lemma lex_step_dquote : forall rest, lex_step (dquote +++ rest) = (None, consumed (scan_lit false QNorm rest 1)).
Proof. reflexivity. Qed.
Lemma lex_step_squote : forall rest, lex_step (a_squote +++ rest) = (None, consumed (scan_lit true QFirst rest 1)).
Proof. reflexivity. Qed.
Lemma lex_step_btick : forall rest, lex_step (a_btick +++ rest) = (None, consumed (scan_tpl rest 1 false None)).
Proof. reflexivity. Qed.
Lemma lex_step_line : forall rest, lex_step ("//" +++ rest) = (Some CLine, 2 + span_len is_line_end rest).
Proof. reflexivity. Qed.
Lemma lex_step_hash : forall rest, lex_step ("#" +++ rest) = (Some CHash, 1 + span_len is_hash_end rest).
Proof. reflexivity. Qed.
Lemma lex_step_block : forall rest, lex_step ("/*" +++ rest) =
  match find_close rest with Some i => (Some CBlock, i + 4) | None => (None, 1) end.
Proof. reflexivity. Qed.

(* the comment tokens an item sequence must produce: every line / block / hash comment item, with
   its full text and the line on which it starts; nothing for code and literals *)
Fixpoint tokens_of (items : list item) (line : nat) : list ctoken :=
  match items with
  | [] => []
  | it :: r =>
    let rest := tokens_of r (line + count_nl (render_item it)) in
    match it_kind it with
    | ILine => mkTok CLine (render_item it) line :: rest
    | IBlock => mkTok CBlock (render_item it) line :: rest
    | IHash => mkTok CHash (render_item it) line :: rest
    | _ => rest
    end
  end.

Lemma starts_with_eol_spec : forall r, starts_with_eol r = true ->
  render_items r = "" \/ exists c s, render_items r = String c s /\ is_cr_nl c = true.
Proof.
  intros [|it r] H; [now left|]. right. cbn [starts_with_eol] in H. cbn [render_items].
  destruct (render_item it) as [|c x]; [discriminate|]. exists c, (x +++ render_items r). auto.
Qed.

Lemma negb_has_char : forall p s, has_char p s = false -> forallb (fun c => negb (p c)) (chars s) = true.
Proof.
  unfold has_char. intros p s. induction (chars s) as [|c l IH]; simpl; auto.
  intros H. apply orb_false_iff in H. destruct H as [H1 H2]. rewrite H1. simpl. auto.
Qed.

Lemma forallb_ext_in : forall (p q : ascii -> bool) l, (forall c, p c = q c) -> forallb p l = forallb q l.
Proof. induction l as [|c l IH]; intros H; simpl; auto. now rewrite H, IH. Qed.

Lemma lex_nil : forall f line, lex f "" line = [].
Proof. destruct f; reflexivity. Qed.

Lemma lex_items : forall items line f,
  items_ok items = true -> String.length (render_items items) <= f ->
  lex f (render_items items) line = tokens_of items line.
Proof.
  induction items as [|[k b] r IH]; intros line f Hok Hf.
  - apply lex_nil.
  - cbn [items_ok it_kind] in Hok. apply andb_true_iff in Hok. destruct Hok as [Hok Hr].
    apply andb_true_iff in Hok. destruct Hok as [Hi Hb].
    unfold item_ok in Hi. cbn [it_kind it_body] in Hi.
    cbn [render_items tokens_of it_kind]. unfold render_item. cbn [it_kind it_body].
    cbn [render_items] in Hf. unfold render_item in Hf. cbn [it_kind it_body] in Hf.
    set (R := render_items r) in *.
    assert (HfR : String.length R <= f) by (rewrite length_app_s in Hf; lia).
    destruct k; try discriminate; cbn [render].
    + (* code *) rewrite lex_code by auto. now apply IH.
    + (* string *)
      rewrite (lex_piece (dquote +++ b +++ dquote) R f line None); auto.
      * cbn [app]. now apply IH.
      * discriminate.
      * rewrite !app_assoc_s. rewrite lex_step_dquote, (scan_str_ok R (String.length b)) by auto.
        cbn [consumed]. f_equal. change (dquote +++ b +++ dquote) with (String (ascii_of_nat 34) (b +++ dquote)).
        cbn [String.length]. rewrite length_app_s. simpl. lia.
    + (* template *)
      apply andb_true_iff in Hi. destruct Hi as [H1 H2]. apply negb_true_iff in H1. apply negb_true_iff in H2.
      rewrite (lex_piece (a_btick +++ b +++ a_btick) R f line None); auto.
      * cbn [app]. now apply IH.
      * discriminate.
      * rewrite !app_assoc_s. rewrite lex_step_btick, scan_tpl_ok; auto.
        -- cbn [consumed]. f_equal. change (a_btick +++ b +++ a_btick) with (String (ascii_of_nat 96) (b +++ a_btick)).
           cbn [String.length]. rewrite length_app_s. simpl. lia.
        -- unfold ends_bs. destruct b; auto.
    + (* character *)
      rewrite (lex_piece (a_squote +++ b +++ a_squote) R f line None); auto.
      * cbn [app]. now apply IH.
      * discriminate.
      * rewrite !app_assoc_s. rewrite lex_step_squote, scan_chr_ok by auto.
        cbn [consumed]. f_equal. change (a_squote +++ b +++ a_squote) with (String (ascii_of_nat 39) (b +++ a_squote)).
        cbn [String.length]. rewrite length_app_s. simpl. lia.
    + (* line comment *)
      apply negb_true_iff in Hi.
      rewrite (lex_piece ("//" +++ b) R f line (Some CLine)); auto.
      * cbn [app]. f_equal. now apply IH.
      * discriminate.
      * rewrite !app_assoc_s. rewrite lex_step_line. f_equal.
        rewrite span_len_app.
        -- reflexivity.
        -- rewrite (forallb_ext_in _ (fun c => negb (is_cr_nl c))) by (intros; now rewrite is_line_end_spec).
           now apply negb_has_char.
        -- destruct (starts_with_eol_spec r Hb) as [E|[c [s [E Hc]]]]; [now left|right].
           exists c, s. split; auto. now rewrite is_line_end_spec.
    + (* block comment *)
      apply negb_true_iff in Hi.
      rewrite (lex_piece ("/*" +++ b +++ "*/") R f line (Some CBlock)); auto.
      * cbn [app]. f_equal. now apply IH.
      * discriminate.
      * rewrite !app_assoc_s. rewrite lex_step_block, find_close_ok by auto.
        f_equal. cbn [append String.length]. rewrite length_app_s. simpl. lia.
    + (* hash comment *)
      apply negb_true_iff in Hi.
      rewrite (lex_piece ("#" +++ b) R f line (Some CHash)); auto.
      * cbn [app]. f_equal. now apply IH.
      * discriminate.
      * rewrite !app_assoc_s. rewrite lex_step_hash. f_equal.
        rewrite span_len_app.
        -- reflexivity.
        -- rewrite (forallb_ext_in _ (fun c => negb (is_cr_nl_ff c))) by (intros; now rewrite is_hash_end_spec).
           now apply negb_has_char.
        -- destruct (starts_with_eol_spec r Hb) as [E|[c [s [E Hc]]]]; [now left|right].
           exists c, s. split; auto. rewrite is_hash_end_spec. unfold is_cr_nl_ff. unfold is_cr_nl in Hc.
           apply orb_true_iff in Hc. destruct Hc as [Hc|Hc]; rewrite Hc; auto. now rewrite orb_true_r.
Qed.

(* The lexer theorem: on the text of a well-formed item sequence the lexer yields exactly the
   comment items -- full text, start line -- in order; code, string, template and character
   literals (whatever comment markers they contain) yield nothing. *)
Theorem comment_tokens_items : forall items,
  items_ok items = true -> comment_tokens (render_items items) = tokens_of items 1.
Proof. intros items H. unfold comment_tokens. apply lex_items; auto. Qed.

(* ------------------------------------------------------------------ the report of one file *)
Lemma count_newlines_nl : forall s, count_newlines s = count_nl s.
Proof. induction s as [|c s IH]; simpl; auto. Qed.

(* a reported row agrees with an expected row: file, line, assignee, and the words of the message *)
Definition row_matches (name : string) (t : todo) (e : nat * string * string) : Prop :=
  td_file t = name /\ td_line t = fst (fst e) /\ td_assignee t = snd (fst e) /\
  message_words (td_message t) = message_words (snd e).

Lemma todos_of_tokens_items : forall name items line,
  items_ok items = true ->
  exists l, todos_of_tokens name (tokens_of items line) = Some l /\
            Forall2 (row_matches name) l (expected_rows items line).
Proof.
  induction items as [|[k b] r IH]; intros line Hok.
  - exists []. split; [reflexivity|constructor].
  - cbn [items_ok it_kind] in Hok. apply andb_true_iff in Hok. destruct Hok as [Hok Hr].
    apply andb_true_iff in Hok. destruct Hok as [Hi _].
    cbn [tokens_of expected_rows it_kind it_body].
    change (count_newlines (render_item (mkItem k b))) with (count_nl (render_item (mkItem k b))).
    destruct (IH (line + count_nl (render_item (mkItem k b))) Hr) as [l [Hl Hf]].
    assert (Hcomment : k = ILine \/ k = IBlock \/ k = IHash ->
              exists l', todos_of_tokens name
                           (mkTok (match k with ILine => CLine | IBlock => CBlock | _ => CHash end)
                                  (render_item (mkItem k b)) line ::
                            tokens_of r (line + count_nl (render_item (mkItem k b)))) = Some l' /\
                         Forall2 (row_matches name) l'
                           (match read_comment k b with
                            | Some (a, m) => (line, a, m) :: expected_rows r (line + count_nl (render_item (mkItem k b)))
                            | None => expected_rows r (line + count_nl (render_item (mkItem k b)))
                            end)).
    { intros Hk. pose proof (parse_comment_meets_spec k b Hk) as Hp.
      cbn [todos_of_tokens tk_text tk_line]. unfold render_item. cbn [it_kind it_body].
      destruct (read_comment k b) as [[a m]|].
      - destruct Hp as [m' [Hp Hw]]. rewrite Hp. unfold render_item in Hl. cbn [it_kind it_body] in Hl.
        rewrite Hl. eexists. split; [reflexivity|]. constructor; auto.
        unfold row_matches. cbn. auto.
      - rewrite Hp. unfold render_item in Hl. cbn [it_kind it_body] in Hl. rewrite Hl.
        eexists. split; [reflexivity|]. exact Hf. }
    unfold item_ok in Hi. cbn [it_kind it_body] in Hi.
    destruct k; cbn [is_comment]; try (exists l; split; assumption); try discriminate.
    + apply Hcomment. auto.
    + apply Hcomment. auto.
    + apply Hcomment. auto.
Qed.

(* The property for one file: for every well-formed item sequence the scan reports, in order,
   exactly the expected rows (and does not panic). *)
Theorem file_report_meets_spec : forall name items,
  items_ok items = true ->
  exists l, todos_of_tokens name (comment_tokens (render_items items)) = Some l /\
            Forall2 (row_matches name) l (expected_rows items 1).
Proof.
  intros name items Hok. rewrite comment_tokens_items by auto. now apply todos_of_tokens_items.
Qed.

(* ------------------------------------------------------------------ the verdict on the model's report *)
Definition orow_of_todo (t : todo) : orow := mkRow (td_file t) (td_line t) (td_assignee t) (td_message t).

Lemma words_eqb_refl : forall l, words_eqb l l = true.
Proof.
  intros l. unfold words_eqb. rewrite Nat.eqb_refl. simpl.
  induction l as [|x l IH]; simpl; auto. now rewrite String.eqb_refl.
Qed.

Lemma count_line_match : forall name l es, Forall2 (row_matches name) l es ->
  forall n, count_line o_line n (map orow_of_todo l) = count_line exp_line n es.
Proof.
  intros name l es H n. unfold count_line, exp_line. induction H as [|t e l es Hm _ IH]; auto.
  destruct Hm as [_ [Hl _]]. cbn [map filter]. unfold orow_of_todo at 1. cbn [o_line].
  rewrite Hl. destruct (Nat.eqb (fst (fst e)) n); cbn [List.length]; now rewrite IH.
Qed.

Lemma existsb_all_false : forall (A : Type) (f : A -> bool) l, (forall x, f x = false) -> existsb f l = false.
Proof. induction l as [|x l IH]; intros H; simpl; auto. now rewrite H, IH. Qed.

Lemma file_verdict_ok : forall name l es, Forall2 (row_matches name) l es ->
  file_verdict name es (map orow_of_todo l) = [].
Proof.
  intros name l es H. unfold file_verdict.
  rewrite !existsb_all_false.
  - cbn [orb]. induction H as [|t e l es Hm _ IH]; auto.
    destruct Hm as [_ [Hl [Ha Hw]]]. cbn [map zip_rows]. unfold orow_of_todo at 1 2 3. cbn [o_line o_assignee o_message].
    unfold exp_line. rewrite Hl, Nat.eqb_refl, Ha, String.eqb_refl, Hw, words_eqb_refl. exact IH.
  - intros o. rewrite (count_line_match name l es H). apply Nat.ltb_irrefl.
  - intros e. rewrite (count_line_match name l es H). apply Nat.ltb_irrefl.
Qed.

Definition fentry_of (f : afile) : fentry := mkEntry (af_name f) (af_dir f) (af_text f).

(* the report of a tree, file by file *)
Inductive reports (exts : list string) : list afile -> list todo -> Prop :=
| R_nil : reports exts [] []
| R_skip : forall f r l, scanned exts f = false -> reports exts r l -> reports exts (f :: r) l
| R_scan : forall f r lf l, scanned exts f = true -> items_ok (af_items f) = true ->
    Forall2 (row_matches (af_name f)) lf (expected_rows (af_items f) 1) ->
    reports exts r l -> reports exts (f :: r) (lf ++ l).

(* a well-formed item sequence has no block comment left open: the whole file is judged *)
Lemma open_tail_line_none : forall items line, items_ok items = true -> open_tail_line items line = None.
Proof.
  induction items as [|[k b] r IH]; intros line H; auto.
  cbn [items_ok it_kind] in H. apply andb_true_iff in H. destruct H as [H Hr].
  apply andb_true_iff in H. destruct H as [Hi _].
  cbn [open_tail_line it_kind]. destruct k; try (now apply IH). discriminate.
Qed.

Lemma items_verdict_ok : forall name items os, items_ok items = true ->
  items_verdict name items os = file_verdict name (expected_rows items 1) os.
Proof. intros. unfold items_verdict. now rewrite open_tail_line_none. Qed.

Lemma build_comments_cons : forall exts f r,
  build_comments exts (fentry_of f :: r) =
  if selected exts (af_name f) then
    if af_dir f then build_comments exts r
    else match todos_of_tokens (af_name f) (comment_tokens (af_text f)) with
         | None => Crash "slice bounds out of range"
         | Some l => match build_comments exts r with
                     | Report l' => Report (l ++ l')
                     | Crash w => Crash w
                     end
         end
  else build_comments exts r.
Proof. reflexivity. Qed.

Lemma build_comments_reports : forall exts files, case_ok exts files = true ->
  exists l, build_comments exts (map fentry_of files) = Report l /\ reports exts files l.
Proof.
  induction files as [|f r IH]; intros Hok.
  - exists []. split; [reflexivity|constructor].
  - cbn [case_ok forallb] in Hok. apply andb_true_iff in Hok. destruct Hok as [Hf Hr].
    destruct (IH Hr) as [l [Hl Hrep]]. apply andb_true_iff in Hf. destruct Hf as [Hfo Hsel].
    cbn [map]. rewrite build_comments_cons.
    rewrite <- file_selected_selected.
    destruct (file_selected exts (af_name f)) eqn:Es.
    + destruct (af_dir f) eqn:Ed.
      * exists l. split; [exact Hl|]. apply R_skip; auto. unfold scanned. now rewrite Ed.
      * cbn [orb] in Hsel. apply String.eqb_eq in Hsel. unfold file_ok in Hfo. rewrite Ed in Hfo. cbn [orb] in Hfo.
        destruct (file_report_meets_spec (af_name f) (af_items f) Hfo) as [lf [Hlf Hm]].
        rewrite <- Hsel, Hlf, Hl. exists (lf ++ l). split; [reflexivity|].
        apply R_scan; auto. unfold scanned. now rewrite Ed, Es.
    + exists l. split; [exact Hl|]. apply R_skip; auto. unfold scanned. rewrite Es. apply andb_false_r.
Qed.

Lemma reports_files : forall exts files l, reports exts files l ->
  forall t, In t l -> exists f, In f files /\ scanned exts f = true /\ td_file t = af_name f.
Proof.
  induction 1 as [|f r l Hs _ IH|f r lf l Hs Hio Hm _ IH]; intros t Ht.
  - destruct Ht.
  - destruct (IH t Ht) as [g [Hg H]]. exists g. split; [now right|exact H].
  - apply in_app_or in Ht. destruct Ht as [Ht|Ht].
    + exists f. split; [now left|]. split; auto.
      clear - Hm Ht. induction Hm as [|x e lf es Hx _ IHm]; [destruct Ht|].
      destruct Ht as [Ht|Ht]; [subst; apply Hx|auto].
    + destruct (IH t Ht) as [g [Hg H]]. exists g. split; [now right|exact H].
Qed.

Lemma rows_of_app : forall n a b, rows_of n (a ++ b) = rows_of n a ++ rows_of n b.
Proof. intros. unfold rows_of. apply filter_app. Qed.

Lemma rows_of_all : forall n l, (forall t, In t l -> td_file t = n) ->
  rows_of n (map orow_of_todo l) = map orow_of_todo l.
Proof.
  induction l as [|t l IH]; intros H; auto. cbn [map rows_of filter]. unfold rows_of in IH.
  unfold orow_of_todo at 1. cbn [o_file]. rewrite (H t (or_introl eq_refl)), String.eqb_refl.
  f_equal. apply IH. intros x Hx. apply H. now right.
Qed.

Lemma rows_of_none : forall n l, (forall t, In t l -> td_file t <> n) -> rows_of n (map orow_of_todo l) = [].
Proof.
  induction l as [|t l IH]; intros H; auto. cbn [map rows_of filter]. unfold rows_of in IH.
  unfold orow_of_todo at 1. cbn [o_file].
  destruct (String.eqb (td_file t) n) eqn:E.
  - apply String.eqb_eq in E. exfalso. now apply (H t (or_introl eq_refl)).
  - apply IH. intros x Hx. apply H. now right.
Qed.

Lemma reports_verdict : forall exts files l, reports exts files l -> NoDup (map af_name files) ->
  forall pre, (forall t, In t pre -> ~ In (td_file t) (map af_name files)) ->
  flat_map (fun f => if scanned exts f
                     then items_verdict (af_name f) (af_items f)
                                        (rows_of (af_name f) (map orow_of_todo (pre ++ l)))
                     else []) files = [].
Proof.
  induction 1 as [|f r l Hs Hrep IH|f r lf l Hs Hio Hm Hrep IH]; intros Hnd pre Hpre.
  - reflexivity.
  - cbn [flat_map]. rewrite Hs. cbn [app]. inversion Hnd; subst. apply IH; auto.
    intros t Ht Hin. apply (Hpre t Ht). now right.
  - cbn [flat_map]. rewrite Hs. inversion Hnd as [|x xs Hnotin Hnd']; subst.
    assert (Hrows : rows_of (af_name f) (map orow_of_todo (pre ++ lf ++ l)) = map orow_of_todo lf).
    { rewrite !map_app, !rows_of_app.
      rewrite rows_of_none by (intros t Ht E; apply (Hpre t Ht); left; now rewrite E).
      rewrite rows_of_all.
      - rewrite rows_of_none; [now rewrite app_nil_r|].
        intros t Ht E. destruct (reports_files _ _ _ Hrep t Ht) as [g [Hg [_ Hn]]].
        apply Hnotin. rewrite <- E, Hn. now apply in_map.
      - clear - Hm. intros t Ht. induction Hm as [|x e lf es Hx _ IHm]; [destruct Ht|].
        destruct Ht as [Ht|Ht]; [subst; apply Hx|auto]. }
    rewrite Hrows, (items_verdict_ok _ _ _ Hio), (file_verdict_ok _ _ _ Hm). cbn [app].
    rewrite app_assoc. apply IH; auto.
    intros t Ht Hin. apply in_app_or in Ht. destruct Ht as [Ht|Ht].
    + apply (Hpre t Ht). now right.
    + apply Hnotin. replace (af_name f) with (td_file t); auto.
      clear - Hm Ht. induction Hm as [|x e lf es Hx _ IHm]; [destruct Ht|].
      destruct Ht as [Ht|Ht]; [subst; apply Hx|auto].
Qed.

Lemma assign_regexp_is_known : assign_regexp_known = true.
Proof. reflexivity. Qed.

(* The property for a whole case, as the decider the check applies to the implementation's output:
   for every well-formed case (case_ok) with distinct paths the model does not crash and every
   clause of the verdict holds on its report. *)
Theorem model_meets_spec : forall exts files,
  case_ok exts files = true -> NoDup (map af_name files) ->
  exists l, analysis_path exts (map fentry_of files) = Report l /\
            c17_verdict exts files false (map orow_of_todo l) = [].
Proof.
  intros exts files Hok Hnd. unfold analysis_path. rewrite assign_regexp_is_known.
  destruct (build_comments_reports exts files Hok) as [l [Hl Hrep]]. exists l. split; [exact Hl|].
  unfold c17_verdict.
  assert (H1 : forallb (fun f => af_dir f || String.eqb (render_items (af_items f)) (af_text f)) files = true).
  { apply forallb_forall. intros f Hf. unfold case_ok in Hok. rewrite forallb_forall in Hok.
    specialize (Hok f Hf). apply andb_true_iff in Hok. destruct Hok as [_ H]. exact H. }
  rewrite H1.
  assert (H2 : forallb (fun o => existsb (fun f => scanned exts f && String.eqb (af_name f) (o_file o)) files)
                       (map orow_of_todo l) = true).
  { apply forallb_forall. intros o Ho. apply in_map_iff in Ho. destruct Ho as [t [Ho Ht]]. subst o.
    destruct (reports_files _ _ _ Hrep t Ht) as [f [Hf [Hs Hn]]].
    apply existsb_exists. exists f. split; auto. rewrite Hs. unfold orow_of_todo. cbn [o_file].
    rewrite Hn. apply String.eqb_refl. }
  rewrite H2. cbn [app].
  apply (reports_verdict exts files l Hrep Hnd []). intros t [].
Qed.

(* ------------------------------------------------------------------ corollaries *)
(* a comment that merely mentions TODO / FIXME later in its text is not reported *)
Theorem mention_later_not_reported : forall k body,
  k = ILine \/ k = IBlock \/ k = IHash ->
  after_keyword (strip body) = None -> parse_comment (render k body) = PNone.
Proof.
  intros k body Hk Hn. pose proof (parse_comment_meets_spec k body Hk) as H.
  unfold read_comment in H. now rewrite Hn in H.
Qed.

(* code, string, template and character literals never yield a comment token, whatever comment
   markers and keywords they contain *)
Theorem literals_yield_nothing : forall items,
  items_ok items = true -> forallb (fun it => negb (is_comment (it_kind it))) items = true ->
  comment_tokens (render_items items) = [].
Proof.
  intros items Hok Hn. rewrite comment_tokens_items by auto. generalize 1.
  induction items as [|[k b] r IH]; intros line; auto.
  cbn [forallb it_kind] in Hn. apply andb_true_iff in Hn. destruct Hn as [Hk Hr].
  cbn [items_ok] in Hok. apply andb_true_iff in Hok. destruct Hok as [_ Hor].
  cbn [tokens_of it_kind]. destruct k; try discriminate; now apply IH.
Qed.

(* no sequence of comment tokens makes the scan of a file panic *)
Theorem scan_total : forall file toks, todos_of_tokens file toks <> None.
Proof.
  induction toks as [|t r IH]; [discriminate|].
  cbn [todos_of_tokens].
  destruct (parse_comment (tk_text t)) eqn:E.
  - now apply parse_comment_total in E.
  - exact IH.
  - destruct (todos_of_tokens file r); [discriminate|]. now exfalso.
Qed.

(* no tree whatsoever -- any file contents, directories named like source files, any extension
   list -- makes the scan crash *)
Theorem analysis_path_total : forall exts files, exists l, analysis_path exts files = Report l.
Proof.
  intros exts files. unfold analysis_path. rewrite assign_regexp_is_known.
  induction files as [|f r [l IH]]; [exists []; reflexivity|].
  cbn [build_comments]. destruct (selected exts (fe_name f)); [|exists l; exact IH].
  destruct (fe_dir f); [exists l; exact IH|].
  destruct (todos_of_tokens (fe_name f) (comment_tokens (fe_text f))) as [lf|] eqn:E.
  - rewrite IH. eexists; reflexivity.
  - now apply scan_total in E.
Qed.

(* ------------------------------------------------------------------ concrete shapes, on the model *)
Definition file_of (name : string) (items : list item) : afile := mkAFile name false items (render_items items).

(* the verdict of the specification on the model's own output *)
Definition model_verdict (exts : list string) (files : list afile) : list string :=
  match analysis_path exts (map fentry_of files) with
  | Report l => c17_verdict exts files false (map orow_of_todo l)
  | Crash _ => c17_verdict exts files true []
  end.

(* the shapes repaired by c90c20d (the hash marker is one byte) and 4b63f71 (entries that cannot
   be opened are skipped) *)
Example hash_alone_ok :
  parse_comment "#" = PNone /\ parse_comment "#  " = PNone /\
  model_verdict [".py"] [file_of "a.py" [mkItem ICode ("x = 1" +++ nl); mkItem IHash ""]] = [].
Proof. repeat split; vm_compute; reflexivity. Qed.

Example hash_glued_reported :
  parse_comment "#TODO x" = PTodo "" "x" /\ parse_comment "#todo(al): y" = PTodo "al" "y" /\
  model_verdict [".py"] [file_of "a.py" [mkItem IHash "TODO x"]] = [].
Proof. repeat split; vm_compute; reflexivity. Qed.

Example hash_not_eaten :
  parse_comment "#!TODO x" = PNone /\ parse_comment "##FIXME y" = PNone /\
  model_verdict [".py"] [file_of "a.py" [mkItem IHash "!TODO x"]] = [].
Proof. repeat split; vm_compute; reflexivity. Qed.

Example dir_named_like_source_skipped :
  let files := [mkAFile "chart.js" true [] ""; file_of "chart.js/index.js" [mkItem ILine " TODO x"]] in
  analysis_path [".js"] (map fentry_of files) = Report [mkTodo "chart.js/index.js" 1 "" "x"] /\
  model_verdict [".js"] files = [].
Proof. split; vm_compute; reflexivity. Qed.

(* the two shapes the property tolerates by its documented reading: stars count as blanks in a
   message; behind a block comment that is never closed only "no crash" is asked *)
Example star_in_message_normalised :
  analysis_path [".go"] (map fentry_of [file_of "a.go" [mkItem ILine " TODO: a*b"]]) = Report [mkTodo "a.go" 1 "" "a b"] /\
  model_verdict [".go"] [file_of "a.go" [mkItem ILine " TODO: a*b"]] = [].
Proof. split; vm_compute; reflexivity. Qed.

Example unterminated_block_tolerated :
  let files := [file_of "a.go" [mkItem ILine " TODO before"; mkItem ICode nl;
                                mkItem IUBlock (" TODO x" +++ nl +++ "// FIXME inner")]] in
  analysis_path [".go"] (map fentry_of files) = Report [mkTodo "a.go" 1 "" "before"; mkTodo "a.go" 3 "" "inner"] /\
  model_verdict [".go"] files = [].
Proof. split; vm_compute; reflexivity. Qed.

(* the open findings: literals the Java-only lexer does not know *)
Example sq_string_extra_refuted :
  model_verdict [".py"] [file_of "a.py" [mkItem ICode "s = "; mkItem ISq "a // TODO x"]] = ["extra:a.py"].
Proof. vm_compute. reflexivity. Qed.

Example sq_string_missing_refuted :
  model_verdict [".py"] [file_of "a.py" [mkItem ICode "s = "; mkItem ISq "ab"; mkItem ICode " "; mkItem IHash " TODO q"]]
  = ["missing:a.py"].
Proof. vm_compute. reflexivity. Qed.

Example str_escape_refuted :
  model_verdict [".go"] [file_of "a.go" [mkItem IStr (bslash +++ "x41 // TODO x")]] = ["extra:a.go"].
Proof. vm_compute. reflexivity. Qed.

(* ------------------------------------------------------------------ the hypotheses are satisfiable *)
Definition ex_files : list afile :=
  [ file_of "a.go"
      [ mkItem ICode ("package a" +++ nl +++ "var s = "); mkItem IStr ("// TODO not me " +++ bslash +++ dquote +++ " /* FIXME */ # todo");
        mkItem ICode (" + "); mkItem IChr "#"; mkItem ICode " / 2 "; mkItem ILine " TODO(al): fix it";
        mkItem ICode nl; mkItem IBlock (" fixme : later" +++ nl +++ "   on two lines "); mkItem ICode " ";
        mkItem ITpl ("# TODO raw" +++ nl +++ "// FIXME raw"); mkItem ICode nl; mkItem ILine " see TODO later";
        mkItem ICode nl; mkItem IHash " todo (a.b+c@d) x" ];
    file_of "notes.txt" [ mkItem ILine " TODO not scanned" ];
    mkAFile "pkg.go" true [] "";
    file_of "pkg.go/b.py" [ mkItem IHash ""; mkItem ICode nl; mkItem IHash "FIXME(al) glued"; mkItem ICode nl;
                            mkItem IHash "!TODO not at the start" ] ].

Example ex_case_ok : case_ok [".go"; ".py"] ex_files = true.
Proof. vm_compute. reflexivity. Qed.

Example ex_names_distinct : NoDup (map af_name ex_files).
Proof. repeat constructor; simpl; intuition discriminate. Qed.

Example ex_report :
  analysis_path [".go"; ".py"] (map fentry_of ex_files) =
  Report [ mkTodo "a.go" 2 "al" "fix it"; mkTodo "a.go" 3 "" ("later    on two lines  "); mkTodo "a.go" 7 "a.b+c@d" "x";
           mkTodo "pkg.go/b.py" 2 "al" "glued" ].
Proof. vm_compute. reflexivity. Qed.
