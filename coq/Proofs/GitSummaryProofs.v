(* Lemmas about Model/GitSummary.v (C15). *)
From Coq Require Import String List Bool Arith Ascii ZArith Lia Permutation Sorted.
From Coca Require Import Lib.Sx Lib.GoMap Lib.Str Lib.Scan Model.GitSummary Model.GitSummarySpec.
Import ListNotations.
Open Scope string_scope.
Open Scope list_scope.

(* ------------------------------------------------------------------ forgetting the abstract view *)
Definition forget_change (ch : achange) : fchange :=
  mkChange (a_added ch) (a_deleted ch) (a_file ch) (if a_delete ch then "delete" else "").
Definition forget (c : acommit) : commit :=
  mkCommit (ac_rev c) (ac_author c) (ac_date c) (ac_msg c) (map forget_change (ac_changes c)).

(* what the scanners must do on a change for the model to follow the abstract semantics *)
Definition Decodes (ch : achange) : Prop :=
  a_new ch <> "" /\
  ((a_old ch = a_new ch /\ a_file ch = a_new ch /\ complex_move (a_file ch) = None /\ basic_move (a_file ch) = None)
   \/ (a_old ch <> a_new ch /\ (exists g, complex_move (a_file ch) = Some g) /\
       update_message_for_change (a_file ch) = (a_new ch, a_old ch, a_new ch))
   \/ (a_old ch <> a_new ch /\ complex_move (a_file ch) = None /\ basic_move (a_file ch) = Some (a_old ch, a_new ch))).

Definition lift_info (k : string) (i : finfo) : pinfo := mkInfo k (fi_authors i) (fi_revs i) (fi_first i).
Definition lift (st : gomap finfo) : gomap pinfo := map (fun kv => (fst kv, lift_info (fst kv) (snd kv))) st.

Lemma mget_lift : forall st k, mget (lift st) k = option_map (lift_info k) (mget st k).
Proof.
  induction st as [|[k0 v0] st IH]; intros k; simpl; [reflexivity|].
  destruct (String.eqb k0 k) eqn:E; [|apply IH]. apply String.eqb_eq in E. now subst.
Qed.

Lemma mput_lift : forall st k v, mput (lift st) k (lift_info k v) = lift (mput st k v).
Proof.
  induction st as [|[k0 v0] st IH]; intros k v; simpl; [reflexivity|].
  destruct (String.eqb k0 k) eqn:E; simpl.
  - apply String.eqb_eq in E. now subst.
  - now rewrite IH.
Qed.

Lemma mdel_lift : forall st k, mdel (lift st) k = lift (mdel st k).
Proof.
  induction st as [|[k0 v0] st IH]; intros k; simpl; [reflexivity|].
  destruct (String.eqb k0 k); simpl; [reflexivity|now rewrite IH].
Qed.

Lemma switch_lift : forall st old new,
    switch_map_file (lift st) old new =
    lift (match mget st old with Some i => mput (mdel st old) new i | None => st end).
Proof.
  intros st old new. unfold switch_map_file. rewrite mget_lift.
  destruct (mget st old) as [i|]; simpl; [|reflexivity].
  rewrite mdel_lift. apply (mput_lift (mdel st old) new i).
Qed.

Lemma touch_lift : forall (c : acommit) st name,
    name <> "" ->
    match mget (lift st) name with
    | Some i =>
      if String.eqb (pi_name i) "" then mput (lift st) name (mkInfo name [ac_author c] [ac_rev c] (ac_date c))
      else mput (lift st) name (mkInfo (pi_name i) (set_add (ac_author c) (pi_authors i))
                                       (set_add (ac_rev c) (pi_revs i)) (pi_age i))
    | None => mput (lift st) name (mkInfo name [ac_author c] [ac_rev c] (ac_date c))
    end =
    lift (match mget st name with
          | Some i => mput st name (mkF (set_add (ac_author c) (fi_authors i)) (set_add (ac_rev c) (fi_revs i)) (fi_first i))
          | None => mput st name (mkF [ac_author c] [ac_rev c] (ac_date c))
          end).
Proof.
  intros c st name Hne. rewrite mget_lift. destruct (mget st name) as [i|]; simpl.
  - assert (E : String.eqb name "" = false) by now apply String.eqb_neq.
    rewrite E. apply (mput_lift st name (mkF _ _ _)).
  - apply (mput_lift st name (mkF _ _ _)).
Qed.

Lemma apply_change_lift : forall c st ch,
    Decodes ch ->
    apply_change (forget c) (lift st) (forget_change ch) = lift (abs_apply c st ch).
Proof.
  intros c st ch [Hne HD]. unfold apply_change, abs_apply. cbn [forget_change ch_file ch_mode forget cm_author cm_rev cm_date].
  assert (Hdel : forall m : gomap pinfo, forall m' : gomap finfo, m = lift m' ->
            (if String.eqb (if a_delete ch then "delete" else "") "delete" then mdel m (a_new ch) else m)
            = lift (if a_delete ch then mdel m' (a_new ch) else m')).
  { intros m m' E. subst m. destruct (a_delete ch); simpl; [apply mdel_lift|reflexivity]. }
  destruct HD as [[H1 [H2 [H3 H4]]]|[[H1 [[g H2] H3]]|[H1 [H2 H3]]]].
  - rewrite H3, H4, H2. rewrite H1, String.eqb_refl.
    apply Hdel. apply touch_lift. assumption.
  - rewrite H2, H3. assert (E : String.eqb (a_new ch) (a_old ch) = false).
    { apply String.eqb_neq. congruence. }
    rewrite E. assert (E2 : String.eqb (a_old ch) (a_new ch) = false) by now apply String.eqb_neq.
    rewrite E2. rewrite switch_lift. apply Hdel. apply touch_lift. assumption.
  - rewrite H2, H3. assert (E2 : String.eqb (a_old ch) (a_new ch) = false) by now apply String.eqb_neq.
    rewrite E2. rewrite switch_lift. apply Hdel. apply touch_lift. assumption.
Qed.

Definition AllDecode (cs : list acommit) : Prop :=
  forall c, In c cs -> forall ch, In ch (ac_changes c) -> Decodes ch.

Lemma fold_changes_lift : forall c chs st,
    (forall ch, In ch chs -> Decodes ch) ->
    fold_left (apply_change (forget c)) (map forget_change chs) (lift st) =
    lift (fold_left (abs_apply c) chs st).
Proof.
  intros c. induction chs as [|ch chs IH]; intros st H; simpl; [reflexivity|].
  rewrite apply_change_lift by (apply H; now left). apply IH. intros; apply H; now right.
Qed.

(* the per-file records built from the text notation are exactly the abstract history over
   file identities: a rename neither loses nor duplicates revisions, a deleted file
   disappears, delete-then-recreate starts afresh *)
Theorem commit_map_refines : forall cs,
    AllDecode cs ->
    build_commit_message_map (map forget cs) = lift (abs_history cs).
Proof.
  intros cs. unfold build_commit_message_map, abs_history.
  change (@nil (string * pinfo)) with (lift []). generalize (@nil (string * finfo)).
  induction cs as [|c cs IH]; intros st H; simpl; [reflexivity|].
  cbn [forget cm_changes]. rewrite fold_changes_lift.
  - apply IH. intros c' Hc'. apply H. now right.
  - apply H. now left.
Qed.

(* ------------------------------------------------------------------ sorting *)
Section Sort.
  Context {A : Type}.
  Variable le : A -> A -> bool.
  Hypothesis le_total : forall a b, le a b = true \/ le b a = true.
  Hypothesis le_trans : forall a b c, le a b = true -> le b c = true -> le a c = true.

  Lemma insert_perm : forall x l, Permutation (insert_by le x l) (x :: l).
  Proof.
    induction l as [|y l IH]; simpl; [reflexivity|].
    destruct (le x y); [reflexivity|]. rewrite IH. apply perm_swap.
  Qed.

  Definition sorted (l : list A) : Prop := StronglySorted (fun a b => le a b = true) l.

  Lemma insert_sorted : forall x l, sorted l -> sorted (insert_by le x l).
  Proof.
    unfold sorted. induction l as [|y l IH]; intros H; simpl.
    - constructor; constructor.
    - inversion H as [|? ? Hs Hall]; subst. destruct (le x y) eqn:E.
      + constructor; [assumption|]. constructor; [assumption|].
        rewrite Forall_forall in *. intros z Hz. eapply le_trans; eauto.
      + constructor; [now apply IH|].
        assert (Hyx : le y x = true) by (destruct (le_total x y); congruence).
        rewrite Forall_forall in *. intros z Hz.
        apply (Permutation_in _ (insert_perm x l)) in Hz. destruct Hz as [Hz|Hz]; [now subst|auto].
  Qed.

  Lemma fold_insert : forall l acc,
      sorted acc ->
      sorted (fold_left (fun acc x => insert_by le x acc) l acc) /\
      Permutation (fold_left (fun acc x => insert_by le x acc) l acc) (l ++ acc).
  Proof.
    induction l as [|x l IH]; intros acc H; simpl; [split; [assumption|reflexivity]|].
    destruct (IH (insert_by le x acc) (insert_sorted x acc H)) as [H1 H2]. split; [assumption|].
    rewrite H2. rewrite insert_perm. symmetry. apply Permutation_middle.
  Qed.

  Theorem sort_by_sorted : forall l, sorted (sort_by le l).
  Proof. intros l. unfold sort_by. apply fold_insert. constructor. Qed.

  Theorem sort_by_perm : forall l, Permutation (sort_by le l) l.
  Proof.
    intros l. unfold sort_by. destruct (fold_insert (rev l) [] (SSorted_nil _)) as [_ H].
    rewrite H, app_nil_r. symmetry. apply Permutation_rev.
  Qed.
End Sort.

Lemma ge_total : forall (A : Type) (key : A -> nat) (a b : A),
    Nat.leb (key b) (key a) = true \/ Nat.leb (key a) (key b) = true.
Proof.
  intros A key a b. destruct (Nat.leb (key b) (key a)) eqn:E; [now left|right].
  apply Nat.leb_le. apply Nat.leb_gt in E. lia.
Qed.

Lemma ge_trans : forall (A : Type) (key : A -> nat) (a b c : A),
    Nat.leb (key b) (key a) = true -> Nat.leb (key c) (key b) = true -> Nat.leb (key c) (key a) = true.
Proof. intros A key a b c H1 H2. apply Nat.leb_le in H1, H2. apply Nat.leb_le. lia. Qed.

(* team summary: the rows are those of the final records, most revisions first *)
Theorem team_summary_sorted : forall cs,
    sorted (fun a b : string * nat * nat => Nat.leb (snd b) (snd a)) (team_summary cs).
Proof.
  intros cs. unfold team_summary. apply sort_by_sorted; [apply (ge_total _ snd)|apply (ge_trans _ snd)].
Qed.

Theorem team_summary_rows : forall cs,
    AllDecode cs ->
    Permutation (team_summary (map forget cs))
                (map (fun kv => (fst kv, List.length (fi_authors (snd kv)), List.length (fi_revs (snd kv))))
                     (abs_history cs)).
Proof.
  intros cs H. unfold team_summary.
  etransitivity; [apply sort_by_perm; [apply (ge_total _ snd)|apply (ge_trans _ snd)]|].
  rewrite commit_map_refines by assumption.
  unfold lift. rewrite map_map. reflexivity.
Qed.

Lemma str_leb_refl : forall a, str_leb a a = true.
Proof. induction a as [|c a IH]; simpl; [reflexivity|]. now rewrite Nat.ltb_irrefl. Qed.

Lemma str_leb_total : forall a b, str_leb a b = true \/ str_leb b a = true.
Proof.
  induction a as [|c a IH]; intros b; [now left|]. destruct b as [|d b]; [now right|]. simpl.
  destruct (Nat.ltb (nat_of_ascii c) (nat_of_ascii d)) eqn:E1; [now left|].
  destruct (Nat.ltb (nat_of_ascii d) (nat_of_ascii c)) eqn:E2; [now right|]. apply IH.
Qed.

Lemma str_leb_trans : forall a b c, str_leb a b = true -> str_leb b c = true -> str_leb a c = true.
Proof.
  induction a as [|x a IH]; intros b c H1 H2; [reflexivity|].
  destruct b as [|y b]; [discriminate|]. destruct c as [|z c]; [simpl in H2; discriminate|].
  simpl in *.
  destruct (Nat.ltb (nat_of_ascii x) (nat_of_ascii y)) eqn:E1.
  - apply Nat.ltb_lt in E1.
    destruct (Nat.ltb (nat_of_ascii y) (nat_of_ascii z)) eqn:E2.
    + apply Nat.ltb_lt in E2. assert (E : Nat.ltb (nat_of_ascii x) (nat_of_ascii z) = true) by (apply Nat.ltb_lt; lia).
      now rewrite E.
    + destruct (Nat.ltb (nat_of_ascii z) (nat_of_ascii y)) eqn:E3; [discriminate|].
      apply Nat.ltb_ge in E2, E3. assert (E : Nat.ltb (nat_of_ascii x) (nat_of_ascii z) = true) by (apply Nat.ltb_lt; lia).
      now rewrite E.
  - destruct (Nat.ltb (nat_of_ascii y) (nat_of_ascii x)) eqn:E1'; [discriminate|].
    apply Nat.ltb_ge in E1, E1'.
    destruct (Nat.ltb (nat_of_ascii y) (nat_of_ascii z)) eqn:E2.
    + apply Nat.ltb_lt in E2. assert (E : Nat.ltb (nat_of_ascii x) (nat_of_ascii z) = true) by (apply Nat.ltb_lt; lia).
      now rewrite E.
    + destruct (Nat.ltb (nat_of_ascii z) (nat_of_ascii y)) eqn:E3; [discriminate|].
      apply Nat.ltb_ge in E2, E3.
      assert (Ea : Nat.ltb (nat_of_ascii x) (nat_of_ascii z) = false) by (apply Nat.ltb_ge; lia).
      assert (Eb : Nat.ltb (nat_of_ascii z) (nat_of_ascii x) = false) by (apply Nat.ltb_ge; lia).
      rewrite Ea, Eb. eapply IH; eassumption.
Qed.

Theorem code_age_sorted : forall cs,
    sorted (fun a b : string * string => str_leb (snd a) (snd b)) (code_age cs).
Proof.
  intros cs. unfold code_age. apply sort_by_sorted.
  - intros a b. apply str_leb_total.
  - intros a b c. apply str_leb_trans.
Qed.

Theorem code_age_rows : forall cs,
    AllDecode cs ->
    Permutation (code_age (map forget cs))
                (map (fun kv => (fst kv, fi_first (snd kv))) (abs_history cs)).
Proof.
  intros cs H. unfold code_age.
  etransitivity; [apply sort_by_perm; [intros a b; apply str_leb_total|intros a b c; apply str_leb_trans]|].
  rewrite commit_map_refines by assumption.
  unfold lift. rewrite map_map. reflexivity.
Qed.

(* ------------------------------------------------------------------ top authors *)
Lemma fold_left_map_gen : forall (A B C : Type) (f : C -> B -> C) (g : A -> B) (l : list A) (acc : C),
    fold_left f (map g l) acc = fold_left (fun a x => f a (g x)) l acc.
Proof. intros A B C f g. induction l as [|x l IH]; intros acc; simpl; [reflexivity|apply IH]. Qed.

Lemma line_delta_forget : forall c, line_delta (forget c) = a_delta c.
Proof. intros c. unfold line_delta, a_delta, forget. cbn [cm_changes]. now rewrite fold_left_map_gen. Qed.

Definition count_author (a : string) (cs : list acommit) : nat :=
  List.length (filter (fun c => String.eqb (ac_author c) a) cs).
Definition lines_author (a : string) (cs : list acommit) (z0 : Z) : Z :=
  fold_left (fun acc c => if String.eqb (ac_author c) a then (acc + a_delta c)%Z else acc) cs z0.

Definition top_step (m : gomap (nat * Z)) (c : commit) : gomap (nat * Z) :=
  let '(n, l) := mget_d (0, 0%Z) m (cm_author c) in mput m (cm_author c) (S n, (l + line_delta c)%Z).

Lemma top_fold_get : forall cs m a,
    mget_d (0, 0%Z) (fold_left top_step (map forget cs) m) a =
    (fst (mget_d (0, 0%Z) m a) + count_author a cs, lines_author a cs (snd (mget_d (0, 0%Z) m a))).
Proof.
  induction cs as [|c cs IH]; intros m a.
  - simpl. unfold count_author. simpl. rewrite Nat.add_0_r. now destruct (mget_d (0, 0%Z) m a).
  - cbn [map fold_left]. rewrite IH. unfold top_step at 1 2. cbn [forget cm_author].
    destruct (mget_d (0, 0%Z) m (ac_author c)) as [n l] eqn:E.
    rewrite mget_d_mput. unfold count_author, lines_author. cbn [filter fold_left].
    destruct (String.eqb (ac_author c) a) eqn:Ea.
    + apply String.eqb_eq in Ea. subst a. rewrite E. cbn [fst snd List.length].
      fold (forget c). rewrite line_delta_forget. f_equal. lia.
    + reflexivity.
Qed.

(* each author's commit count and net added-minus-deleted lines *)
Theorem top_authors_exact : forall cs a,
    mget_d (0, 0%Z) (top_authors_map (map forget cs)) a = (spec_author_commits cs a, spec_author_lines cs a).
Proof.
  intros cs a. unfold top_authors_map.
  change (fun (m : gomap (nat * Z)) (c : commit) =>
            let '(n, l) := mget_d (0, 0%Z) m (cm_author c) in mput m (cm_author c) (S n, (l + line_delta c)%Z))
    with top_step.
  rewrite top_fold_get. reflexivity.
Qed.

Definition sum_counts (m : gomap (nat * Z)) : nat := list_sum (map (fun kv => fst (snd kv)) m).

Lemma sum_counts_mput : forall m k z,
    sum_counts (mput m k (S (fst (mget_d (0, 0%Z) m k)), z)) = S (sum_counts m).
Proof.
  unfold sum_counts, mget_d. induction m as [|[k0 [n0 z0]] m IH]; intros k z; simpl; [reflexivity|].
  destruct (String.eqb k0 k); simpl; [reflexivity|]. rewrite IH. lia.
Qed.

Lemma top_fold_sum : forall cs m, sum_counts (fold_left top_step cs m) = sum_counts m + List.length cs.
Proof.
  induction cs as [|c cs IH]; intros m; simpl; [lia|]. rewrite IH. unfold top_step.
  destruct (mget_d (0, 0%Z) m (cm_author c)) as [n l] eqn:E.
  replace n with (fst (mget_d (0, 0%Z) m (cm_author c))) by now rewrite E.
  rewrite sum_counts_mput. lia.
Qed.

Lemma list_sum_perm : forall l l', Permutation l l' -> list_sum l = list_sum l'.
Proof. induction 1; simpl; lia. Qed.

Lemma fold_add_list_sum : forall (A : Type) (f : A -> nat) l acc,
    fold_left (fun acc r => acc + f r) l acc = acc + list_sum (map f l).
Proof. intros A f. induction l as [|x l IH]; intros acc; simpl; [lia|]. rewrite IH. lia. Qed.

(* the commit counts of the top-author list sum to the number of commits *)
Theorem top_authors_sum : forall cs,
    fold_left (fun acc r => acc + snd (fst r)) (top_authors cs) 0 = List.length cs.
Proof.
  intros cs. rewrite fold_add_list_sum. simpl. unfold top_authors.
  rewrite (list_sum_perm _ (map (fun r : string * nat * Z => snd (fst r))
                                (map (fun kv => (fst kv, fst (snd kv), snd (snd kv))) (top_authors_map cs)))).
  - rewrite map_map. cbn [fst snd]. unfold top_authors_map.
    change (fun (m : gomap (nat * Z)) (c : commit) =>
              let '(n, l) := mget_d (0, 0%Z) m (cm_author c) in mput m (cm_author c) (S n, (l + line_delta c)%Z))
      with top_step.
    pose proof (top_fold_sum cs []) as H. unfold sum_counts in H. simpl in H. exact H.
  - apply Permutation_map. apply sort_by_perm;
      [apply (ge_total _ (fun r : string * nat * Z => snd (fst r)))
      |apply (ge_trans _ (fun r : string * nat * Z => snd (fst r)))].
Qed.

Theorem top_authors_sorted : forall cs,
    sorted (fun a b : string * nat * Z => Nat.leb (snd (fst b)) (snd (fst a))) (top_authors cs).
Proof.
  intros cs. unfold top_authors. apply sort_by_sorted;
    [apply (ge_total _ (fun r : string * nat * Z => snd (fst r)))
    |apply (ge_trans _ (fun r : string * nat * Z => snd (fst r)))].
Qed.

(* ------------------------------------------------------------------ basic summary *)
Theorem basic_summary_spec : forall cs,
    let '(c, e, _, a) := basic_summary (map forget cs) in
    c = List.length cs /\ e = List.length (paths_of cs) /\ a = List.length (authors_of cs).
Proof.
  intros cs. unfold basic_summary. rewrite map_length. split; [reflexivity|]. split.
  - f_equal. unfold paths_of. rewrite fold_left_map_gen.
    generalize (@nil string). induction cs as [|c cs IH]; intros acc; simpl; [reflexivity|].
    rewrite fold_left_map_gen. apply IH.
  - f_equal. unfold authors_of. now rewrite fold_left_map_gen.
Qed.

(* ------------------------------------------------------------------ the scanners on plain paths *)
Lemma greedy_star_from_none : forall (R : Type) (k : string -> option R) s i,
    (forall j, j <= i -> k (drop j s) = None) -> greedy_star_from k s i = None.
Proof.
  intros R k s. induction i as [|i IH]; intros H; cbn [greedy_star_from].
  - now rewrite (H 0 (le_n 0)).
  - rewrite (H (S i) (le_n _)). rewrite IH by (intros j Hj; apply H; lia).
    now destruct (negb (contains (take (S i) s) nl)).
Qed.

Definition has_char (c : ascii) (s : string) : bool := existsb (Ascii.eqb c) (chars s).

Lemma has_char_drop : forall c j s, has_char c s = false -> has_char c (drop j s) = false.
Proof.
  intros c. induction j as [|j IH]; intros s H; simpl; [assumption|].
  destruct s as [|d s]; [reflexivity|]. apply IH. unfold has_char in *. simpl in H.
  apply orb_false_iff in H. tauto.
Qed.

Lemma expect_char_none : forall c s, has_char c s = false -> expect (String c EmptyString) s = None.
Proof.
  intros c s H. unfold expect. destruct s as [|d s]; simpl; [reflexivity|].
  unfold has_char in H. simpl in H. apply orb_false_iff in H. destruct H as [H _]. now rewrite H.
Qed.

Theorem complex_move_plain : forall s, has_char "{"%char s = false -> complex_move s = None.
Proof.
  intros s H. unfold complex_move. unfold greedy_star at 1.
  rewrite greedy_star_from_none; [reflexivity|].
  intros j _. rewrite (expect_char_none "{"%char) by now apply has_char_drop. reflexivity.
Qed.

Lemma expect_arrow_none : forall r, has_char ">"%char r = false -> expect "=>" r = None.
Proof.
  intros r H. unfold expect. destruct (has_prefix "=>" r) eqn:E; [|reflexivity].
  apply has_prefix_spec in E. destruct E as [r' E]. subst r. cbn in H. discriminate.
Qed.

Theorem basic_move_plain : forall s, has_char ">"%char s = false -> basic_move s = None.
Proof.
  intros s H. unfold basic_move, greedy_star.
  apply greedy_star_from_none. intros j _.
  pose proof (has_char_drop _ j s H) as Hd. destruct (drop j s) as [|c r]; [reflexivity|].
  unfold expect_ws. destruct (is_ws c); [|reflexivity]. cbn [bind].
  assert (Hr : has_char ">"%char r = false).
  { unfold has_char in *. cbn [chars list_ascii_of_string existsb] in Hd. apply orb_false_iff in Hd. tauto. }
  now rewrite expect_arrow_none.
Qed.

(* a change to a plain path (no rename) is decoded as such *)
Theorem decodes_plain : forall ch,
    a_old ch = a_new ch -> a_file ch = a_new ch -> a_new ch <> "" ->
    has_char "{"%char (a_file ch) = false -> has_char ">"%char (a_file ch) = false -> Decodes ch.
Proof.
  intros ch H1 H2 H3 H4 H5. split; [assumption|]. left.
  repeat split; auto using complex_move_plain, basic_move_plain.
Qed.

(* the run-time well-formedness test implies the hypothesis of the refinement theorem *)
Theorem decodes_b_sound : forall ch, decodes_b ch = true -> Decodes ch.
Proof.
  intros ch H. unfold decodes_b in H. apply andb_true_iff in H. destruct H as [Hne H].
  apply negb_true_iff in Hne. apply String.eqb_neq in Hne. split; [assumption|].
  destruct (String.eqb (a_old ch) (a_new ch)) eqn:E.
  - apply String.eqb_eq in E. left. apply andb_true_iff in H. destruct H as [H H3].
    apply andb_true_iff in H. destruct H as [H1 H2]. apply String.eqb_eq in H1.
    repeat split; auto.
    + destruct (complex_move (a_file ch)); [discriminate|reflexivity].
    + destruct (basic_move (a_file ch)); [discriminate|reflexivity].
  - apply String.eqb_neq in E. right.
    destruct (complex_move (a_file ch)) as [g|] eqn:Ec.
    + left. split; [assumption|]. split; [eauto|].
      destruct (update_message_for_change (a_file ch)) as [[f o] n].
      apply andb_true_iff in H. destruct H as [H H3]. apply andb_true_iff in H. destruct H as [H1 H2].
      apply String.eqb_eq in H1, H2, H3. now subst.
    + right. split; [assumption|]. split; [reflexivity|].
      destruct (basic_move (a_file ch)) as [[g1 g2]|]; [|discriminate].
      apply andb_true_iff in H. destruct H as [H1 H2]. apply String.eqb_eq in H1, H2. now subst.
Qed.

Theorem all_decode_b_sound : forall cs, all_decode_b cs = true -> AllDecode cs.
Proof.
  intros cs H c Hc ch Hch. apply decodes_b_sound. unfold all_decode_b in H.
  rewrite forallb_forall in H. specialize (H c Hc). rewrite forallb_forall in H. now apply H.
Qed.

(* non-vacuity: a history with a brace rename into the parent directory, a full-path rename,
   a delete and a re-creation satisfies the hypothesis, and the file keeps its history *)
Definition ex_hist : list acommit :=
  [ mkAC "a000001" "A" "2020-01-01" "feat: add" "feat" [mkA 3 0 "x/d/a.txt" "x/d/a.txt" false "x/d/a.txt"];
    mkAC "a000002" "B" "2020-01-02" "refactor: up" "refactor" [mkA 0 0 "x/d/a.txt" "x/a.txt" false "x/{d => }/a.txt"];
    mkAC "a000003" "A" "2020-01-03" "fix: root" "fix" [mkA 1 1 "x/a.txt" "a.txt" false "x/a.txt => a.txt"];
    mkAC "a000004" "C" "2020-01-04" "chore: rm" "chore" [mkA 0 4 "a.txt" "a.txt" true "a.txt"];
    mkAC "a000005" "C" "2020-02-01" "feat: again" "feat" [mkA 2 0 "a.txt" "a.txt" false "a.txt";
                                                           mkA 5 0 "b.txt" "b.txt" false "b.txt"] ].

Example ex_hist_decodes : AllDecode ex_hist.
Proof. apply all_decode_b_sound. vm_compute. reflexivity. Qed.

Example ex_hist_team :
  team_summary (map forget (firstn 3 ex_hist)) = [("a.txt", 2, 3)] /\
  team_summary (map forget ex_hist) = [("a.txt", 1, 1); ("b.txt", 1, 1)] /\
  code_age (map forget ex_hist) = [("a.txt", "2020-02-01"); ("b.txt", "2020-02-01")].
Proof. vm_compute. repeat split; reflexivity. Qed.
