(* The fan table (tequila.FullGraph.SortedByFan): rows of the merged graph's nodes, largest total first. *)
From Coq Require Import String List Bool Arith Lia Permutation Sorted.
From Coca Require Import Lib.Sx Lib.GoMap Lib.Str Model.CodeModel Model.Arch.
Import ListNotations.
Open Scope string_scope.
Open Scope list_scope.

Definition fan_ge (a b : string * nat * nat) : Prop := fan_total b <= fan_total a.

Lemma insert_fan_perm : forall x l, Permutation (insert_fan x l) (x :: l).
Proof.
  induction l as [|y l IH]; cbn [insert_fan]; [reflexivity|].
  destruct (Nat.leb (fan_total y) (fan_total x)); [reflexivity|]. rewrite IH. apply perm_swap.
Qed.

Lemma insert_fan_sorted : forall x l, StronglySorted fan_ge l -> StronglySorted fan_ge (insert_fan x l).
Proof.
  induction l as [|y l IH]; intros H; cbn [insert_fan].
  - constructor; constructor.
  - inversion H as [|? ? Hs Hall]; subst. destruct (Nat.leb (fan_total y) (fan_total x)) eqn:E.
    + apply Nat.leb_le in E. constructor; [assumption|]. constructor; [exact E|].
      rewrite Forall_forall in *. intros z Hz. unfold fan_ge in *. specialize (Hall z Hz). lia.
    + apply Nat.leb_gt in E. constructor; [now apply IH|].
      rewrite Forall_forall in *. intros z Hz.
      apply (Permutation_in _ (insert_fan_perm x l)) in Hz. destruct Hz as [Hz|Hz].
      * subst z. unfold fan_ge. lia.
      * now apply Hall.
Qed.

(* the table lists every node of the merged graph once, with its fan-in and fan-out *)
Theorem sorted_by_fan_rows : forall f g, Permutation (sorted_by_fan f g) (fan_rows (merge_graph f g)).
Proof.
  intros f g. unfold sorted_by_fan. induction (fan_rows (merge_graph f g)) as [|x l IH]; cbn [fold_right]; [reflexivity|].
  rewrite insert_fan_perm. now constructor.
Qed.

(* in non-increasing order of fan-in + fan-out *)
Theorem sorted_by_fan_sorted : forall f g, StronglySorted fan_ge (sorted_by_fan f g).
Proof.
  intros f g. unfold sorted_by_fan. induction (fan_rows (merge_graph f g)) as [|x l IH]; cbn [fold_right]; [constructor|].
  now apply insert_fan_sorted.
Qed.

(* a row's numbers are the numbers of relations into / out of its node *)
Theorem fan_row_counts : forall mg k i o,
    In (k, i, o) (fan_rows mg) ->
    i = List.length (filter (fun r => String.eqb (snd r) k) (map snd (g_rels mg))) /\
    o = List.length (filter (fun r => String.eqb (fst r) k) (map snd (g_rels mg))).
Proof.
  intros mg k i o H. unfold fan_rows in H. apply in_map_iff in H. destruct H as [k' [E _]].
  inversion E. subst. split; reflexivity.
Qed.
