(* Lemmas about Model/Rename.v and Model/RenameSpec.v (C05). *)
From Coq Require Import String List Bool Arith Lia Ascii Sorted Permutation.
From Coca Require Import Lib.Sx Lib.GoMap Lib.Str Model.CodeModel Model.GitSummary Model.Rename Model.RenameSpec
     Generated.Constants Proofs.GitSummaryProofs.
Import ListNotations.
Open Scope string_scope.
Open Scope list_scope.

Local Notation "a +++ b" := (String.append a b) (at level 60, right associativity).

(* ------------------------------------------------------------------ the constants the model reads *)
Theorem rename_constants_pinned :
  rename_conf_sep = " -> " /\ rename_name_sep = "." /\ rename_line_sep = "\n".
Proof. repeat split; reflexivity. Qed.

(* ------------------------------------------------------------------ byte strings *)
Lemma length_take : forall n s, String.length (take n s) = Nat.min n (String.length s).
Proof. induction n; destruct s; simpl; auto. Qed.

Lemma length_drop : forall n s, String.length (drop n s) = String.length s - n.
Proof. induction n; destruct s; simpl; auto. Qed.

Lemma take_app_exact : forall a b, take (String.length a) (a +++ b) = a.
Proof. induction a; simpl; intros; [now destruct b|]. now rewrite IHa. Qed.

Lemma drop_app_exact : forall a b, drop (String.length a) (a +++ b) = b.
Proof. induction a; simpl; intros; auto. Qed.

Lemma take_app_le : forall n a b, n <= String.length a -> take n (a +++ b) = take n a.
Proof.
  induction n; intros a b H; simpl; auto. destruct a; simpl in *; [lia|]. rewrite IHn by lia. reflexivity.
Qed.

Lemma drop_app_ge : forall n a b, String.length a <= n -> drop n (a +++ b) = drop (n - String.length a) b.
Proof.
  induction n; intros a b H.
  - destruct a; simpl in *; [reflexivity|lia].
  - destruct a; simpl in *; [reflexivity|]. apply IHn. lia.
Qed.

Lemma take_all : forall n s, String.length s <= n -> take n s = s.
Proof. induction n; destruct s; simpl; intros; auto; [lia|]. rewrite IHn by lia. reflexivity. Qed.

Lemma drop_all : forall n s, String.length s <= n -> drop n s = "".
Proof. induction n; destruct s; simpl; intros; auto; [lia|]. apply IHn. lia. Qed.

Lemma drop_drop : forall n m s, drop n (drop m s) = drop (m + n) s.
Proof.
  intros n m. revert n. induction m; intros n s; simpl; auto.
  destruct s; simpl; [now destruct n|]. apply IHm.
Qed.

Lemma has_prefix_app : forall p r, has_prefix p (p +++ r) = true.
Proof. intros. apply has_prefix_spec. eauto. Qed.

Lemma has_prefix_split : forall p s, has_prefix p s = true -> s = p +++ drop (String.length p) s.
Proof.
  intros p s H. apply has_prefix_spec in H. destruct H as [r ->]. now rewrite drop_app_exact.
Qed.

(* String.get and extensionality *)
Lemma get_app_lt : forall k a b, k < String.length a -> String.get k (a +++ b) = String.get k a.
Proof.
  induction k; intros a b H; destruct a; simpl in *; try lia; auto. apply IHk. lia.
Qed.

Lemma get_app_ge : forall k a b, String.length a <= k -> String.get k (a +++ b) = String.get (k - String.length a) b.
Proof.
  induction k; intros a b H; destruct a; simpl in *; try lia; auto.
  apply IHk. lia.
Qed.

Lemma get_take : forall k n s, k < n -> String.get k (take n s) = String.get k s.
Proof.
  induction k; intros n s H; destruct n; try lia; destruct s; simpl; auto. apply IHk. lia.
Qed.

Lemma get_drop : forall k n s, String.get k (drop n s) = String.get (n + k) s.
Proof.
  intros k n. revert k. induction n; intros k s; simpl; auto. destruct s; simpl; [now destruct k|]. apply IHn.
Qed.

Lemma get_beyond : forall k s, String.length s <= k -> String.get k s = None.
Proof. induction k; destruct s; simpl; intros; auto; try lia. apply IHk. lia. Qed.

Lemma get_ext : forall a b, String.length a = String.length b ->
    (forall k, k < String.length a -> String.get k a = String.get k b) -> a = b.
Proof.
  induction a as [|c a IH]; intros b Hl Hk; destruct b as [|d b]; simpl in *; try discriminate; auto.
  assert (Some c = Some d) by (apply (Hk 0); lia). inversion H; subst. f_equal.
  apply IH; [lia|]. intros k Hlt. apply (Hk (S k)). lia.
Qed.

(* ------------------------------------------------------------------ lines *)
Fixpoint no_nl (s : string) : bool :=
  match s with
  | EmptyString => true
  | String c r => negb (Ascii.eqb c c_nl) && no_nl r
  end.

Lemma no_nl_app : forall a b, no_nl (a +++ b) = no_nl a && no_nl b.
Proof. induction a; simpl; intros; auto. rewrite IHa. now rewrite andb_assoc. Qed.

Lemma no_nl_take : forall n s, no_nl s = true -> no_nl (take n s) = true.
Proof.
  induction n; destruct s; simpl; intros; auto. apply andb_true_iff in H. destruct H as [H1 H2].
  rewrite H1. simpl. auto.
Qed.

Lemma no_nl_drop : forall n s, no_nl s = true -> no_nl (drop n s) = true.
Proof.
  induction n; destruct s; simpl; intros; auto. apply andb_true_iff in H. destruct H as [H1 H2]. auto.
Qed.

Lemma split_nl_nonempty : forall s, split_nl s <> [].
Proof.
  destruct s; simpl; [discriminate|]. destruct (Ascii.eqb a c_nl); [discriminate|].
  destruct (split_nl s); discriminate.
Qed.

Lemma join_cons2 : forall sep x y r, join sep (x :: y :: r) = x +++ sep +++ join sep (y :: r).
Proof. reflexivity. Qed.

(* strings.Join(strings.Split(s, "\n"), "\n") == s *)
Theorem join_split_nl : forall s, join_nl (split_nl s) = s.
Proof.
  unfold join_nl. induction s as [|c s IH]; simpl; auto.
  destruct (Ascii.eqb c c_nl) eqn:E.
  - apply Ascii.eqb_eq in E. subst c.
    destruct (split_nl s) as [|x t] eqn:Es; [now apply split_nl_nonempty in Es|].
    rewrite join_cons2. simpl. f_equal. exact IH.
  - destruct (split_nl s) as [|x t] eqn:Es; [now apply split_nl_nonempty in Es|].
    destruct t as [|y t]; simpl in *; f_equal; auto.
Qed.

Lemma split_nl_no_nl : forall s, no_nl s = true -> split_nl s = [s].
Proof.
  induction s as [|c s IH]; simpl; intros H; auto. apply andb_true_iff in H. destruct H as [H1 H2].
  apply negb_true_iff in H1. rewrite H1. rewrite IH by assumption. reflexivity.
Qed.

Lemma split_nl_app_line : forall x s, no_nl x = true ->
    split_nl (x +++ nl +++ s) = x :: split_nl s.
Proof.
  induction x as [|c x IH]; intros s H.
  - reflexivity.
  - simpl in H. apply andb_true_iff in H. destruct H as [H1 H2]. apply negb_true_iff in H1.
    change (String c x +++ nl +++ s) with (String c (x +++ nl +++ s)). cbn [split_nl]. rewrite H1.
    rewrite IH by assumption. reflexivity.
Qed.

(* strings.Split(strings.Join(lines, "\n"), "\n") == lines when no line holds a line feed *)
Theorem split_join_nl : forall ls, ls <> [] -> forallb no_nl ls = true -> split_nl (join_nl ls) = ls.
Proof.
  unfold join_nl. induction ls as [|x r IH]; intros Hne Hall; [contradiction|].
  simpl in Hall. apply andb_true_iff in Hall. destruct Hall as [Hx Hr].
  destruct r as [|y r].
  - simpl. now apply split_nl_no_nl.
  - rewrite join_cons2. rewrite split_nl_app_line by assumption. f_equal. apply IH; [discriminate|assumption].
Qed.

Theorem split_nl_lines_no_nl : forall s, forallb no_nl (split_nl s) = true.
Proof.
  induction s as [|c s IH]; simpl; auto.
  destruct (Ascii.eqb c c_nl) eqn:E; simpl; auto.
  destruct (split_nl s) as [|x t] eqn:Es; simpl in *.
  - now rewrite E.
  - rewrite E. simpl. exact IH.
Qed.

(* the spec's [lines_of] is the same function *)
Lemma lines_of_split_nl : forall s, lines_of s = split_nl s.
Proof. induction s as [|c s IH]; simpl; auto. Qed.

(* ------------------------------------------------------------------ byteOffset *)
Lemma byte_offset_from_bound : forall s skip col off,
    off <= byte_offset_from s skip col off <= off + String.length s.
Proof.
  induction s as [|c r IH]; intros skip col off; cbn [byte_offset_from String.length]; [lia|].
  destruct skip as [|k].
  - destruct col as [|col']; [lia|]. specialize (IH (rune_width (String c r) - 1) col' (S off)). lia.
  - specialize (IH k col (S off)). lia.
Qed.

(* the offset never exceeds the line: the slices of updateSelfRefs cannot panic *)
Theorem byte_offset_le_length : forall line col, byte_offset line col <= String.length line.
Proof. intros. unfold byte_offset. pose proof (byte_offset_from_bound line 0 col 0). lia. Qed.

Lemma tail_ok_app : forall k lo hi s t, tail_ok k lo hi s = true -> tail_ok k lo hi (s +++ t) = true.
Proof.
  induction k as [|k IH]; intros lo hi s t H; cbn [tail_ok] in *; auto.
  destruct s as [|c r]; [discriminate|]. cbn [String.append]. apply andb_true_iff in H. destruct H as [H1 H2].
  rewrite H1. cbn [andb]. now apply IH.
Qed.

(* the first character of s is a complete, valid character (ASCII or a well-formed multi-byte sequence) *)
Definition rune_good (s : string) : bool :=
  match s with
  | EmptyString => false
  | String c _ => Nat.ltb (nat_of_ascii c) 128 || Nat.ltb 1 (rune_width s)
  end.

Lemma rune_width_app : forall s t, rune_good s = true -> rune_width (s +++ t) = rune_width s.
Proof.
  intros s t H. destruct s as [|c r]; [discriminate|]. cbn [rune_good] in H. cbn [String.append].
  unfold rune_width in *. set (b := nat_of_ascii c) in *.
  destruct (Nat.ltb b 194) eqn:E1; [reflexivity|].
  assert (Hb : Nat.ltb b 128 = false) by (apply Nat.ltb_ge; apply Nat.ltb_ge in E1; lia).
  rewrite Hb in H. cbn [orb] in H.
  assert (Hbr : forall k lo hi w, Nat.ltb 1 (if tail_ok k lo hi r then w else 1) = true ->
                                 (if tail_ok k lo hi (r +++ t) then w else 1) = (if tail_ok k lo hi r then w else 1)).
  { intros k lo hi w Hw. destruct (tail_ok k lo hi r) eqn:T; [|cbn in Hw; discriminate].
    now rewrite (tail_ok_app k lo hi r t T). }
  destruct (Nat.ltb b 224); [now apply Hbr|].
  destruct (Nat.eqb b 224); [now apply Hbr|].
  destruct (Nat.eqb b 237); [now apply Hbr|].
  destruct (Nat.ltb b 240); [now apply Hbr|].
  destruct (Nat.eqb b 240); [now apply Hbr|].
  destruct (Nat.ltb b 244); [now apply Hbr|].
  destruct (Nat.eqb b 244); [now apply Hbr|].
  reflexivity.
Qed.

(* [scan s 0 0 = Some n]: s is valid UTF-8 and holds n characters *)
Fixpoint scan (s : string) (skip n : nat) : option nat :=
  match s with
  | EmptyString => if Nat.eqb skip 0 then Some n else None
  | String c r =>
    match skip with
    | S k => scan r k n
    | 0 => if rune_good s then scan r (rune_width s - 1) (S n) else None
    end
  end.

Lemma scan_ge : forall s skip n m, scan s skip n = Some m -> n <= m.
Proof.
  induction s as [|c r IH]; intros skip n m H; cbn [scan] in H.
  - destruct (Nat.eqb skip 0); inversion H; lia.
  - destruct skip as [|k]; [|eauto]. destruct (rune_good (String c r)); [|discriminate]. apply IH in H. lia.
Qed.

Lemma byte_offset_from_zero : forall r off, byte_offset_from r 0 0 off = off.
Proof. destruct r; reflexivity. Qed.

Lemma byte_offset_from_valid_prefix : forall p skip n m col off r,
    scan p skip n = Some m -> m - n <= col ->
    byte_offset_from (p +++ r) skip col off = byte_offset_from r 0 (col - (m - n)) (off + String.length p).
Proof.
  induction p as [|c p IH]; intros skip n m col off r H Hc; cbn [scan] in H.
  - destruct (Nat.eqb skip 0) eqn:E; [|discriminate]. apply Nat.eqb_eq in E. subst skip. inversion H; subst m.
    cbn [String.append String.length]. f_equal; lia.
  - cbn [String.append String.length byte_offset_from]. destruct skip as [|k].
    + destruct (rune_good (String c p)) eqn:Eg; [|discriminate].
      pose proof (scan_ge _ _ _ _ H) as Hge.
      destruct col as [|col']; [lia|].
      change (String c (p +++ r)) with (String c p +++ r). rewrite rune_width_app by assumption.
      rewrite (IH _ _ _ col' (S off) r H) by lia. f_equal; lia.
    + rewrite (IH _ _ _ col (S off) r H) by lia. f_equal; lia.
Qed.

(* the column of a character boundary after a valid UTF-8 prefix is converted to the byte length of the prefix,
   whatever follows it *)
Theorem byte_offset_valid_prefix : forall p r m, scan p 0 0 = Some m -> byte_offset (p +++ r) m = String.length p.
Proof.
  intros p r m H. unfold byte_offset. rewrite (byte_offset_from_valid_prefix p 0 0 m m 0 r H) by lia.
  replace (m - (m - 0)) with 0 by lia. now rewrite byte_offset_from_zero.
Qed.

(* character column of byte offset k of a line (None: k is beyond the line or not after valid UTF-8) *)
Definition col_at (l : string) (k : nat) : option nat :=
  if Nat.leb k (String.length l) then scan (take k l) 0 0 else None.

Lemma col_at_byte_offset : forall l k c t,
    col_at l k = Some c -> take k t = take k l -> k <= String.length t -> byte_offset t c = k.
Proof.
  unfold col_at. intros l k c t H Ht Hk. destruct (Nat.leb k (String.length l)) eqn:E; [|discriminate].
  apply Nat.leb_le in E. rewrite <- (take_drop k t), Ht.
  rewrite (byte_offset_valid_prefix _ _ _ H). rewrite length_take. lia.
Qed.

(* one-byte characters only: the character column IS the byte offset *)
Definition is_ascii_byte (c : ascii) : bool := Nat.ltb (nat_of_ascii c) 128.
Fixpoint all_ascii (s : string) : bool :=
  match s with EmptyString => true | String c r => is_ascii_byte c && all_ascii r end.

Lemma scan_ascii : forall s n, all_ascii s = true -> scan s 0 n = Some (n + String.length s).
Proof.
  induction s as [|c r IH]; intros n H; cbn [scan all_ascii String.length] in *; [cbn; f_equal; lia|].
  apply andb_true_iff in H. destruct H as [H1 H2]. unfold is_ascii_byte in H1.
  cbn [rune_good]. rewrite H1. cbn [orb].
  assert (rune_width (String c r) = 1) as ->.
  { unfold rune_width. apply Nat.ltb_lt in H1. replace (Nat.ltb (nat_of_ascii c) 194) with true; [reflexivity|].
    symmetry. apply Nat.ltb_lt. lia. }
  cbn. rewrite IH by assumption. f_equal. lia.
Qed.

Theorem ascii_prefix_column_is_byte_offset : forall l k,
    k <= String.length l -> all_ascii (take k l) = true -> col_at l k = Some k.
Proof.
  intros l k Hk Ha. unfold col_at. replace (Nat.leb k (String.length l)) with true by (symmetry; now apply Nat.leb_le).
  rewrite scan_ascii by assumption. rewrite length_take. f_equal. lia.
Qed.

(* ------------------------------------------------------------------ the splice *)
(* no byte before the start offset and none after the stop offset changes *)
Theorem splice_keeps_outside : forall l a b n,
    let l' := splice_line l a b n in
    take (byte_offset l a) l' = take (byte_offset l a) l /\
    drop (byte_offset l a + String.length n) l' = drop (byte_offset l b) l /\
    String.length l' + byte_offset l b = String.length l + byte_offset l a + String.length n.
Proof.
  intros l a b n. cbv zeta. unfold splice_line.
  pose proof (byte_offset_le_length l a) as Ha. pose proof (byte_offset_le_length l b) as Hb.
  set (s := byte_offset l a) in *. set (t := byte_offset l b) in *.
  assert (Hlt : String.length (take s l) = s) by (rewrite length_take; lia).
  repeat split.
  - rewrite <- Hlt at 1. apply take_app_exact.
  - rewrite drop_app_ge by lia. rewrite Hlt. replace (s + String.length n - s) with (String.length n) by lia.
    apply drop_app_exact.
  - rewrite !length_append, Hlt, length_drop. lia.
Qed.

Lemma splice_no_nl : forall l a b n, no_nl l = true -> no_nl n = true -> no_nl (splice_line l a b n) = true.
Proof.
  intros l a b n Hl Hn. unfold splice_line. rewrite !no_nl_app, Hn, no_nl_take, no_nl_drop by assumption. reflexivity.
Qed.

(* ------------------------------------------------------------------ one line of a file is rewritten *)
Fixpoint set_nth (ls : list string) (i : nat) (x : string) : list string :=
  match ls with
  | [] => []
  | l :: r => match i with 0 => x :: r | S i' => l :: set_nth r i' x end
  end.

Lemma set_nth_length : forall ls i x, List.length (set_nth ls i x) = List.length ls.
Proof. induction ls; destruct i; simpl; intros; auto. Qed.

Lemma nth_set_nth_same : forall ls i x, i < List.length ls -> nth i (set_nth ls i x) "" = x.
Proof. induction ls; destruct i; simpl; intros; try lia; auto. apply IHls. lia. Qed.

Lemma nth_set_nth_other : forall ls i j x, i <> j -> nth j (set_nth ls i x) "" = nth j ls "".
Proof. induction ls; destruct i; destruct j; simpl; intros; try lia; auto. Qed.

Lemma set_nth_beyond : forall ls i x, List.length ls <= i -> set_nth ls i x = ls.
Proof. induction ls as [|l r IH]; intros i x H; cbn in *; auto. destruct i; [lia|]. f_equal. apply IH. lia. Qed.

Lemma update_nth_set : forall ls i a b n,
    update_nth ls i a b n = set_nth ls i (splice_line (nth i ls "") a b n).
Proof. induction ls as [|l r IH]; intros i a b n; destruct i; cbn [update_nth set_nth nth]; auto. now rewrite IH. Qed.

Lemma forallb_set_nth : forall (p : string -> bool) ls i x,
    forallb p ls = true -> (i < List.length ls -> p x = true) -> forallb p (set_nth ls i x) = true.
Proof.
  induction ls as [|l r IH]; intros i x H Hx; simpl in *; auto.
  apply andb_true_iff in H. destruct H as [H1 H2]. destruct i; simpl.
  - rewrite Hx by lia. exact H2.
  - rewrite H1. apply IH; auto. intros. apply Hx. lia.
Qed.

Lemma forallb_nth : forall (p : string -> bool) ls i, forallb p ls = true -> i < List.length ls -> p (nth i ls "") = true.
Proof.
  induction ls as [|l r IH]; intros i H Hi; simpl in *; [lia|].
  apply andb_true_iff in H. destruct H as [H1 H2]. destruct i; auto. apply IH; auto. lia.
Qed.

Lemma update_nth_keeps_lines : forall ls i a b n,
    ls <> [] -> forallb no_nl ls = true -> no_nl n = true ->
    update_nth ls i a b n <> [] /\ forallb no_nl (update_nth ls i a b n) = true.
Proof.
  intros ls i a b n Hne Hall Hn. rewrite update_nth_set. split.
  - intros E. apply (f_equal (@List.length string)) in E. rewrite set_nth_length in E. destruct ls; [contradiction|discriminate].
  - apply forallb_set_nth; [assumption|]. intros Hi. apply splice_no_nl; [|assumption]. now apply forallb_nth.
Qed.

(* ------------------------------------------------------------------ updateSelfRefs on the contents of a file *)
(* after one call the file has the same number of lines, every other line is byte for byte the old one, and
   the addressed line is line[:start] + new + line[stop:] *)
Theorem update_content_spec : forall input p n,
    no_nl n = true ->
    let ls := split_nl input in
    let ls' := split_nl (update_content input p n) in
    List.length ls' = List.length ls /\
    (forall j, S j <> p_sl p -> nth j ls' "" = nth j ls "") /\
    (1 <= p_sl p <= List.length ls ->
     nth (p_sl p - 1) ls' "" = splice_line (nth (p_sl p - 1) ls "") (p_sc p) (p_ec p) n).
Proof.
  unfold update_content. intros input p n Hn. cbv zeta.
  destruct (p_sl p) as [|i] eqn:Esl.
  - rewrite join_split_nl. split; [reflexivity|]. split; [reflexivity|intros; lia].
  - destruct (update_nth_keeps_lines (split_nl input) i (p_sc p) (p_ec p) n
                                     (split_nl_nonempty input) (split_nl_lines_no_nl input) Hn) as [Hne Hall].
    rewrite (split_join_nl _ Hne Hall). rewrite update_nth_set.
    split; [apply set_nth_length|]. split.
    + intros j Hj. apply nth_set_nth_other. lia.
    + intros Hr. replace (S i - 1) with i by lia. apply nth_set_nth_same. lia.
Qed.

(* a position outside the file (line 0, or beyond the last line) leaves the file byte for byte *)
Theorem update_content_outside : forall input p n,
    p_sl p = 0 \/ List.length (split_nl input) < p_sl p -> update_content input p n = input.
Proof.
  unfold update_content. intros input p n H. destruct (p_sl p) as [|i] eqn:E.
  - now rewrite join_split_nl.
  - destruct H as [H|H]; [discriminate|]. rewrite update_nth_set.
    rewrite set_nth_beyond by lia.
    now rewrite join_split_nl.
Qed.

(* ------------------------------------------------------------------ the sequence of rewrites of ONE file *)
Definition edit : Type := (position * string)%type.

Fixpoint exec1 (c : string) (es : list edit) : string :=
  match es with
  | [] => c
  | (p, n) :: r => exec1 (update_content c p n) r
  end.

Fixpoint exec_lines (ls : list string) (es : list edit) : list string :=
  match es with
  | [] => ls
  | (p, n) :: r =>
    match p_sl p with
    | 0 => exec_lines ls r
    | S i => exec_lines (update_nth ls i (p_sc p) (p_ec p) n) r
    end
  end.

Definition names_no_nl (es : list edit) : bool := forallb (fun e => no_nl (snd e)) es.

(* reading, splitting, joining and writing the file after every site is the same as keeping the
   lines in memory (new names hold no line feed) *)
Lemma exec1_as_lines_gen : forall es ls,
    names_no_nl es = true -> ls <> [] -> forallb no_nl ls = true ->
    exec1 (join_nl ls) es = join_nl (exec_lines ls es).
Proof.
  induction es as [|[p n] r IH]; intros ls Hn Hne Hall; cbn [exec1 exec_lines]; auto.
  cbn [names_no_nl forallb snd] in Hn. apply andb_true_iff in Hn. destruct Hn as [Hn Hr].
  unfold update_content. rewrite split_join_nl by assumption.
  destruct (p_sl p) as [|i].
  - apply IH; assumption.
  - destruct (update_nth_keeps_lines ls i (p_sc p) (p_ec p) n Hne Hall Hn) as [Hne' Hall'].
    apply IH; assumption.
Qed.

Theorem exec1_as_lines : forall es c,
    names_no_nl es = true -> exec1 c es = join_nl (exec_lines (split_nl c) es).
Proof.
  intros es c Hn. rewrite <- (join_split_nl c) at 1.
  apply exec1_as_lines_gen; [assumption|apply split_nl_nonempty|apply split_nl_lines_no_nl].
Qed.

(* ---- the lines of a file are rewritten independently of each other ---- *)
Definition edit_on (i : nat) (e : edit) : bool := Nat.eqb (p_sl (fst e)) (S i).
Definition edits_on (i : nat) (es : list edit) : list edit := filter (edit_on i) es.

(* the sites of one line, in the order they are applied, each on the text the previous ones left *)
Fixpoint apply_line (l : string) (es : list edit) : string :=
  match es with
  | [] => l
  | (p, n) :: r => apply_line (splice_line l (p_sc p) (p_ec p) n) r
  end.

Lemma map_nth_seq : forall ls : list string, map (fun i => nth i ls "") (seq 0 (List.length ls)) = ls.
Proof.
  intros ls. apply nth_ext with (d := "") (d' := "").
  - now rewrite map_length, seq_length.
  - intros k Hk. rewrite map_length, seq_length in Hk.
    rewrite (nth_indep _ "" (nth 0 ls "")) by (now rewrite map_length, seq_length).
    rewrite (map_nth (fun i => nth i ls "") (seq 0 (List.length ls)) 0 k).
    rewrite seq_nth by assumption. reflexivity.
Qed.

Theorem exec_lines_independent : forall es ls,
    exec_lines ls es = map (fun i => apply_line (nth i ls "") (edits_on i es)) (seq 0 (List.length ls)).
Proof.
  induction es as [|[p n] r IH]; intros ls; cbn [exec_lines].
  - cbn [edits_on filter apply_line]. symmetry. apply map_nth_seq.
  - destruct (p_sl p) as [|i0] eqn:Esl.
    + rewrite IH. apply map_ext. intros i. unfold edits_on. cbn [filter]. unfold edit_on at 2. cbn [fst]. rewrite Esl.
      reflexivity.
    + rewrite IH. rewrite update_nth_set, set_nth_length. apply map_ext_in. intros i Hi.
      apply in_seq in Hi. unfold edits_on. cbn [filter]. unfold edit_on at 2. cbn [fst]. rewrite Esl.
      destruct (Nat.eqb (S i0) (S i)) eqn:E.
      * apply Nat.eqb_eq in E. inversion E; subst i0. cbn [apply_line]. rewrite nth_set_nth_same by lia. reflexivity.
      * apply Nat.eqb_neq in E. rewrite nth_set_nth_other by lia. reflexivity.
Qed.

Lemma apply_line_app : forall es1 es2 l, apply_line l (es1 ++ es2) = apply_line (apply_line l es1) es2.
Proof. induction es1 as [|[p n] r IH]; intros es2 l; cbn [app apply_line]; auto. Qed.

(* ------------------------------------------------------------------ the sites of a line, right to left *)
Definition opt_is (o : option nat) (n : nat) : bool := match o with Some m => Nat.eqb m n | None => false end.

(* an edit addresses the candidate token c of the ORIGINAL line l: its recorded character columns are the
   columns of the token's first byte and of the byte after its last one, and it writes the token's new name *)
Definition edit_matches (l : string) (e : edit) (c : cand) : bool :=
  opt_is (col_at l (k_col c)) (p_sc (fst e)) && opt_is (col_at l (k_col c + k_len c)) (p_ec (fst e)) &&
  String.eqb (snd e) (k_new c).

Fixpoint forall2b {A B : Type} (f : A -> B -> bool) (la : list A) (lb : list B) : bool :=
  match la, lb with
  | [], [] => true
  | a :: ra, b :: rb => f a b && forall2b f ra rb
  | _, _ => false
  end.

Lemma forall2b_snoc_inv : forall (A B : Type) (f : A -> B -> bool) lb la b,
    forall2b f la (lb ++ [b]) = true ->
    exists la1 a, la = la1 ++ [a] /\ forall2b f la1 lb = true /\ f a b = true.
Proof.
  induction lb as [|b0 lb IH]; intros la b H.
  - destruct la as [|a [|a' la]]; cbn in H; try discriminate.
    + apply andb_true_iff in H. destruct H as [H _]. exists [], a. auto.
    + apply andb_true_iff in H. destruct H as [_ H]. discriminate.
  - destruct la as [|a la]; cbn [app forall2b] in H; [discriminate|].
    apply andb_true_iff in H. destruct H as [H1 H2]. destruct (IH la b H2) as [la1 [a' [-> [H3 H4]]]].
    exists (a :: la1), a'. cbn [app forall2b]. rewrite H1, H3. auto.
Qed.

Lemma take_take_le : forall a b s, a <= b -> take a (take b s) = take a s.
Proof.
  induction a; intros b s H; cbn; auto. destruct b; [lia|]. destruct s; cbn; auto. f_equal. apply IHa. lia.
Qed.

Lemma take_add : forall a b t, take a t +++ take b (drop a t) = take (a + b) t.
Proof. induction a; intros b t; simpl; auto. destruct t; simpl; [now destruct b|]. now rewrite IHa. Qed.

Lemma take_prefix_add : forall pos s l, pos <= s -> take pos l +++ take (s - pos) (drop pos l) = take s l.
Proof. intros pos s l H. rewrite take_add. f_equal. lia. Qed.

(* THE KEY LEMMA.  cs: the candidate tokens of the line from byte pos on (increasing, not overlapping);
   es: edits for exactly the sites among them, in DECREASING column order.  Applying them one after the other,
   each with its columns converted on the CURRENT text, gives the original with exactly the sites replaced --
   names of any length, any (valid UTF-8) text before, between and after the tokens *)
Lemma apply_right_to_left : forall cs l pos es,
    cands_wf l pos cs = true ->
    forall2b (edit_matches l) es (rev (filter k_site cs)) = true ->
    apply_line l es = take pos l +++ rebuild l pos cs (map k_site cs).
Proof.
  induction cs as [|c r IH]; intros l pos es Hwf Hm.
  - cbn in Hm. destruct es; [|discriminate]. cbn [apply_line rebuild map]. symmetry. apply take_drop.
  - cbn [cands_wf] in Hwf. apply andb_true_iff in Hwf. destruct Hwf as [Hwf Hr].
    apply andb_true_iff in Hwf. destruct Hwf as [H1 H2]. apply Nat.leb_le in H1, H2.
    set (s := k_col c) in *. set (q := k_col c + k_len c) in *.
    cbn [rebuild map]. cbn [filter] in Hm. fold s. fold q. destruct (k_site c) eqn:Esite.
    + cbn [rev] in Hm. destruct (forall2b_snoc_inv _ _ _ _ _ _ Hm) as [es1 [e [-> [Hm1 He]]]].
      rewrite apply_line_app. rewrite (IH l q es1 Hr Hm1).
      destruct e as [p n]. cbn [apply_line]. unfold edit_matches in He. cbn [fst snd] in He.
      apply andb_true_iff in He. destruct He as [He Hn]. apply andb_true_iff in He. destruct He as [Hs Hq].
      apply String.eqb_eq in Hn. subst n. fold s in Hs. fold q in Hq.
      destruct (col_at l s) as [cs0|] eqn:Ecs; [|discriminate]. apply Nat.eqb_eq in Hs. subst cs0.
      destruct (col_at l q) as [cq0|] eqn:Ecq; [|discriminate]. apply Nat.eqb_eq in Hq. subst cq0.
      set (R := rebuild l q r (map k_site r)).
      assert (Hlq : String.length (take q l) = q) by (rewrite length_take; lia).
      unfold splice_line.
      rewrite (col_at_byte_offset l s (p_sc p) (take q l +++ R) Ecs).
      * rewrite (col_at_byte_offset l q (p_ec p) (take q l +++ R) Ecq).
        -- rewrite take_app_le by lia. rewrite take_take_le by lia.
           rewrite drop_app_ge by lia. rewrite Hlq, Nat.sub_diag. cbn [drop].
           rewrite <- (take_prefix_add pos s l H1). rewrite append_assoc. reflexivity.
        -- rewrite <- Hlq at 1. apply take_app_exact.
        -- rewrite length_append. lia.
      * rewrite take_app_le by lia. apply take_take_le. lia.
      * rewrite length_append. lia.
    + rewrite (IH l q es Hr Hm).
      assert (Hq : take q l = take pos l +++ take (s - pos) (drop pos l) +++ take (k_len c) (drop s l)).
      { rewrite <- append_assoc, take_prefix_add by lia. rewrite take_add. reflexivity. }
      rewrite Hq. rewrite !append_assoc. reflexivity.
Qed.

(* ------------------------------------------------------------------ the whole tree *)
Definition edits_for (path : string) (steps : list step) : list edit :=
  flat_map (fun s => match s with
                     | SEdit q p n => if String.eqb q path then [(p, n)] else []
                     | SPanic _ => []
                     end) steps.

Definition steps_are_edits (files : gomap string) (steps : list step) : bool :=
  forallb (fun s => match s with SEdit q _ _ => mhas files q | SPanic _ => false end) steps.

Lemma mkeys_mput_present : forall (m : gomap string) k v, mhas m k = true -> mkeys (mput m k v) = mkeys m.
Proof.
  unfold mhas, mkeys. induction m as [|[k0 v0] r IH]; intros k v H; simpl in *; [discriminate|].
  destruct (String.eqb k0 k) eqn:E; simpl; auto. f_equal. apply IH. exact H.
Qed.

Lemma mhas_mput : forall (m : gomap string) k v k', mhas m k' = true -> mhas (mput m k v) k' = true.
Proof.
  unfold mhas. intros m k v k' H. rewrite mget_mput. destruct (String.eqb k k'); auto.
Qed.

(* a file no site points into is byte for byte untouched -- whatever happens elsewhere, panic included *)
Theorem exec_untouched : forall steps files path,
    edits_for path steps = [] -> mget (fst (exec files steps)) path = mget files path.
Proof.
  induction steps as [|s r IH]; intros files path He; cbn [exec]; auto.
  destruct s as [q p n|c]; [|reflexivity].
  cbn [edits_for flat_map] in He.
  destruct (String.eqb q path) eqn:Eq; [discriminate|]. cbn [app] in He.
  destruct (mget files q) as [input|]; [|reflexivity].
  rewrite IH by exact He. rewrite mget_mput, Eq. reflexivity.
Qed.

(* the tree is rewritten file by file; no site can make the refactoring panic *)
Theorem exec_per_file : forall steps files,
    steps_are_edits files steps = true ->
    snd (exec files steps) = OOk /\
    mkeys (fst (exec files steps)) = mkeys files /\
    forall p c, mget files p = Some c -> mget (fst (exec files steps)) p = Some (exec1 c (edits_for p steps)).
Proof.
  induction steps as [|s r IH]; intros files Hs.
  - cbn. repeat split; auto.
  - cbn [steps_are_edits forallb] in Hs. apply andb_true_iff in Hs. destruct Hs as [Hs1 Hs2].
    destruct s as [q pos n|c]; [|discriminate].
    cbn [exec]. unfold mhas in Hs1. destruct (mget files q) as [input|] eqn:Eq; [|discriminate].
    assert (Hhas : mhas files q = true) by (unfold mhas; now rewrite Eq).
    destruct (IH (mput files q (update_content input pos n))) as [Ho [Hk Hf]].
    + unfold steps_are_edits in *. rewrite forallb_forall in *. intros s Hin. specialize (Hs2 s Hin).
      destruct s; auto. now apply mhas_mput.
    + split; [exact Ho|]. split; [now rewrite Hk, mkeys_mput_present|].
      intros p c Hp. cbn [edits_for flat_map]. destruct (String.eqb q p) eqn:Eqp.
      * apply String.eqb_eq in Eqp. subst p. rewrite Eq in Hp. inversion Hp; subst c.
        cbn [app exec1]. apply Hf. now rewrite mget_mput_same.
      * cbn [app]. apply Hf. rewrite mget_mput, Eqp. exact Hp.
Qed.

Lemma mget_in : forall (m : gomap string) k v, mget m k = Some v -> In (k, v) m.
Proof.
  induction m as [|[k0 v0] r IH]; intros k v H; simpl in *; [discriminate|].
  destruct (String.eqb k0 k) eqn:E.
  - apply String.eqb_eq in E. inversion H; subst. now left.
  - right. now apply IH.
Qed.

(* a rename file without any "old -> new" line changes nothing *)
Theorem rename_without_request : forall files deps conf,
    parse_relates conf = [] -> rename_method files deps conf = (files, OOk).
Proof.
  intros files deps conf H. unfold rename_method. rewrite H.
  assert (plan deps [] = []) as ->.
  { unfold plan. induction deps; simpl; auto. }
  reflexivity.
Qed.

(* ------------------------------------------------------------------ which positions the plan addresses, in which order *)
Definition decl_site (node : ds) (oi : minfo) (p : position) : Prop :=
  d_pkg node +++ d_node node = mi_pkg oi +++ mi_class oi /\
  exists m, In m (d_funcs node) /\ f_name m = mi_method oi /\ p = f_pos m.

Definition call_site (node : ds) (oi : minfo) (p : position) : Prop :=
  exists m c, In m (d_funcs node) /\ In c (f_calls m) /\
              c_pkg c +++ c_node c = mi_pkg oi +++ mi_class oi /\ c_fn c = mi_method oi /\ p = c_pos c.

Lemma rel_sites_spec : forall node oi ni p n,
    In (p, n) (rel_sites node oi ni) <-> n = mi_method ni /\ (decl_site node oi p \/ call_site node oi p).
Proof.
  intros node oi ni p n. unfold rel_sites. rewrite in_app_iff. split.
  - intros [Hin|Hin].
    + destruct (String.eqb (d_pkg node +++ d_node node) (mi_pkg oi +++ mi_class oi)) eqn:Ek; [|contradiction].
      apply String.eqb_eq in Ek. apply in_map_iff in Hin. destruct Hin as [m [Hm Hf]].
      apply filter_In in Hf. destruct Hf as [Hf Hname]. apply String.eqb_eq in Hname.
      inversion Hm; subst. split; [reflexivity|]. left. split; [exact Ek|]. exists m. auto.
    + apply in_flat_map in Hin. destruct Hin as [m [Hm Hin]]. apply in_map_iff in Hin. destruct Hin as [c [Hc Hf]].
      apply filter_In in Hf. destruct Hf as [Hf Hb]. apply andb_true_iff in Hb. destruct Hb as [Hb1 Hb2].
      apply String.eqb_eq in Hb1, Hb2. inversion Hc; subst. split; [reflexivity|]. right. exists m, c. auto.
  - intros [-> [[Hk [m [Hm [Hname ->]]]]|[m [c [Hm [Hc [Hk [Hfn ->]]]]]]]].
    + left. apply String.eqb_eq in Hk. rewrite Hk. apply in_map_iff. exists m. split; [reflexivity|].
      apply filter_In. split; [assumption|]. now apply String.eqb_eq.
    + right. apply in_flat_map. exists m. split; [assumption|]. apply in_map_iff. exists c. split; [reflexivity|].
      apply filter_In. split; [assumption|]. apply andb_true_iff. split; now apply String.eqb_eq.
Qed.

Lemma site_le_total : forall a b, site_le a b = true \/ site_le b a = true.
Proof.
  intros a b. unfold site_le.
  destruct (Nat.lt_trichotomy (p_sl (fst a)) (p_sl (fst b))) as [H|[H|H]].
  - left. apply orb_true_iff. left. now apply Nat.ltb_lt.
  - rewrite H, Nat.eqb_refl, Nat.ltb_irrefl. cbn [orb andb].
    destruct (Nat.le_ge_cases (p_sc (fst a)) (p_sc (fst b))); [right|left]; now apply Nat.leb_le.
  - right. apply orb_true_iff. left. now apply Nat.ltb_lt.
Qed.

Lemma site_le_trans : forall a b c, site_le a b = true -> site_le b c = true -> site_le a c = true.
Proof.
  intros a b c. unfold site_le. intros H1 H2.
  apply orb_true_iff in H1. apply orb_true_iff in H2. apply orb_true_iff.
  destruct H1 as [H1|H1], H2 as [H2|H2];
    rewrite ?Nat.ltb_lt, ?andb_true_iff, ?Nat.eqb_eq, ?Nat.leb_le in *; try (left; lia).
  right. split; lia.
Qed.

(* the sites of a node are applied line by line and, on a line, from right to left *)
Theorem node_sites_sorted : forall node infos,
    StronglySorted (fun a b => site_le a b = true) (node_sites node infos).
Proof. intros. unfold node_sites. apply (sort_by_sorted site_le site_le_total site_le_trans). Qed.

(* exactly the declarations of the old name in the class and the calls the code model attributes
   to it are addressed, each in the file of the node that holds it, with the new method name *)
Theorem plan_addresses_exactly_the_sites : forall nodes rels infos path p n,
    rel_infos rels = Some infos ->
    (In (SEdit path p n) (plan nodes rels) <->
     exists node oi ni,
       In node nodes /\ In (oi, ni) infos /\
       path = d_path node /\ n = mi_method ni /\ (decl_site node oi p \/ call_site node oi p)).
Proof.
  intros nodes rels infos path p n Hinf. unfold plan. rewrite in_flat_map. unfold node_steps. rewrite Hinf. split.
  - intros [node [Hn Hin]]. apply in_map_iff in Hin. destruct Hin as [[p' n'] [Heq Hin]]. inversion Heq; subst.
    unfold node_sites in Hin.
    apply (Permutation_in _ (sort_by_perm site_le site_le_total site_le_trans _)) in Hin.
    apply in_flat_map in Hin. destruct Hin as [[oi ni] [Hi Hin]]. cbn [fst snd] in Hin.
    apply rel_sites_spec in Hin. destruct Hin as [-> Hs]. exists node, oi, ni. auto.
  - intros [node [oi [ni [Hn [Hi [-> [-> Hs]]]]]]]. exists node. split; [assumption|].
    apply in_map_iff. exists (p, mi_method ni). split; [reflexivity|]. unfold node_sites.
    apply (Permutation_in _ (Permutation_sym (sort_by_perm site_le site_le_total site_le_trans _))).
    apply in_flat_map. exists (oi, ni). split; [assumption|]. cbn [fst snd]. apply rel_sites_spec. auto.
Qed.

(* the requests of the plan are the requests of the rename file, with the names split at the dots *)
Lemma rel_infos_spec : forall rels infos oi ni,
    rel_infos rels = Some infos ->
    (In (oi, ni) infos <-> exists rel, In rel rels /\ build_method_package_info (r_old rel) = Some oi /\
                                      build_method_package_info (r_new rel) = Some ni).
Proof.
  induction rels as [|r rest IH]; intros infos oi ni H; cbn [rel_infos] in H.
  - inversion H; subst. split; [contradiction|]. intros [rel [[] _]].
  - destruct (build_method_package_info (r_old r)) as [o|] eqn:Eo; [|discriminate].
    destruct (build_method_package_info (r_new r)) as [n|] eqn:En; [|discriminate].
    destruct (rel_infos rest) as [l|] eqn:El; [|discriminate]. inversion H; subst. split.
    + intros [Heq|Hin].
      * inversion Heq; subst. exists r. split; [now left|auto].
      * apply (IH l oi ni eq_refl) in Hin. destruct Hin as [rel [Hr Hb]]. exists rel. split; [now right|auto].
    + intros [rel [[->|Hr] [Ho Hn]]].
      * left. congruence.
      * right. apply (IH l oi ni eq_refl). eauto.
Qed.

(* a request whose old or new name has no dot panics before anything is written *)
Theorem plan_undotted_name_panics : forall node nodes rels files,
    rel_infos rels = None ->
    exec files (plan (node :: nodes) rels) = (files, OPanic "index out of range").
Proof.
  intros node nodes rels files H. unfold plan. cbn [flat_map]. unfold node_steps at 1. rewrite H. reflexivity.
Qed.
(* ------------------------------------------------------------------ the specification decider *)
(* soundness of [explain]: an accepted line IS the original with the flagged candidates replaced *)
Theorem explain_sound : forall cs orig obs pos flags,
    explain orig obs pos cs = Some flags ->
    obs = rebuild orig pos cs flags /\ List.length flags = List.length cs.
Proof.
  induction cs as [|c r IH]; intros orig obs pos flags H; cbn [explain] in H.
  - destruct (String.eqb (drop pos orig) obs) eqn:E; [|discriminate]. inversion H; subst.
    apply String.eqb_eq in E. cbn. auto.
  - remember (take (k_col c - pos) (drop pos orig)) as gap eqn:Hgap.
    destruct (has_prefix gap obs) eqn:Eg; [|discriminate].
    apply has_prefix_split in Eg.
    remember (drop (String.length gap) obs) as obs1 eqn:Hobs1.
    remember (take (k_len c) (drop (k_col c) orig)) as old eqn:Hold0.
    assert (Hnew : forall l, (if has_prefix (k_new c) obs1
                              then match explain orig (drop (String.length (k_new c)) obs1) (k_col c + k_len c) r with
                                   | Some l => Some (true :: l) | None => None end
                              else None) = Some l ->
                             obs = rebuild orig pos (c :: r) l /\ List.length l = List.length (c :: r)).
    { intros l Hl. destruct (has_prefix (k_new c) obs1) eqn:Ep; [|discriminate].
      destruct (explain orig (drop (String.length (k_new c)) obs1) (k_col c + k_len c) r) as [l'|] eqn:Ee; [|discriminate].
      inversion Hl; subst l. apply IH in Ee. destruct Ee as [Ee El]. apply has_prefix_split in Ep.
      cbn [rebuild List.length]. rewrite <- Hgap. split; [|now rewrite El].
      rewrite Eg. f_equal. rewrite Ep. f_equal. exact Ee. }
    assert (Hold : forall l, (if has_prefix old obs1
                              then match explain orig (drop (String.length old) obs1) (k_col c + k_len c) r with
                                   | Some l => Some (false :: l) | None => None end
                              else None) = Some l ->
                             obs = rebuild orig pos (c :: r) l /\ List.length l = List.length (c :: r)).
    { intros l Hl. destruct (has_prefix old obs1) eqn:Ep; [|discriminate].
      destruct (explain orig (drop (String.length old) obs1) (k_col c + k_len c) r) as [l'|] eqn:Ee; [|discriminate].
      inversion Hl; subst l. apply IH in Ee. destruct Ee as [Ee El]. apply has_prefix_split in Ep.
      cbn [rebuild List.length]. rewrite <- Hgap, <- Hold0. split; [|now rewrite El].
      rewrite Eg. f_equal. rewrite Ep. f_equal. exact Ee. }
    destruct (k_site c).
    + destruct (if has_prefix (k_new c) obs1 then _ else None) as [l|] eqn:E1.
      * inversion H; subst. now apply Hnew.
      * now apply Hold.
    + destruct (if has_prefix old obs1 then _ else None) as [l|] eqn:E1.
      * inversion H; subst. now apply Hold.
      * now apply Hnew.
Qed.

Lemma flag_clauses_nil : forall cs flags,
    List.length flags = List.length cs -> flag_clauses cs flags = [] -> flags = map k_site cs.
Proof.
  induction cs as [|c r IH]; intros flags Hl H; destruct flags as [|b fl]; try discriminate; auto.
  unfold flag_clauses in H. cbn [combine flat_map fst snd] in H.
  apply app_eq_nil in H. destruct H as [H1 H2]. cbn [map]. f_equal.
  - destruct (k_site c), b; cbn in H1; try discriminate; reflexivity.
  - apply IH; [simpl in Hl; lia|exact H2].
Qed.

(* an empty verdict on a line means: the observed bytes are EXACTLY the expected ones *)
Theorem line_verdict_nil_exact : forall orig obs cs,
    line_verdict orig obs cs = [] -> obs = expected_line orig cs.
Proof.
  unfold line_verdict, expected_line. intros orig obs cs H.
  destruct (cands_wf orig 0 cs); cbn [negb] in H; [|discriminate].
  destruct (explain orig obs 0 cs) as [flags|] eqn:E; [|discriminate].
  apply explain_sound in E. destruct E as [E El]. rewrite (flag_clauses_nil cs flags El H) in E. exact E.
Qed.

(* and the decider accepts the expected bytes *)
Lemma explain_expected : forall cs orig pos,
    explain orig (rebuild orig pos cs (map k_site cs)) pos cs = Some (map k_site cs).
Proof.
  induction cs as [|c r IH]; intros orig pos; cbn [explain rebuild map].
  - now rewrite String.eqb_refl.
  - set (gap := take (k_col c - pos) (drop pos orig)).
    rewrite has_prefix_app, drop_app_exact.
    destruct (k_site c).
    + rewrite has_prefix_app, drop_app_exact, IH. reflexivity.
    + rewrite has_prefix_app, drop_app_exact, IH. reflexivity.
Qed.

Lemma flag_clauses_expected : forall cs, flag_clauses cs (map k_site cs) = [].
Proof.
  unfold flag_clauses. induction cs as [|c r IH]; cbn [map combine flat_map fst snd]; auto.
  rewrite IH. destruct (k_site c); reflexivity.
Qed.

Theorem line_verdict_expected : forall orig cs,
    cands_wf orig 0 cs = true -> line_verdict orig (expected_line orig cs) cs = [].
Proof.
  intros orig cs Hwf. unfold line_verdict, expected_line. rewrite Hwf. cbn [negb].
  rewrite explain_expected. apply flag_clauses_expected.
Qed.

(* line by line: an empty verdict means every line is the expected one, and conversely *)
Theorem lines_verdict_nil_exact : forall orig obs n cs,
    lines_verdict n orig obs cs = [] -> obs = expected_lines n orig cs.
Proof.
  induction orig as [|o orest IH]; intros obs n cs H; destruct obs as [|b brest]; cbn [lines_verdict expected_lines] in *;
    try discriminate; auto.
  apply app_eq_nil in H. destruct H as [H1 H2]. f_equal.
  - now apply line_verdict_nil_exact.
  - now apply IH.
Qed.

Fixpoint all_lines_wf (n : nat) (orig : list string) (cs : list cand) : bool :=
  match orig with
  | [] => true
  | o :: r => cands_wf o 0 (cands_of_line n cs) && all_lines_wf (S n) r cs
  end.

Theorem lines_verdict_expected : forall orig n cs,
    all_lines_wf n orig cs = true -> lines_verdict n orig (expected_lines n orig cs) cs = [].
Proof.
  induction orig as [|o r IH]; intros n cs H; cbn [lines_verdict expected_lines all_lines_wf] in *; auto.
  apply andb_true_iff in H. destruct H as [H1 H2]. rewrite line_verdict_expected by assumption.
  rewrite IH by assumption. reflexivity.
Qed.


(* ------------------------------------------------------------------ the model's bytes are the spec's expected bytes *)
Lemma expected_lines_length : forall ls n cs, List.length (expected_lines n ls cs) = List.length ls.
Proof. induction ls; intros; cbn [expected_lines List.length]; auto. Qed.

Lemma nth_expected_lines : forall ls n cs k, k < List.length ls ->
    nth k (expected_lines n ls cs) "" = expected_line (nth k ls "") (cands_of_line (n + k) cs).
Proof.
  induction ls as [|l r IH]; intros n cs k Hk; cbn [List.length] in Hk; [lia|].
  cbn [expected_lines]. destruct k; cbn [nth].
  - now rewrite Nat.add_0_r.
  - rewrite IH by lia. f_equal. f_equal. lia.
Qed.

Lemma all_lines_wf_nth : forall ls n cs k, all_lines_wf n ls cs = true -> k < List.length ls ->
    cands_wf (nth k ls "") 0 (cands_of_line (n + k) cs) = true.
Proof.
  induction ls as [|l r IH]; intros n cs k H Hk; cbn [List.length] in Hk; [lia|].
  cbn [all_lines_wf] in H. apply andb_true_iff in H. destruct H as [H1 H2]. destruct k; cbn [nth].
  - now rewrite Nat.add_0_r.
  - replace (n + S k) with (S n + k) by lia. apply IH; [assumption|lia].
Qed.

(* line i (0-based): the edits that address it, in the order the model applies them, are edits for exactly the
   site tokens of that line, from right to left, with the columns of those tokens *)
Definition line_agrees (ls : list string) (es : list edit) (cs : list cand) (i : nat) : bool :=
  forall2b (edit_matches (nth i ls "")) (edits_on i es) (rev (filter k_site (cands_of_line (S i) cs))).

Definition lines_agree (ls : list string) (es : list edit) (cs : list cand) : bool :=
  forallb (line_agrees ls es cs) (seq 0 (List.length ls)).

Theorem exec_lines_are_expected : forall ls es cs,
    lines_agree ls es cs = true -> all_lines_wf 1 ls cs = true ->
    exec_lines ls es = expected_lines 1 ls cs.
Proof.
  intros ls es cs Hag Hwf. rewrite exec_lines_independent. apply nth_ext with (d := "") (d' := "").
  - now rewrite map_length, seq_length, expected_lines_length.
  - intros k Hk. rewrite map_length, seq_length in Hk.
    rewrite (nth_indep _ "" (apply_line (nth 0 ls "") (edits_on 0 es))) by (now rewrite map_length, seq_length).
    rewrite (map_nth (fun i => apply_line (nth i ls "") (edits_on i es)) (seq 0 (List.length ls)) 0 k).
    rewrite seq_nth by assumption. cbn [Nat.add]. rewrite nth_expected_lines by assumption.
    unfold lines_agree in Hag. rewrite forallb_forall in Hag.
    assert (Hin : In k (seq 0 (List.length ls))) by (apply in_seq; lia).
    specialize (Hag k Hin). unfold line_agrees in Hag.
    pose proof (all_lines_wf_nth ls 1 cs k Hwf Hk) as Hw. cbn [Nat.add] in Hw.
    rewrite (apply_right_to_left _ _ 0 _ Hw Hag). reflexivity.
Qed.

(* THE MAIN THEOREM for one file: when, line by line, the edits the model applies are edits for exactly the
   specification's site tokens, from right to left, with the character columns of those tokens, then the
   sequence of read-modify-write steps leaves exactly the expected bytes -- several sites per line, old and new
   names of any length, multi-byte characters anywhere on the line *)
Theorem file_rewritten_exactly : forall f es,
    names_no_nl es = true ->
    lines_agree (split_nl (fs_orig f)) es (fs_cands f) = true ->
    all_lines_wf 1 (split_nl (fs_orig f)) (fs_cands f) = true ->
    exec1 (fs_orig f) es = expected_file f.
Proof.
  intros f es Hn Hag Hwf. rewrite exec1_as_lines by assumption.
  unfold expected_file. change lines_of with split_nl.
  rewrite (exec_lines_are_expected _ _ _ Hag Hwf). reflexivity.
Qed.

(* and the decider accepts the expected bytes of a well-formed file description *)
Lemma rebuild_no_nl : forall cs flags orig pos,
    no_nl orig = true -> forallb (fun c => no_nl (k_new c)) cs = true -> no_nl (rebuild orig pos cs flags) = true.
Proof.
  induction cs as [|c r IH]; intros flags orig pos Ho Hc; destruct flags as [|b fl]; cbn [rebuild];
    try (now apply no_nl_drop).
  cbn [forallb] in Hc. apply andb_true_iff in Hc. destruct Hc as [H1 H2].
  rewrite !no_nl_app, IH by assumption. rewrite no_nl_take by (now apply no_nl_drop).
  destruct b; [now rewrite H1|]. rewrite no_nl_take by (now apply no_nl_drop). reflexivity.
Qed.

Definition fspec_wf (f : fspec) : bool :=
  all_lines_wf 1 (split_nl (fs_orig f)) (fs_cands f) &&
  forallb (fun c => no_nl (k_new c)) (fs_cands f) &&
  forallb (fun c => Nat.leb 1 (k_line c) && Nat.leb (k_line c) (List.length (lines_of (fs_orig f)))) (fs_cands f).

Lemma forallb_filter : forall (A : Type) (p q : A -> bool) l, forallb p l = true -> forallb p (filter q l) = true.
Proof.
  induction l as [|x l IH]; simpl; intros H; auto. apply andb_true_iff in H. destruct H as [H1 H2].
  destruct (q x); simpl; rewrite ?H1; auto.
Qed.

Lemma expected_lines_no_nl : forall ls n cs,
    forallb no_nl ls = true -> forallb (fun c => no_nl (k_new c)) cs = true ->
    forallb no_nl (expected_lines n ls cs) = true.
Proof.
  induction ls as [|l r IH]; intros n cs Hl Hc; cbn [expected_lines forallb] in *; auto.
  apply andb_true_iff in Hl. destruct Hl as [H1 H2]. rewrite IH by assumption.
  unfold expected_line. rewrite rebuild_no_nl; auto. unfold cands_of_line. now apply forallb_filter.
Qed.

Theorem file_verdict_expected : forall f, fspec_wf f = true -> file_verdict f (expected_file f) = [].
Proof.
  intros f H. unfold fspec_wf in H. apply andb_true_iff in H. destruct H as [H H3].
  apply andb_true_iff in H. destruct H as [H1 H2].
  unfold file_verdict. rewrite H3. cbn [app]. unfold expected_file.
  change lines_of with split_nl.
  assert (Hs : split_nl (join nl (expected_lines 1 (split_nl (fs_orig f)) (fs_cands f))) =
               expected_lines 1 (split_nl (fs_orig f)) (fs_cands f)).
  { apply (split_join_nl (expected_lines 1 (split_nl (fs_orig f)) (fs_cands f))).
    - intros E. apply (f_equal (@List.length string)) in E. rewrite expected_lines_length in E.
      pose proof (split_nl_nonempty (fs_orig f)). destruct (split_nl (fs_orig f)); [contradiction|discriminate].
    - apply expected_lines_no_nl; [apply split_nl_lines_no_nl|assumption]. }
  rewrite Hs. now apply lines_verdict_expected.
Qed.

(* an empty verdict on a file means its observed bytes are exactly the expected ones *)
Theorem file_verdict_nil_exact : forall f obs, file_verdict f obs = [] -> obs = expected_file f.
Proof.
  intros f obs H. unfold file_verdict in H. apply app_eq_nil in H. destruct H as [_ H].
  apply lines_verdict_nil_exact in H. unfold expected_file. rewrite <- H.
  change lines_of with split_nl. symmetry. apply join_split_nl.
Qed.

(* ------------------------------------------------------------------ the model meets the specification *)
Definition specs_files (specs : list fspec) : gomap string := map (fun f => (fs_path f, fs_orig f)) specs.

Fixpoint distinct_strs (l : list string) : bool :=
  match l with
  | [] => true
  | x :: r => negb (str_mem x r) && distinct_strs r
  end.

Definition spec_ok (steps : list step) (f : fspec) : bool :=
  names_no_nl (edits_for (fs_path f) steps) &&
  lines_agree (split_nl (fs_orig f)) (edits_for (fs_path f) steps) (fs_cands f) && fspec_wf f.

Lemma mget_specs_files : forall specs f,
    distinct_strs (map fs_path specs) = true -> In f specs ->
    mget (specs_files specs) (fs_path f) = Some (fs_orig f).
Proof.
  induction specs as [|f0 r IH]; intros f Hd Hin; [contradiction|].
  cbn [map distinct_strs specs_files mget] in *. apply andb_true_iff in Hd. destruct Hd as [Hf Hd].
  apply negb_true_iff in Hf. destruct Hin as [->|Hin]; [now rewrite String.eqb_refl|].
  destruct (String.eqb (fs_path f0) (fs_path f)) eqn:E.
  - exfalso. apply String.eqb_eq in E.
    assert (str_mem (fs_path f0) (map fs_path r) = true).
    { apply str_mem_In. rewrite E. apply in_map_iff. eauto. }
    congruence.
  - now apply IH.
Qed.

Lemma flat_map_nil : forall (A B : Type) (g : A -> list B) l, (forall x, In x l -> g x = []) -> flat_map g l = [].
Proof.
  induction l as [|x l IH]; intros H; cbn [flat_map]; auto. rewrite (H x) by now left.
  apply IH. intros y Hy. apply H. now right.
Qed.

(* THE MAIN THEOREM for a tree: if every step of the plan is a site in a known file and, file by file and line by
   line, the sites the model applies are the specification's sites (right to left, with their character columns),
   then the refactoring returns normally and the specification's byte verdict on the files it leaves behind is
   empty: exactly the site tokens are replaced, every other byte of every file is unchanged *)
Theorem project_meets_spec : forall specs deps conf,
    let files := specs_files specs in
    let steps := plan deps (parse_relates conf) in
    distinct_strs (map fs_path specs) = true ->
    steps_are_edits files steps = true ->
    forallb (spec_ok steps) specs = true ->
    snd (rename_method files deps conf) = OOk /\
    files_verdict specs (fst (rename_method files deps conf)) = [].
Proof.
  intros specs deps conf files steps Hdp Hwf Hspec.
  unfold rename_method. fold steps. destruct (exec_per_file steps files Hwf) as [Ho [Hk Hm]].
  split; [exact Ho|]. unfold files_verdict.
  assert (Hlen : List.length (fst (exec files steps)) = List.length specs).
  { transitivity (List.length (mkeys (fst (exec files steps)))); [unfold mkeys; now rewrite map_length|].
    rewrite Hk. unfold mkeys, files, specs_files. now rewrite !map_length. }
  rewrite Hlen, Nat.eqb_refl, app_nil_r.
  apply flat_map_nil. intros f Hin.
  pose proof (mget_specs_files specs f Hdp Hin) as Hget. fold files in Hget.
  rewrite (Hm _ _ Hget).
  rewrite forallb_forall in Hspec. specialize (Hspec f Hin). unfold spec_ok in Hspec.
  apply andb_true_iff in Hspec. destruct Hspec as [Hspec Hfw]. apply andb_true_iff in Hspec. destruct Hspec as [Hn Hag].
  pose proof Hfw as Hfw2. unfold fspec_wf in Hfw2. apply andb_true_iff in Hfw2. destruct Hfw2 as [Hfw2 _].
  apply andb_true_iff in Hfw2. destruct Hfw2 as [Hall _].
  rewrite (file_rewritten_exactly f _ Hn Hag Hall).
  rewrite (file_verdict_expected f Hfw). reflexivity.
Qed.

(* ------------------------------------------------------------------ examples and witnesses (computed) *)
Definition xpos (l a b : nat) : position := mkPos l a l b.
Definition xcall (pkg node fn : string) (p : position) : call := mkCall pkg "" node fn [] p.
Definition xfunc (name : string) (p : position) (cs : list call) : func :=
  mkFunc name "void" [] cs false [] false false [] p.
Definition xnode (pkg node path : string) (fs : list func) : ds :=
  mkDs node "Class" pkg path [] "" [] fs [] [] [].
Definition e_acute : string := String (ascii_of_nat 195) (String (ascii_of_nat 169) EmptyString).                       (* U+00E9 *)
Definition cjk_zhong : string := String (ascii_of_nat 228) (String (ascii_of_nat 184) (String (ascii_of_nat 173) EmptyString)).   (* U+4E2D *)
Definition cr : string := String (ascii_of_nat 13) EmptyString.

(* a project with two sites on one line, sites after two- and three-byte characters, a longer new name, an unrelated
   method of the same name, and a request written with blanks and a CRLF line end *)
Definition ex_files : gomap string :=
  [("p/A.java", "package p;" +++ nl +++ "class A {" +++ nl +++ "  void old() { }" +++ nl +++
                "  void m() { old(); old(); }" +++ nl +++
                "  void n() { String s = """ +++ e_acute +++ """; old(); /* " +++ cjk_zhong +++ " */ old(); }" +++ nl +++ "}" +++ nl);
   ("p/B.java", "package p;" +++ nl +++ "class B {" +++ nl +++ "  A a;" +++ nl +++ "  void old() { }" +++ nl +++
                "  void k(A x) {" +++ nl +++ "    a.old();" +++ nl +++ "    x.old(); // " +++ e_acute +++ nl +++
                "    old();" +++ nl +++ "  }" +++ nl +++ "}" +++ nl);
   ("p/C.java", "class C { void old() { } }" +++ nl)].
Definition ex_deps : list ds :=
  [xnode "p" "A" "p/A.java" [xfunc "old" (xpos 3 7 10) [];
                             xfunc "m" (xpos 4 7 8) [xcall "p" "A" "old" (xpos 4 13 16); xcall "p" "A" "old" (xpos 4 20 23)];
                             xfunc "n" (xpos 5 7 8) [xcall "p" "A" "old" (xpos 5 29 32); xcall "p" "A" "old" (xpos 5 44 47)]];
   xnode "p" "B" "p/B.java" [xfunc "old" (xpos 4 7 10) [];
                             xfunc "k" (xpos 5 7 8) [xcall "p" "A" "old" (xpos 6 6 9); xcall "p" "A" "old" (xpos 7 6 9);
                                                     xcall "p" "B" "old" (xpos 8 4 7)]];
   xnode "p" "C" "p/C.java" [xfunc "old" (xpos 1 15 18) []]].
Definition ex_conf : string := " p.A.old  ->  p.A.renamedToSomethingLonger " +++ cr +++ nl.

Example ex_requests : parse_relates ex_conf = [mkRel "p.A.old" "p.A.renamedToSomethingLonger"].
Proof. vm_compute. reflexivity. Qed.

(* the order of application: line by line, right to left on a line *)
Example ex_plan_A :
  edits_for "p/A.java" (plan ex_deps (parse_relates ex_conf)) =
  [(xpos 3 7 10, "renamedToSomethingLonger");
   (xpos 4 20 23, "renamedToSomethingLonger"); (xpos 4 13 16, "renamedToSomethingLonger");
   (xpos 5 44 47, "renamedToSomethingLonger"); (xpos 5 29 32, "renamedToSomethingLonger")].
Proof. vm_compute. reflexivity. Qed.

Example ex_rename :
  rename_method ex_files ex_deps ex_conf =
  ([("p/A.java", "package p;" +++ nl +++ "class A {" +++ nl +++ "  void renamedToSomethingLonger() { }" +++ nl +++
                 "  void m() { renamedToSomethingLonger(); renamedToSomethingLonger(); }" +++ nl +++
                 "  void n() { String s = """ +++ e_acute +++ """; renamedToSomethingLonger(); /* " +++ cjk_zhong +++
                 " */ renamedToSomethingLonger(); }" +++ nl +++ "}" +++ nl);
    ("p/B.java", "package p;" +++ nl +++ "class B {" +++ nl +++ "  A a;" +++ nl +++ "  void old() { }" +++ nl +++
                 "  void k(A x) {" +++ nl +++ "    a.renamedToSomethingLonger();" +++ nl +++
                 "    x.renamedToSomethingLonger(); // " +++ e_acute +++ nl +++
                 "    old();" +++ nl +++ "  }" +++ nl +++ "}" +++ nl);
    ("p/C.java", "class C { void old() { } }" +++ nl)], OOk).
Proof. vm_compute. reflexivity. Qed.

(* the specification's description of the three files: candidate tokens with BYTE columns *)
Definition ex_new : string := "renamedToSomethingLonger".
Definition ex_specs : list fspec :=
  [mkFS "p/A.java" (mget_d "" ex_files "p/A.java")
        [mkCand 3 7 3 ex_new true; mkCand 4 13 3 ex_new true; mkCand 4 20 3 ex_new true;
         mkCand 5 30 3 ex_new true; mkCand 5 47 3 ex_new true];
   mkFS "p/B.java" (mget_d "" ex_files "p/B.java")
        [mkCand 4 7 3 ex_new false; mkCand 6 6 3 ex_new true; mkCand 7 6 3 ex_new true; mkCand 8 4 3 ex_new false];
   mkFS "p/C.java" (mget_d "" ex_files "p/C.java") [mkCand 1 15 3 ex_new false]].

Example ex_project_hypotheses :
  specs_files ex_specs = ex_files /\
  distinct_strs (map fs_path ex_specs) &&
  steps_are_edits (specs_files ex_specs) (plan ex_deps (parse_relates ex_conf)) &&
  forallb (spec_ok (plan ex_deps (parse_relates ex_conf))) ex_specs = true.
Proof. vm_compute. split; reflexivity. Qed.

Example ex_verdict_accepts :
  files_verdict ex_specs (fst (rename_method ex_files ex_deps ex_conf)) = [].
Proof. vm_compute. reflexivity. Qed.

(* the character column of a byte offset: after "é" (2 bytes) and "中" (3 bytes) *)
Example ex_columns :
  let l := "  void n() { String s = """ +++ e_acute +++ """; old(); /* " +++ cjk_zhong +++ " */ old(); }" in
  col_at l 30 = Some 29 /\ col_at l 47 = Some 44 /\ byte_offset l 29 = 30 /\ byte_offset l 44 = 47 /\
  col_at l 26 = None (* inside the two-byte character *) /\ byte_offset l 1000 = String.length l.
Proof. vm_compute. repeat split; reflexivity. Qed.

(* formerly D-C05-1: two sites on one line, names of different length -- now exact, shorter names too *)
Example two_sites_one_line_fixed :
  rename_method [("p/A.java", "class A { void old() { old(); this.k(old(), old()); } }")]
                [xnode "p" "A" "p/A.java" [xfunc "old" (xpos 1 15 18)
                    [xcall "p" "A" "old" (xpos 1 23 26); xcall "p" "A" "old" (xpos 1 37 40); xcall "p" "A" "old" (xpos 1 44 47)]]]
                "p.A.old -> p.A.o" =
  ([("p/A.java", "class A { void o() { o(); this.k(o(), o()); } }")], OOk).
Proof. vm_compute. reflexivity. Qed.

(* formerly D-C05-2: multi-byte characters before the site *)
Example multibyte_prefix_fixed :
  exec1 ("s(""" +++ e_acute +++ """); old();") [(xpos 1 8 11, "fresh")] = "s(""" +++ e_acute +++ """); fresh();"
  /\ exec1 ("/*" +++ e_acute +++ cjk_zhong +++ e_acute +++ "*/old();") [(xpos 1 7 10, "fresh")] =
     "/*" +++ e_acute +++ cjk_zhong +++ e_acute +++ "*/fresh();".
Proof. vm_compute. split; reflexivity. Qed.

(* formerly D-C05-6 / D-C05-7: blanks and carriage returns around the names are not part of the names *)
Example conf_blanks_fixed :
  parse_relates ("p.A.old -> p.A.fresh" +++ cr +++ nl) = [mkRel "p.A.old" "p.A.fresh"]
  /\ parse_relates " p.A.old -> p.A.fresh " = [mkRel "p.A.old" "p.A.fresh"]
  /\ parse_relates ("p.A.old  ->  p.A.fresh" +++ nl +++ tab +++ "p.B.x -> p.B.y  ") = [mkRel "p.A.old" "p.A.fresh"; mkRel "p.B.x" "p.B.y"].
Proof. vm_compute. repeat split; reflexivity. Qed.

(* ---- open defects of the implementation, reproduced by the model ---- *)

(* D-C05-3 (repaired by 00fa4f2): the declaration's recorded line USED to be the line of the return type, its columns those of the name; with such a record: *)
Example declaration_on_second_line_refuted :
  exec1 ("  void" +++ nl +++ "  old() { }") [(xpos 1 2 5, "fresh")] = "  freshd" +++ nl +++ "  old() { }".
Proof. vm_compute. reflexivity. Qed.

(* D-C05-4 (repaired in /repo by 26ae34e; the statement below is about the positions the full pass USED to record): an interface method recorded the whole declaration: start of the return type .. column of ';' + len(name);
   the stop column is clamped to the end of the line *)
Example interface_method_refuted :
  exec1 "  void old();" [(xpos 1 2 15, "fresh")] = "  fresh"
  /\ exec1 "interface I { void old(); int x(); }" [(xpos 1 14 27, "fresh")] = "interface I { freshnt x(); }".
Proof. vm_compute. split; reflexivity. Qed.

(* D-C05-5 (repaired by 027fb6a): this.old() used to be recorded with node name "this"; with such a record the call is not a site of p.A.old *)
Example this_receiver_not_a_site :
  plan [xnode "p" "A" "p/A.java" [xfunc "old" (xpos 1 5 8) []; xfunc "k" (xpos 2 5 6) [xcall "p" "this" "old" (xpos 2 15 18)]]]
       (parse_relates "p.A.old -> p.A.fresh") = [SEdit "p/A.java" (xpos 1 5 8) "fresh"].
Proof. vm_compute. reflexivity. Qed.

(* requests as written in the fixture of the repository *)
Example parse_relates_example :
  parse_relates ("polymorphism.Overload.demoA -> polymorphism.Overload.demo" +++ nl +++ nl +++ "# no arrow here") =
  [mkRel "polymorphism.Overload.demoA" "polymorphism.Overload.demo"]
  /\ build_method_package_info "polymorphism.Overload.demoA" = Some (mkMI "polymorphism" "Overload" "demoA")
  /\ build_method_package_info "a.b.C.m" = Some (mkMI "a.b" "C" "m")
  /\ build_method_package_info "nodots" = None.
Proof. vm_compute. repeat split; reflexivity. Qed.

(* ------------------------------------------------------------------ trimming the names of a request *)
Fixpoint no_blank (s : string) : bool :=
  match s with EmptyString => true | String c r => negb (is_blank c) && no_blank r end.

Lemma trim_right_no_blank : forall s, no_blank s = true -> trim_right s = s.
Proof.
  induction s as [|c r IH]; cbn [no_blank trim_right]; intros H; auto.
  apply andb_true_iff in H. destruct H as [H1 H2]. apply negb_true_iff in H1. rewrite IH by assumption.
  destruct r; [now rewrite H1|reflexivity].
Qed.

Fixpoint all_blank (s : string) : bool :=
  match s with EmptyString => true | String c r => is_blank c && all_blank r end.

Lemma trim_left_all_blank : forall pre t, all_blank pre = true -> trim_left (pre +++ t) = trim_left t.
Proof.
  induction pre as [|c r IH]; cbn [all_blank String.append trim_left]; intros t H; auto.
  apply andb_true_iff in H. destruct H as [H1 H2]. rewrite H1. now apply IH.
Qed.

Lemma trim_right_all_blank : forall post, all_blank post = true -> trim_right post = "".
Proof.
  induction post as [|c r IH]; cbn [all_blank trim_right]; intros H; auto.
  apply andb_true_iff in H. destruct H as [H1 H2]. rewrite IH by assumption. now rewrite H1.
Qed.

Lemma trim_right_padded : forall s post, no_blank s = true -> all_blank post = true -> trim_right (s +++ post) = s.
Proof.
  induction s as [|c r IH]; cbn [no_blank String.append]; intros post Hs Hp.
  - now apply trim_right_all_blank.
  - apply andb_true_iff in Hs. destruct Hs as [H1 H2]. apply negb_true_iff in H1.
    cbn [trim_right]. rewrite IH by assumption. destruct r; [now rewrite H1|reflexivity].
Qed.

(* a name without blanks is taken as written; blanks, tabs and carriage returns around it are dropped *)
Theorem trim_space_padded_name : forall pre s post,
    all_blank pre = true -> no_blank s = true -> all_blank post = true ->
    trim_space (pre +++ s +++ post) = s.
Proof.
  intros pre s post Hpre Hs Hpost. unfold trim_space. rewrite trim_left_all_blank by assumption.
  destruct s as [|c r].
  - cbn [String.append]. rewrite <- (append_nil_r post) at 1. rewrite trim_left_all_blank by assumption. reflexivity.
  - cbn [no_blank] in Hs. pose proof Hs as Hs'. apply andb_true_iff in Hs'. destruct Hs' as [H1 _].
    apply negb_true_iff in H1. cbn [String.append trim_left]. rewrite H1.
    change (String c (r +++ post)) with (String c r +++ post). now apply trim_right_padded.
Qed.
