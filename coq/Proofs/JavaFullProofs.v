(* Lemmas about Model/JavaFull.v (C01, C02). *)
From Coq Require Import String List Bool Arith Lia.
From Coca Require Import Lib.Sx Lib.GoMap Lib.Str Model.CodeModel Model.JavaFull Model.JavaSelect.
Import ListNotations.
Open Scope string_scope.
Open Scope list_scope.

(* ------------------------------------------------------------------ file selection *)
Theorem select_exact : forall walk p,
    In p (get_files_with_filter java_code_file_filter walk) <->
    In (p, false) walk /\ contains p "testData" = false /\ has_suffix ".java" p = true /\
    java_test_file_filter p = false.
Proof.
  intros walk p. unfold get_files_with_filter, java_code_file_filter. rewrite in_map_iff. split.
  - intros [[q ig] [Hq Hin]]. simpl in Hq. subst q. apply filter_In in Hin. destruct Hin as [Hin Hf].
    simpl in Hf. apply andb_true_iff in Hf. destruct Hf as [Hf H3]. apply andb_true_iff in Hf.
    destruct Hf as [H1 H2]. apply negb_true_iff in H1, H2. subst ig.
    apply andb_true_iff in H3. destruct H3 as [H3 H4]. apply negb_true_iff in H4. auto.
  - intros [Hin [H1 [H2 H3]]]. exists (p, false). split; [reflexivity|]. apply filter_In. split; [assumption|].
    simpl. now rewrite H1, H2, H3.
Qed.

(* ------------------------------------------------------------------ what a body event leaves alone *)
Definition same_frame (a b : fstate) : Prop :=
  s_imports b = s_imports a /\ s_clzs b = s_clzs a /\ s_pkg b = s_pkg a /\ s_clz b = s_clz a /\
  s_fields b = s_fields a /\ s_type b = s_type a /\ s_clzExtend b = s_clzExtend a /\
  s_method b = s_method a /\ s_methodQueue b = s_methodQueue a /\ s_identMap b = s_identMap a /\
  s_node b = s_node a /\ s_classNodes b = s_classNodes a /\ s_file b = s_file a /\
  s_hasEnterClass b = s_hasEnterClass a.

Lemma same_frame_refl : forall a, same_frame a a.
Proof. intros a. unfold same_frame. repeat split. Qed.

Lemma same_frame_trans : forall a b c, same_frame a b -> same_frame b c -> same_frame a c.
Proof.
  unfold same_frame. intros a b c H1 H2.
  repeat match goal with H : _ /\ _ |- _ => destruct H end.
  repeat split; congruence.
Qed.

Lemma frame_add_call : forall st c, same_frame st (add_call_to_current st c).
Proof. intros st c. unfold same_frame, add_call_to_current, with_methods. simpl. repeat split. Qed.

Lemma frame_set_tables : forall st a b c, same_frame st (set_tables st a b c).
Proof. intros. unfold same_frame, set_tables. simpl. repeat split. Qed.

Lemma frame_set_override : forall st b, same_frame st (set_override st b).
Proof. intros. unfold same_frame, set_override. simpl. repeat split. Qed.

Lemma frame_body_event : forall st e, same_frame st (body_event st e).
Proof.
  intros st e. destruct e; cbn [body_event].
  - apply frame_set_tables.
  - apply frame_set_tables.
  - unfold enter_method_call.
    repeat match goal with
           | |- context [let '(_, _) := ?X in _] => destruct X
           end.
    apply frame_add_call.
  - unfold enter_creator. destruct created as [|name rest]; [apply same_frame_refl|].
    match goal with |- context [if ?b then _ else _] => destruct b end.
    + apply frame_add_call.
    + eapply same_frame_trans; [apply frame_set_tables|apply frame_add_call].
  - destruct has_expr; [|apply same_frame_refl]. unfold enter_mref. apply frame_add_call.
  - apply frame_set_override.
  - apply same_frame_refl.
Qed.

Lemma frame_body_events : forall evs st, same_frame st (fold_left body_event evs st).
Proof.
  induction evs as [|e evs IH]; intros st; [apply same_frame_refl|].
  simpl. eapply same_frame_trans; [apply frame_body_event|apply IH].
Qed.

(* the key under which the calls of the current function are filed does not move during its body *)
Definition cur_key (st : fstate) : string := method_map_name st (s_method st).

Lemma cur_key_frame : forall a b, same_frame a b -> cur_key b = cur_key a.
Proof.
  unfold cur_key, method_map_name, same_frame. intros a b H.
  repeat match goal with H : _ /\ _ |- _ => destruct H end.
  repeat match goal with H : _ = _ |- _ => rewrite H; clear H end. reflexivity.
Qed.

(* ------------------------------------------------------------------ the calls of a function, in order *)
Definition calls_at (st : fstate) (k : string) : list call := f_calls (mget_d empty_func (s_methodMap st) k).

Lemma add_call_at_key : forall st c,
    calls_at (add_call_to_current st c) (cur_key st) = calls_at st (cur_key st) ++ [c].
Proof.
  intros st c. unfold calls_at, add_call_to_current, with_methods, cur_key. cbn [s_methodMap].
  rewrite mget_d_mput, String.eqb_refl. reflexivity.
Qed.

Lemma add_call_other_key : forall st c k,
    k <> cur_key st -> mget (s_methodMap (add_call_to_current st c)) k = mget (s_methodMap st) k.
Proof.
  intros st c k H. unfold add_call_to_current, with_methods, cur_key in *. cbn [s_methodMap].
  apply mget_mput_other. congruence.
Qed.

(* the call a body event files, computed in the state it meets *)
Definition event_call (st : fstate) (e : bevent) : list call :=
  firstn (List.length (calls_at (body_event st e) (cur_key st)) - List.length (calls_at st (cur_key st)))
         (skipn (List.length (calls_at st (cur_key st))) (calls_at (body_event st e) (cur_key st))).

Lemma set_tables_calls : forall st a b c k, calls_at (set_tables st a b c) k = calls_at st k.
Proof. reflexivity. Qed.
Lemma set_override_calls : forall st b k, calls_at (set_override st b) k = calls_at st k.
Proof. reflexivity. Qed.

(* every event appends (zero or one call) to the current function and touches no other entry *)
Lemma body_event_appends : forall st e,
    (exists cs, calls_at (body_event st e) (cur_key st) = calls_at st (cur_key st) ++ cs /\ List.length cs <= 1) /\
    (forall k, k <> cur_key st -> mget (s_methodMap (body_event st e)) k = mget (s_methodMap st) k).
Proof.
  intros st e.
  assert (Hnone : (exists cs, calls_at st (cur_key st) = calls_at st (cur_key st) ++ cs /\ List.length cs <= 1)).
  { exists []. rewrite app_nil_r. split; [reflexivity|simpl; lia]. }
  destruct e; cbn [body_event].
  - split; [exact Hnone|reflexivity].
  - split; [exact Hnone|reflexivity].
  - unfold enter_method_call.
    repeat match goal with
           | |- context [let '(_, _) := ?X in _] => destruct X
           end.
    split; [|intros k Hk; now apply add_call_other_key].
    eexists. split; [apply add_call_at_key|simpl; lia].
  - unfold enter_creator. destruct created as [|name rest]; [split; [exact Hnone|reflexivity]|].
    match goal with |- context [if ?b then _ else _] => destruct b end.
    + split; [|intros k Hk; now apply add_call_other_key].
      eexists. split; [apply add_call_at_key|simpl; lia].
    + set (st1 := set_tables st (s_mapFields st) (mput (s_localVars st) var name) (s_formals st)).
      assert (Hk1 : cur_key st1 = cur_key st) by (apply cur_key_frame; apply frame_set_tables).
      split.
      * eexists. split; [rewrite <- Hk1; rewrite add_call_at_key; rewrite Hk1; reflexivity|simpl; lia].
      * intros k Hk. rewrite add_call_other_key by congruence. reflexivity.
  - destruct has_expr; [|split; [exact Hnone|reflexivity]]. unfold enter_mref.
    split; [|intros k Hk; now apply add_call_other_key].
    eexists. split; [apply add_call_at_key|simpl; lia].
  - split; [exact Hnone|reflexivity].
  - split; [exact Hnone|reflexivity].
Qed.

(* over a whole body: the calls filed under the function's key grow by appending only, and no
   other function's entry changes -- nothing is attached to a neighbour *)
Theorem body_events_append_only : forall evs st,
    (exists cs, calls_at (fold_left body_event evs st) (cur_key st) = calls_at st (cur_key st) ++ cs /\
                List.length cs <= List.length evs) /\
    (forall k, k <> cur_key st -> mget (s_methodMap (fold_left body_event evs st)) k = mget (s_methodMap st) k).
Proof.
  induction evs as [|e evs IH]; intros st.
  - simpl. split; [exists []; rewrite app_nil_r; split; [reflexivity|simpl; lia]|reflexivity].
  - cbn [fold_left]. destruct (body_event_appends st e) as [[c1 [H1 L1]] H2].
    assert (Hk : cur_key (body_event st e) = cur_key st) by (apply cur_key_frame; apply frame_body_event).
    destruct (IH (body_event st e)) as [[c2 [H3 L2]] H4]. rewrite Hk in *. split.
    + exists (c1 ++ c2). rewrite H3, H1, <- app_assoc. split; [reflexivity|]. rewrite app_length. simpl. lia.
    + intros k Hne. rewrite H4 by assumption. now apply H2.
Qed.

(* an invocation event files a call that carries the callee name and the position of the callee
   identifier: its line, its column, and column + number of characters of the name (columns count characters) *)
Theorem method_call_recorded : forall st callee target tic inner whole args has_args p,
    exists c,
      calls_at (body_event st (ECall callee target tic inner whole args has_args p)) (cur_key st)
      = calls_at st (cur_key st) ++ [c] /\
      c_fn c = callee /\
      c_pos c = mkPos (q_sl p) (q_sc p) (q_el p) (q_sc p + rune_count callee) /\
      c_params c = (if has_args then map (fun a => mkProp "" a) args else []).
Proof.
  intros. cbn [body_event]. unfold enter_method_call.
  repeat match goal with
         | |- context [let '(_, _) := ?X in _] => destruct X
         end.
  eexists. split; [apply add_call_at_key|]. cbn [c_fn c_pos c_params]. auto.
Qed.

(* a creation event files a call carrying the created type *)
Theorem creator_recorded : forall st var name rest has_body wc p,
    exists c,
      calls_at (body_event st (ECreator var (name :: rest) has_body wc p)) (cur_key st)
      = calls_at st (cur_key st) ++ [c] /\
      c_node c = name /\ c_type c = "CreatorClass" /\ c_fn c = "".
Proof.
  intros. cbn [body_event]. unfold enter_creator.
  match goal with |- context [if ?b then _ else _] => destruct b end.
  - eexists. split; [apply add_call_at_key|]. cbn. auto.
  - set (st1 := set_tables st (s_mapFields st) (mput (s_localVars st) var name) (s_formals st)).
    assert (Hk1 : cur_key st1 = cur_key st) by (apply cur_key_frame; apply frame_set_tables).
    eexists. split; [rewrite <- Hk1; rewrite add_call_at_key; rewrite Hk1; reflexivity|]. cbn. auto.
Qed.

(* ------------------------------------------------------------------ receiver resolution *)
(* declared type of a receiver name: local, then parameter, then field *)
Theorem parse_target_type_scoping : forall st x,
    parse_target_type st x =
    if negb (String.eqb (mget_d "" (s_localVars st) x) "") then mget_d "" (s_localVars st) x
    else if negb (String.eqb (mget_d "" (s_formals st) x) "") then mget_d "" (s_formals st) x
    else if negb (String.eqb (mget_d "" (s_mapFields st) x) "") then mget_d "" (s_mapFields st) x
    else x.
Proof. reflexivity. Qed.

Definition pure_of (t : string) : string :=
  replace_all "]" "" (replace_all "[" "" (hd "" (split "." t))).

(* a receiver whose declared type T is a plain class name found among the imports is recorded
   against T and the package of that import *)
Theorem resolution_imported : forall st callee x whole args has_args p T imp,
    parse_target_type st x = T ->
    equal_fold (s_clz st) T = false ->
    pure_of T = T -> T <> "" ->
    find (fun i => String.eqb i T || has_suffix ("." ++ T) i) (s_imports st) = Some imp ->
    T <> "super" -> callee <> "super" -> is_chain_call T = false -> x <> "this" ->
    exists c,
      calls_at (body_event st (ECall callee x false "" whole args has_args p)) (cur_key st)
      = calls_at st (cur_key st) ++ [c] /\
      c_node c = T /\ c_pkg c = remove_target imp /\ c_fn c = callee.
Proof.
  intros st callee x whole args has_args p T imp HT Hfold Hpure Hne Hfind Hs1 Hs2 Hchain Hthis.
  cbn [body_event]. unfold enter_method_call.
  assert (Et : String.eqb x "this" = false) by now apply String.eqb_neq.
  rewrite Et, HT.
  assert (Hw : warp_target_full_type st T = (imp, "chain")).
  { unfold warp_target_full_type. rewrite Hfold. fold (pure_of T). rewrite Hpure.
    apply String.eqb_neq in Hne. rewrite Hne. now rewrite Hfind. }
  rewrite Hw.
  assert (E1 : String.eqb T "super" = false) by now apply String.eqb_neq.
  assert (E2 : String.eqb callee "super" = false) by now apply String.eqb_neq.
  rewrite E1, E2. cbn [orb].
  assert (Himp : String.eqb imp "" = false).
  { apply find_some in Hfind. destruct Hfind as [_ Hf]. apply orb_true_iff in Hf. destruct Hf as [Hf|Hf].
    - apply String.eqb_eq in Hf. subst imp. now apply String.eqb_neq.
    - destruct imp; [|reflexivity]. unfold has_suffix in Hf. simpl in Hf. discriminate. }
  rewrite Himp. cbn [negb]. rewrite Hchain.
  eexists. split; [apply add_call_at_key|]. cbn. auto.
Qed.

(* an implicit receiver (bare call, no static import of that name) is recorded against the
   enclosing class and its package *)
Theorem resolution_implicit : forall st callee whole args has_args p,
    warp_target_full_type st (parse_target_type st whole) = ("", "") ->
    parse_target_type st whole = whole ->
    whole <> "super" -> callee <> "super" -> whole <> "this" ->
    (forall imp, In imp (s_imports st) -> has_suffix ("." ++ callee) imp = false) ->
    is_chain_call (s_clz st) = false ->
    exists c,
      calls_at (body_event st (ECall callee whole false "" whole args has_args p)) (cur_key st)
      = calls_at st (cur_key st) ++ [c] /\
      c_node c = s_clz st /\ c_pkg c = s_pkg st /\ c_fn c = callee.
Proof.
  intros st callee whole args has_args p Hw Hp Hs1 Hs2 Hthis Hstatic Hchain.
  cbn [body_event]. unfold enter_method_call.
  assert (Et : String.eqb whole "this" = false) by now apply String.eqb_neq.
  rewrite Et. rewrite Hp in *. rewrite Hw.
  assert (E1 : String.eqb whole "super" = false) by now apply String.eqb_neq.
  assert (E2 : String.eqb callee "super" = false) by now apply String.eqb_neq.
  rewrite E1, E2. cbn [orb negb]. rewrite String.eqb_refl. cbn [negb].
  rewrite String.eqb_refl.
  assert (Hfold : forall l acc, (forall imp, In imp l -> has_suffix ("." ++ callee) imp = false) ->
                               fold_left (fun acc imp => if has_suffix ("." ++ callee) imp then Some imp else acc) l acc = acc).
  { induction l as [|i l IH]; intros acc H; [reflexivity|]. cbn [fold_left]. rewrite (H i (or_introl eq_refl)).
    apply IH. intros; apply H; now right. }
  rewrite Hfold by assumption. rewrite Hchain.
  eexists. split; [apply add_call_at_key|]. cbn. auto.
Qed.

(* ------------------------------------------------------------------ one entry per unit *)
Definition keeps_node (a b : fstate) : Prop :=
  d_node (s_node b) = d_node (s_node a) /\ d_type (s_node b) = d_type (s_node a) /\
  d_pkg (s_node b) = d_pkg (s_node a) /\ d_annots (s_node b) = d_annots (s_node a) /\
  s_classNodes b = s_classNodes a /\ s_file b = s_file a /\ s_hasEnterClass b = s_hasEnterClass a.

Lemma keeps_node_refl : forall a, keeps_node a a.
Proof. intros a. unfold keeps_node. repeat split. Qed.

Lemma keeps_node_trans : forall a b c, keeps_node a b -> keeps_node b c -> keeps_node a c.
Proof.
  unfold keeps_node. intros a b c H1 H2.
  repeat match goal with H : _ /\ _ |- _ => destruct H end. repeat split; congruence.
Qed.

Lemma same_frame_keeps_node : forall a b, same_frame a b -> keeps_node a b.
Proof.
  unfold same_frame, keeps_node. intros a b H.
  repeat match goal with H : _ /\ _ |- _ => destruct H end.
  repeat split; congruence.
Qed.

Lemma keeps_update_method : forall st m, keeps_node st (update_method st m).
Proof. intros. unfold keeps_node, update_method, with_methods. simpl. repeat split. Qed.

Lemma keeps_update_method_decl : forall st m b, keeps_node st (update_method_decl st m b).
Proof.
  intros. unfold update_method_decl. destruct b.
  - eapply keeps_node_trans; apply keeps_update_method.
  - apply keeps_update_method.
Qed.

Lemma keeps_record_params : forall st ps, keeps_node st (record_params st ps).
Proof. intros. unfold keeps_node, record_params, set_tables. simpl. repeat split. Qed.

Lemma keeps_set_tables : forall st a b c, keeps_node st (set_tables st a b c).
Proof. intros. apply same_frame_keeps_node. apply frame_set_tables. Qed.

Lemma keeps_set_override : forall st b, keeps_node st (set_override st b).
Proof. intros. apply same_frame_keeps_node. apply frame_set_override. Qed.

Lemma keeps_set_current : forall st m, keeps_node st (set_current_method st m).
Proof. intros. unfold keeps_node, set_current_method, with_methods. simpl. repeat split. Qed.

Lemma keeps_body_events : forall evs st, keeps_node st (fold_left body_event evs st).
Proof. intros. apply same_frame_keeps_node. apply frame_body_events. Qed.

Lemma keeps_fold : forall (A : Type) (f : fstate -> A -> fstate) l st,
    (forall s x, keeps_node s (f s x)) -> keeps_node st (fold_left f l st).
Proof.
  intros A f. induction l as [|x l IH]; intros st H; [apply keeps_node_refl|].
  simpl. eapply keeps_node_trans; [apply H|apply IH; assumption].
Qed.

Lemma keeps_member_step : forall st m, keeps_node st (member_step st m).
Proof.
  intros st m. unfold member_step.
  set (st1 := fold_left (fun s a => set_override s (String.eqb a "Override")) (m_annots m) st).
  assert (H1 : keeps_node st st1) by (apply keeps_fold; intros; apply keeps_set_override).
  eapply keeps_node_trans; [exact H1|]. clearbody st1.
  destruct (String.eqb (m_kind m) "field").
  - destruct (String.eqb (m_ident0 m) ""); [apply keeps_body_events|].
    eapply keeps_node_trans; [|apply keeps_body_events].
    apply keeps_fold. intros s name.
    match goal with |- context [if ?b then _ else _] => destruct b end;
      unfold keeps_node, set_fields, add_node_call; simpl; repeat split.
  - set (st2 := set_tables st1 (s_mapFields st1) [] []).
    assert (H2 : keeps_node st1 st2) by apply keeps_set_tables.
    eapply keeps_node_trans; [exact H2|]. clearbody st2.
    destruct (String.eqb (m_kind m) "ctor"); [|destruct (String.eqb (m_kind m) "method")].
    + eapply keeps_node_trans; [|apply keeps_set_override].
      eapply keeps_node_trans; [|apply keeps_set_current].
      eapply keeps_node_trans; [|apply keeps_body_events].
      eapply keeps_node_trans; [|apply keeps_update_method_decl].
      destruct (m_has_param_list m); [apply keeps_record_params|apply keeps_node_refl].
    + eapply keeps_node_trans; [|apply keeps_set_current].
      eapply keeps_node_trans; [|apply keeps_body_events].
      eapply keeps_node_trans; [|apply keeps_update_method_decl].
      destruct (m_has_param_list m); [apply keeps_record_params|apply keeps_node_refl].
    + eapply keeps_node_trans; [|apply keeps_body_events].
      eapply keeps_node_trans; [|apply keeps_update_method_decl].
      destruct (m_has_param_list m); [apply keeps_record_params|apply keeps_node_refl].
Qed.

Definition unit_type (u : junit) : string := if String.eqb (u_kind u) "class" then "Class" else "Interface".

Lemma type_annots_effect : forall l s,
    s_hasEnterClass s = false ->
    let s' := fold_left type_annot l s in
    s_hasEnterClass s' = false /\ d_annots (s_node s') = d_annots (s_node s) ++ l /\
    d_node (s_node s') = d_node (s_node s) /\ d_pkg (s_node s') = d_pkg (s_node s) /\
    s_classNodes s' = s_classNodes s /\ s_file s' = s_file s.
Proof.
  induction l as [|a l IH]; intros s Hs; cbn [fold_left]; cbv zeta.
  - rewrite app_nil_r. repeat split; auto.
  - assert (E : type_annot s a = set_node (set_override s (String.eqb (an_name a) "Override"))
                                          (add_node_annot (s_node s) a)).
    { unfold type_annot. cbn [set_override s_hasEnterClass s_node]. now rewrite Hs. }
    rewrite E. clear E.
    match goal with |- context [fold_left _ l ?s1] => destruct (IH s1) as [I1 [I2 [I3 [I4 [I5 I6]]]]] end.
    { exact Hs. }
    cbv zeta in *.
    cbn [set_node set_override add_node_annot s_node d_annots d_node d_pkg s_classNodes s_file] in *.
    rewrite I1, I2, I3, I4, I5, I6. rewrite <- app_assoc. repeat split; auto.
Qed.

(* a unit contributes exactly one entry, with its own name, kind, package, path and annotations *)
Theorem walk_unit_one_entry : forall st u,
    s_hasEnterClass st = false -> d_node (s_node st) = "" -> d_annots (s_node st) = [] ->
    exists n,
      s_classNodes (walk_unit st u) = s_classNodes st ++ [n] /\
      d_node n = u_name u /\ d_type n = unit_type u /\
      d_pkg n = (if u_has_pkg u then u_pkg u else d_pkg (s_node st)) /\
      d_path n = s_file st /\ d_annots n = u_annots u /\
      s_hasEnterClass (walk_unit st u) = false.
Proof.
  intros st u Hh Hn Ha. unfold walk_unit.
  set (st1 := unit_header st u).
  assert (H1 : s_hasEnterClass st1 = false /\ d_annots (s_node st1) = [] /\ d_node (s_node st1) = "" /\
               d_pkg (s_node st1) = (if u_has_pkg u then u_pkg u else d_pkg (s_node st)) /\
               s_classNodes st1 = s_classNodes st /\ s_file st1 = s_file st).
  { unfold st1, unit_header. cbn. repeat split; auto. }
  destruct H1 as [B1 [B2 [B3 [B4 [B5 B6]]]]].
  destruct (type_annots_effect (u_annots u) st1 B1) as [A1 [A2 [A3 [A4 [A5 A6]]]]].
  set (st2 := fold_left type_annot (u_annots u) st1) in *.
  set (st3 := enter_type st2 u).
  assert (H3 : d_node (s_node st3) = u_name u /\ d_type (s_node st3) = unit_type u /\
               d_pkg (s_node st3) = d_pkg (s_node st2) /\ d_annots (s_node st3) = d_annots (s_node st2) /\
               s_classNodes st3 = s_classNodes st2 /\ s_file st3 = s_file st2).
  { unfold st3, enter_type, unit_type. destruct (String.eqb (u_kind u) "class").
    - cbn [set_node s_node d_node d_type d_pkg d_annots s_classNodes s_file]. rewrite A3, B3, String.eqb_refl. repeat split; auto.
    - cbn [set_node s_node d_node d_type d_pkg d_annots s_classNodes s_file]. repeat split; auto. }
  destruct H3 as [C1 [C2 [C3 [C4 [C5 C6]]]]].
  pose proof (keeps_fold _ member_step (u_members u) st3 keeps_member_step) as Hk.
  set (st4 := fold_left member_step (u_members u) st3) in *.
  destruct Hk as [K1 [K2 [K3 [K4 [K5 [K6 K7]]]]]].
  eexists. unfold exit_body.
  cbn [init_class s_classNodes s_hasEnterClass s_node s_file d_node d_type d_pkg d_path d_annots].
  split; [rewrite K5, C5, A5, B5; reflexivity|].
  rewrite K1, K2, K3, K4, K6, C1, C2, C3, C4, C6, A2, A4, A6, B2, B4, B6. cbn [app]. repeat split; auto.
Qed.

Definition node_sig (n : ds) := (d_node n, d_type n, d_pkg n, d_path n, d_annots n).
Definition unit_sig (u : junit) :=
  (u_name u, unit_type u, (if u_has_pkg u then u_pkg u else ""), u_path u, u_annots u).

Lemma new_listener_shape : forall st ids cls file,
    s_hasEnterClass (new_listener st ids cls file) = s_hasEnterClass st /\
    s_node (new_listener st ids cls file) = empty_ds /\
    s_classNodes (new_listener st ids cls file) = [] /\
    s_file (new_listener st ids cls file) = file.
Proof. intros. unfold new_listener, init_class. cbn. auto. Qed.

(* the full pass lists, for every file list and whatever the process did before, exactly one
   entry per unit, in order, carrying the unit's own name, kind, package, path and annotations *)
Theorem analysis_files_types : forall units st ids,
    s_hasEnterClass st = false ->
    map node_sig (snd (analysis_files st ids units)) = map unit_sig units.
Proof.
  intros units st ids Hh. unfold analysis_files.
  assert (G : forall units st out,
             s_hasEnterClass st = false ->
             map node_sig (snd (fold_left (fun acc u =>
                                 let '(s, out) := acc in
                                 let s1 := walk_unit (new_listener s ids ids (u_path u)) u in
                                 (s1, (out ++ s_classNodes s1)%list)) units (st, out)))
             = map node_sig out ++ map unit_sig units).
  { induction units0 as [|u us IH]; intros st0 out Hst; cbn [fold_left].
    - simpl. now rewrite app_nil_r.
    - destruct (new_listener_shape st0 ids ids (u_path u)) as [N1 [N2 [N3 N4]]].
      destruct (walk_unit_one_entry (new_listener st0 ids ids (u_path u)) u) as [n [W1 [W2 [W3 [W4 [W5 [W6 W7]]]]]]].
      + now rewrite N1.
      + now rewrite N2.
      + now rewrite N2.
      + rewrite IH by exact W7. rewrite W1, N3. cbn [app]. rewrite map_app. cbn [map].
        rewrite <- app_assoc. cbn [app]. f_equal. f_equal.
        unfold node_sig, unit_sig. rewrite W2, W3, W4, W5, W6, N2, N4. reflexivity. }
  rewrite G by exact Hh. reflexivity.
Qed.

(* ------------------------------------------------------------------ non-vacuity *)
Definition ex_p (a b c d : nat) : pos4 := mkP4 a b c d.
Definition ex_member_field : jmember :=
  mkMember "field" "" "Bar" "Bar" ["svc"] [] false [] true [] ["private"] (ex_p 0 0 0 0) (ex_p 4 10 4 17) [].
Definition ex_member_method : jmember :=
  mkMember "method" "run" "void" "" [] [("Foo", "x")] true [mkAnnot "Test" []] true ["Test"] ["public"]
           (ex_p 5 21 0 0) (ex_p 5 16 8 2)
           [EFormal "Foo" "x";
            ECall "go" "x" false "" "go()" [] false (ex_p 6 6 6 9);
            ELocal "Bar" "b";
            ECreator "newBar()" ["Bar"] false "Bar" (ex_p 6 25 6 29);
            ECall "save" "svc" false "" "save(b)" ["b"] true (ex_p 7 8 7 14);
            ECall "help" "help()" false "" "help()" [] false (ex_p 7 20 7 25)].
Definition ex_unit : junit :=
  mkUnit "src/A.java" "p.q" true ["r.s.Foo"; "t.Bar"] "class" "A" ["Base"] [] [mkAnnot "Service" []]
         [ex_member_field; ex_member_method].

Example ex_unit_calls :
  map (fun d => (d_node d, d_type d, d_pkg d, d_path d, d_extend d,
                 map (fun f => (f_name f, map (fun c => (c_pkg c, c_node c, c_fn c, p_sl (c_pos c), p_sc (c_pos c), p_ec (c_pos c))) (f_calls f)))
                     (d_funcs d)))
      (snd (analysis_files fstate0 ["p.q.A"] [ex_unit]))
  = [("A", "Class", "p.q", "src/A.java", "Base",
      [("run", [("r.s", "Foo", "go", 6, 6, 8); ("t", "Bar", "", 6, 25, 32); ("t", "Bar", "save", 7, 8, 12);
                ("p.q", "A", "help", 7, 20, 24)])])].
Proof. vm_compute. reflexivity. Qed.

(* ------------------------------------------------------------------ D-C02-3: the resolution clause is FALSE for a field
   written with its qualifier.  In class p.q.A (imports r.s.Foo first, fields `Foo foo` and `Bar bar`, Bar being a class
   of the project in p.q) the call this.bar.go() is filed under node "this.bar" and the package r.s of the first import,
   not under Bar / p.q: WarpTargetFullType takes the first segment "this" for a superclass reference and, the class
   extending nothing, has_suffix "" accepts any import. *)
Definition ex_this_unit : junit :=
  mkUnit "src/A.java" "p.q" true ["r.s.Foo"] "class" "A" [] [] []
         [mkMember "field" "" "Foo" "Foo" ["foo"] [] false [] true [] ["private"] (ex_p 0 0 0 0) (ex_p 3 10 3 17) [];
          mkMember "field" "" "Bar" "Bar" ["bar"] [] false [] true [] ["private"] (ex_p 0 0 0 0) (ex_p 4 10 4 17) [];
          mkMember "method" "run" "void" "" [] [] false [] true [] ["public"] (ex_p 5 14 0 0) (ex_p 5 9 7 2)
                   [ECall "go" "this.bar" false "" "go()" [] false (ex_p 6 13 6 16);
                    ECall "go" "bar" false "" "go()" [] false (ex_p 6 30 6 33)]].

Theorem resolution_this_field_refuted :
  exists (idents : list string) (u : junit),
    map (fun d => map (fun f => map (fun c => (c_pkg c, c_node c, c_fn c)) (f_calls f)) (d_funcs d))
        (snd (analysis_files fstate0 idents [u]))
    = [[[("r.s", "this.bar", "go"); ("p.q", "Bar", "go")]]].
Proof. exists ["p.q.A"; "p.q.Bar"], ex_this_unit. vm_compute. reflexivity. Qed.
