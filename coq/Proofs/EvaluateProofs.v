(* Lemmas about Model/Evaluate.v (C18): reference counts, evaluation summary, concept words. *)
From Coq Require Import String List Bool Arith Lia Permutation Sorted Ascii.
From Coca Require Import Lib.Sx Lib.GoMap Lib.Str Model.CodeModel Model.GitSummary Model.JavaFull Model.JavaIdent
     Model.Evaluate Model.EvaluateSpec Proofs.GitSummaryProofs Generated.Constants.
Import ListNotations.
Open Scope string_scope.
Open Scope list_scope.

(* ------------------------------------------------------------------ maps *)
Lemma mput_keys_nodup : forall (V : Type) (m : gomap V) k v, NoDup (mkeys m) -> NoDup (mkeys (mput m k v)).
Proof.
  unfold mkeys. induction m as [|[k0 v0] m IH]; intros k v H; simpl.
  - constructor; [intros []|constructor].
  - inversion H as [|? ? Hn Hd]; subst. destruct (String.eqb k0 k) eqn:E; simpl.
    + constructor; assumption.
    + constructor; [|now apply IH].
      intros Hin. apply (mkeys_mput_in m k v k0) in Hin. destruct Hin as [Hin|Hin].
      * subst. rewrite String.eqb_refl in E. discriminate.
      * contradiction.
Qed.

Lemma mget_in_nodup : forall (V : Type) (m : gomap V) k v, NoDup (mkeys m) -> In (k, v) m -> mget m k = Some v.
Proof.
  unfold mkeys. induction m as [|[k0 v0] m IH]; intros k v Hn Hin; simpl in *; [contradiction|].
  inversion Hn as [|? ? Hnot Hd]; subst. destruct Hin as [Hin|Hin].
  - inversion Hin; subst. now rewrite String.eqb_refl.
  - destruct (String.eqb k0 k) eqn:E.
    + apply String.eqb_eq in E. subst. exfalso. apply Hnot. apply in_map_iff. exists (k, v). auto.
    + now apply IH.
Qed.

Lemma mget_some_in : forall (V : Type) (m : gomap V) k v, mget m k = Some v -> In (k, v) m.
Proof.
  induction m as [|[k0 v0] m IH]; intros k v H; simpl in *; [discriminate|].
  destruct (String.eqb k0 k) eqn:E.
  - apply String.eqb_eq in E. inversion H; subst. now left.
  - right. now apply IH.
Qed.

Lemma mdel_keys_subset : forall (V : Type) (m : gomap V) k x, In x (mkeys (mdel m k)) -> In x (mkeys m).
Proof.
  unfold mkeys. induction m as [|[k0 v0] m IH]; intros k x H; simpl in *; [assumption|].
  destruct (String.eqb k0 k); simpl in *; [now right|]. destruct H as [H|H]; [now left|right; eauto].
Qed.

Lemma mdel_keys_nodup : forall (V : Type) (m : gomap V) k, NoDup (mkeys m) -> NoDup (mkeys (mdel m k)).
Proof.
  unfold mkeys. induction m as [|[k0 v0] m IH]; intros k H; simpl; [constructor|].
  inversion H as [|? ? Hn Hd]; subst. destruct (String.eqb k0 k); [assumption|]. simpl.
  constructor; [|now apply IH]. intros Hin. apply Hn. eapply (mdel_keys_subset V m k). exact Hin.
Qed.

(* ------------------------------------------------------------------ reference counts *)
Definition count_step (pm : list string) (m : gomap nat) (c : string) : gomap nat :=
  if str_mem c pm then mput m c (S (mget_d 0 m c)) else m.

Lemma build_call_map_fold : forall deps,
    build_call_map deps = fold_left (count_step (project_method_names deps)) (all_call_names deps) [].
Proof. reflexivity. Qed.

Lemma count_fold_get : forall pm sites m k,
    mget_d 0 (fold_left (count_step pm) sites m) k =
    mget_d 0 m k + (if str_mem k pm then count_of_name k sites else 0).
Proof.
  intros pm. induction sites as [|s sites IH]; intros m k.
  - unfold count_of_name. simpl. destruct (str_mem k pm); lia.
  - cbn [fold_left]. rewrite IH. unfold count_step. unfold count_of_name. cbn [filter].
    destruct (str_mem s pm) eqn:Es.
    + rewrite mget_d_mput. destruct (String.eqb s k) eqn:E.
      * apply String.eqb_eq in E. subst s. rewrite Es, String.eqb_refl. cbn [List.length]. lia.
      * rewrite String.eqb_sym, E. reflexivity.
    + destruct (String.eqb k s) eqn:E; [|reflexivity].
      apply String.eqb_eq in E. subst s. rewrite Es. reflexivity.
Qed.

Lemma count_fold_keys_nodup : forall pm sites m, NoDup (mkeys m) -> NoDup (mkeys (fold_left (count_step pm) sites m)).
Proof.
  intros pm. induction sites as [|s sites IH]; intros m H; cbn [fold_left]; [assumption|].
  apply IH. unfold count_step. destruct (str_mem s pm); [now apply mput_keys_nodup|assumption].
Qed.

Lemma count_fold_positive : forall pm sites m,
    (forall k v, In (k, v) m -> 0 < v) -> NoDup (mkeys m) ->
    forall k v, In (k, v) (fold_left (count_step pm) sites m) -> 0 < v.
Proof.
  intros pm. induction sites as [|s sites IH]; intros m Hpos Hnd k v Hin; cbn [fold_left] in Hin; [eauto|].
  eapply IH; [| |exact Hin].
  - intros k' v' Hin'. unfold count_step in Hin'. destruct (str_mem s pm); [|eauto].
    assert (Hnd' : NoDup (mkeys (mput m s (S (mget_d 0 m s))))) by now apply mput_keys_nodup.
    apply mget_in_nodup in Hin'; [|assumption]. rewrite mget_mput in Hin'.
    destruct (String.eqb s k'); [inversion Hin'; lia|]. apply mget_some_in in Hin'. eauto.
  - unfold count_step. destruct (str_mem s pm); [now apply mput_keys_nodup|assumption].
Qed.

Lemma count_fold_sum : forall pm sites m,
    list_sum (map snd (fold_left (count_step pm) sites m)) =
    list_sum (map snd m) + List.length (filter (fun s => str_mem s pm) sites).
Proof.
  intros pm. induction sites as [|s sites IH]; intros m; cbn [fold_left filter]; [simpl; lia|].
  rewrite IH. unfold count_step. destruct (str_mem s pm); [|lia]. cbn [List.length].
  assert (H : forall (m0 : gomap nat) k, list_sum (map snd (mput m0 k (S (mget_d 0 m0 k)))) = S (list_sum (map snd m0))).
  { unfold mget_d. induction m0 as [|[k0 v0] m0 IHm]; intros k; simpl; [reflexivity|].
    destruct (String.eqb k0 k); simpl; [reflexivity|]. rewrite IHm. lia. }
  rewrite H. lia.
Qed.

(* the count of a method is the number of recorded call sites that resolve to it *)
Theorem count_exact : forall deps k,
    mget_d 0 (build_call_map deps) k =
    if str_mem k (project_method_names deps) then count_of_name k (all_call_names deps) else 0.
Proof. intros deps k. rewrite build_call_map_fold, count_fold_get. reflexivity. Qed.

Theorem count_keys_nodup : forall deps, NoDup (mkeys (build_call_map deps)).
Proof. intros deps. rewrite build_call_map_fold. apply count_fold_keys_nodup. constructor. Qed.

Theorem count_rows_positive : forall deps k v, In (k, v) (build_call_map deps) -> 0 < v.
Proof.
  intros deps k v. rewrite build_call_map_fold. apply count_fold_positive; [intros ? ? []|constructor].
Qed.

(* methods never called (and names that are not project methods) are absent *)
Theorem count_absent : forall deps k,
    count_of_name k (all_call_names deps) = 0 \/ str_mem k (project_method_names deps) = false ->
    mget (build_call_map deps) k = None.
Proof.
  intros deps k H. destruct (mget (build_call_map deps) k) as [v|] eqn:E; [|reflexivity]. exfalso.
  pose proof (count_exact deps k) as Hc. unfold mget_d in Hc. rewrite E in Hc.
  apply mget_some_in in E. apply count_rows_positive in E.
  destruct H as [H|H]; [rewrite H in Hc|rewrite H in Hc]; destruct (str_mem k (project_method_names deps)); lia.
Qed.

Theorem count_present : forall deps k,
    str_mem k (project_method_names deps) = true -> 0 < count_of_name k (all_call_names deps) ->
    mget (build_call_map deps) k = Some (count_of_name k (all_call_names deps)).
Proof.
  intros deps k Hd Hc. pose proof (count_exact deps k) as H. rewrite Hd in H. unfold mget_d in H.
  destruct (mget (build_call_map deps) k) as [v|]; [now subst|lia].
Qed.

(* conservation: the counts sum to the number of resolving call sites *)
Theorem count_conservation : forall deps,
    list_sum (map snd (build_call_map deps)) =
    List.length (filter (fun s => str_mem s (project_method_names deps)) (all_call_names deps)).
Proof. intros deps. rewrite build_call_map_fold, count_fold_sum. reflexivity. Qed.

(* ------------------------------------------------------------------ SortWord *)
Definition key_le (a b : string * nat) : bool := str_leb (fst a) (fst b).

Lemma key_le_total : forall a b, key_le a b = true \/ key_le b a = true.
Proof. intros a b. apply str_leb_total. Qed.
Lemma key_le_trans : forall a b c, key_le a b = true -> key_le b c = true -> key_le a c = true.
Proof. intros a b c. apply str_leb_trans. Qed.

Lemma str_leb_antisym : forall a b, str_leb a b = true -> str_leb b a = true -> a = b.
Proof.
  induction a as [|x a IH]; intros [|y b]; simpl; try discriminate; [reflexivity|].
  destruct (Nat.ltb (nat_of_ascii x) (nat_of_ascii y)) eqn:E1;
    destruct (Nat.ltb (nat_of_ascii y) (nat_of_ascii x)) eqn:E2; try discriminate.
  - apply Nat.ltb_lt in E1, E2. lia.
  - intros H1 H2. apply Nat.ltb_ge in E1, E2.
    assert (Hxy : nat_of_ascii x = nat_of_ascii y) by lia.
    assert (x = y) by (rewrite <- (ascii_nat_embedding x), <- (ascii_nat_embedding y); now rewrite Hxy).
    subst. f_equal. now apply IH.
Qed.

Theorem sort_word_sorted : forall m, sorted key_le (sort_word m).
Proof. intros m. apply sort_by_sorted; [apply key_le_total|apply key_le_trans]. Qed.

Theorem sort_word_perm : forall m, Permutation (sort_word m) m.
Proof. intros m. apply sort_by_perm; [apply key_le_total|apply key_le_trans]. Qed.

(* a list sorted by key whose keys are distinct is determined by its set of rows: whatever order the Go
   map is iterated in, the listing is the same *)
Lemma sorted_perm_unique : forall l1 l2 : list (string * nat),
    sorted key_le l1 -> sorted key_le l2 -> Permutation l1 l2 -> NoDup (map fst l1) -> l1 = l2.
Proof.
  induction l1 as [|a l1 IH]; intros l2 S1 S2 P N.
  - apply Permutation_nil in P. now subst.
  - destruct l2 as [|b l2]; [apply Permutation_sym, Permutation_nil in P; discriminate|].
    inversion S1 as [|? ? S1' F1]; subst. inversion S2 as [|? ? S2' F2]; subst.
    rewrite Forall_forall in F1, F2.
    assert (Hab : a = b).
    { assert (Ha : In a (b :: l2)) by (eapply Permutation_in; [exact P|now left]).
      assert (Hb : In b (a :: l1)) by (eapply Permutation_in; [apply Permutation_sym; exact P|now left]).
      destruct Ha as [Ha|Ha]; [now subst|]. destruct Hb as [Hb|Hb]; [now subst|].
      pose proof (F2 a Ha) as L1. pose proof (F1 b Hb) as L2. unfold key_le in L1, L2.
      pose proof (str_leb_antisym _ _ L2 L1) as Hk.
      (* same key, both among the rows of a :: l1 whose keys are distinct *)
      simpl in N. inversion N as [|? ? Hnot _]; subst. exfalso. apply Hnot. rewrite Hk.
      apply in_map. exact Hb. }
    subst b. f_equal. apply IH; [assumption|assumption|eapply Permutation_cons_inv; exact P|].
    simpl in N. now inversion N.
Qed.

Theorem sort_word_reproducible : forall m1 m2,
    Permutation m1 m2 -> NoDup (mkeys m1) -> sort_word m1 = sort_word m2.
Proof.
  intros m1 m2 P N. apply sorted_perm_unique; try apply sort_word_sorted.
  - rewrite sort_word_perm, P. symmetry. apply sort_word_perm.
  - eapply Permutation_NoDup; [|exact N]. unfold mkeys. apply Permutation_map. symmetry. apply sort_word_perm.
Qed.

Lemma sorted_nodup_strict : forall l : list (string * nat),
    sorted key_le l -> NoDup (map fst l) -> strictly_sorted (map fst l) = true.
Proof.
  induction l as [|a l IH]; intros S N; [reflexivity|].
  inversion S as [|? ? S' F]; subst. simpl in N. inversion N as [|? ? Hnot N']; subst.
  destruct l as [|b l]; [reflexivity|].
  change (strictly_sorted (map fst (a :: b :: l))) with
      (str_leb (fst a) (fst b) && negb (String.eqb (fst a) (fst b)) && strictly_sorted (map fst (b :: l))).
  rewrite IH by assumption. rewrite Forall_forall in F. pose proof (F b (or_introl eq_refl)) as L. unfold key_le in L.
  rewrite L. destruct (String.eqb (fst a) (fst b)) eqn:E; [|reflexivity].
  apply String.eqb_eq in E. exfalso. apply Hnot. rewrite E. now left.
Qed.

(* ------------------------------------------------------------------ the count verdict on the model *)
Lemma count_report_in : forall deps k v, In (k, v) (count_report deps) <-> In (k, v) (build_call_map deps).
Proof.
  intros deps k v. unfold count_report. split; intros H.
  - eapply Permutation_in; [apply sort_word_perm|exact H].
  - eapply Permutation_in; [apply Permutation_sym, sort_word_perm|exact H].
Qed.

Theorem count_report_meets_spec : forall deps, count_verdict deps (count_report deps) = [].
Proof.
  intros deps. unfold count_verdict.
  fold (project_method_names deps). fold (all_call_names deps).
  assert (C1 : forallb (fun kv : string * nat =>
                          str_mem (fst kv) (project_method_names deps) && Nat.ltb 0 (snd kv) &&
                          Nat.eqb (snd kv) (count_of_name (fst kv) (all_call_names deps))) (count_report deps) = true).
  { apply forallb_forall. intros [k v] Hin. apply count_report_in in Hin. cbn [fst snd].
    pose proof (count_rows_positive deps k v Hin) as Hp.
    pose proof (mget_in_nodup _ _ k v (count_keys_nodup deps) Hin) as Hg.
    pose proof (count_exact deps k) as He. unfold mget_d in He. rewrite Hg in He.
    destruct (str_mem k (project_method_names deps)); [|lia]. cbn [andb].
    apply andb_true_iff. split; [now apply Nat.ltb_lt|now apply Nat.eqb_eq]. }
  rewrite C1.
  assert (C2 : forallb (fun s => existsb (fun kv : string * nat => String.eqb (fst kv) s) (count_report deps))
                       (filter (fun s => str_mem s (project_method_names deps)) (all_call_names deps)) = true).
  { apply forallb_forall. intros s Hs. apply filter_In in Hs. destruct Hs as [Hs Hd].
    assert (Hc : 0 < count_of_name s (all_call_names deps)).
    { unfold count_of_name. clear -Hs. induction (all_call_names deps) as [|x l IH]; [contradiction|].
      simpl. destruct Hs as [Hs|Hs]; [subst; rewrite String.eqb_refl; simpl; lia|].
      destruct (String.eqb s x); simpl; [lia|auto]. }
    pose proof (count_present deps s Hd Hc) as Hg. apply mget_some_in in Hg. apply count_report_in in Hg.
    apply existsb_exists. eexists. split; [exact Hg|]. cbn [fst]. apply String.eqb_refl. }
  rewrite C2.
  assert (C3 : Nat.eqb (list_sum (map snd (count_report deps)))
                       (List.length (filter (fun s => str_mem s (project_method_names deps)) (all_call_names deps))) = true).
  { apply Nat.eqb_eq. rewrite <- count_conservation. apply list_sum_perm. apply Permutation_map.
    unfold count_report. apply sort_word_perm. }
  rewrite C3.
  assert (C4 : strictly_sorted (map fst (count_report deps)) = true).
  { apply sorted_nodup_strict; [apply sort_word_sorted|].
    eapply Permutation_NoDup; [|apply (count_keys_nodup deps)].
    unfold mkeys. apply Permutation_map. symmetry. apply sort_word_perm. }
  rewrite C4. reflexivity.
Qed.

(* ------------------------------------------------------------------ evaluation summary *)
Lemma str_mem_perm : forall x l l', Permutation l l' -> str_mem x l = str_mem x l'.
Proof.
  intros x l l' P. induction P; simpl; auto.
  - now rewrite IHP.
  - destruct (String.eqb x y), (String.eqb x x0); reflexivity.
  - congruence.
Qed.

(* static is static wherever it stands in the modifier list *)
Theorem is_static_permutation_invariant : forall f g, Permutation (f_mods f) (f_mods g) -> is_static f = is_static g.
Proof. intros f g P. unfold is_static. now apply str_mem_perm. Qed.

Definition same_up_to_modifier_order (d d' : ds) : Prop :=
  Forall2 (fun f f' => Permutation (f_mods f) (f_mods f')) (d_funcs d) (d_funcs d').

Theorem static_count_permutation_invariant : forall deps deps' idents idents',
    Forall2 same_up_to_modifier_order idents idents' ->
    es_static (evaluate deps idents) = es_static (evaluate deps' idents').
Proof.
  intros deps deps' idents idents' H. unfold evaluate. cbn [es_static]. f_equal.
  induction H as [|d d' l l' Hd _ IH]; [reflexivity|]. cbn [map]. f_equal; [|exact IH].
  unfold same_up_to_modifier_order in Hd. induction Hd as [|f f' fs fs' Hf _ IHf]; [reflexivity|].
  cbn [filter]. rewrite (is_static_permutation_invariant f f' Hf). destruct (is_static f'); cbn [List.length]; now rewrite IHf.
Qed.

Lemma sum_lengths : forall (A B : Type) (f : A -> list B) l,
    list_sum (map (fun d => List.length (f d)) l) = List.length (flat_map f l).
Proof. intros A B f. induction l as [|d l IH]; simpl; [reflexivity|]. now rewrite app_length, IH. Qed.

Theorem evaluate_counts : forall deps idents,
    es_classes (evaluate deps idents) = List.length idents /\
    es_methods (evaluate deps idents) = List.length (flat_map d_funcs idents) /\
    es_static (evaluate deps idents) = List.length (filter is_static (flat_map d_funcs idents)) /\
    es_utils (evaluate deps idents) = List.length (filter is_util_class deps).
Proof.
  intros deps idents. unfold evaluate. cbn [es_classes es_methods es_static es_utils].
  repeat split.
  - apply sum_lengths.
  - rewrite (sum_lengths ds func (fun d => filter is_static (d_funcs d))).
    f_equal. induction idents as [|d l IH]; simpl; [reflexivity|]. now rewrite filter_app, IH.
Qed.

(* nullable methods: listed once each, exactly those flagged or annotated *)
Definition nullable_step_f (d : ds) (m : gomap string) (f : func) : gomap string :=
  if nullable_method f then mput m (func_full_name d f) (func_full_name d f) else m.
Definition nullable_step_d (m : gomap string) (d : ds) : gomap string := fold_left (nullable_step_f d) (d_funcs d) m.

Lemma nullable_list_fold : forall idents, nullable_list idents = mkeys (fold_left nullable_step_d idents []).
Proof. reflexivity. Qed.

Lemma nullable_f_keys : forall d fs m x,
    In x (mkeys (fold_left (nullable_step_f d) fs m)) <->
    In x (mkeys m) \/ exists f, In f fs /\ nullable_method f = true /\ x = func_full_name d f.
Proof.
  intros d. induction fs as [|f fs IH]; intros m x; cbn [fold_left].
  - split; [auto|]. intros [H|[f [[] _]]]. exact H.
  - rewrite IH. unfold nullable_step_f. destruct (nullable_method f) eqn:E.
    + rewrite mkeys_mput_in. split.
      * intros [[H|H]|[g [Hg [Hn Hx]]]].
        -- right. exists f. repeat split; auto. now left.
        -- now left.
        -- right. exists g. repeat split; auto. now right.
      * intros [H|[g [[Hg|Hg] [Hn Hx]]]].
        -- left. now right.
        -- subst g. left. now left.
        -- right. exists g. auto.
    + split.
      * intros [H|[g [Hg [Hn Hx]]]]; [now left|]. right. exists g. repeat split; auto. now right.
      * intros [H|[g [[Hg|Hg] [Hn Hx]]]]; [now left| |].
        -- subst g. congruence.
        -- right. exists g. auto.
Qed.

Lemma nullable_f_nodup : forall d fs m, NoDup (mkeys m) -> NoDup (mkeys (fold_left (nullable_step_f d) fs m)).
Proof.
  intros d. induction fs as [|f fs IH]; intros m H; cbn [fold_left]; [assumption|].
  apply IH. unfold nullable_step_f. destruct (nullable_method f); [now apply mput_keys_nodup|assumption].
Qed.

Theorem nullable_list_exact : forall idents x,
    In x (nullable_list idents) <->
    exists d f, In d idents /\ In f (d_funcs d) /\ nullable_method f = true /\ x = func_full_name d f.
Proof.
  intros idents x. rewrite nullable_list_fold.
  assert (G : forall ds0 m, In x (mkeys (fold_left nullable_step_d ds0 m)) <->
                            In x (mkeys m) \/ exists d f, In d ds0 /\ In f (d_funcs d) /\ nullable_method f = true /\ x = func_full_name d f).
  { induction ds0 as [|d ds0 IH]; intros m; cbn [fold_left].
    - split; [auto|]. intros [H|[d [f [[] _]]]]. exact H.
    - rewrite IH. unfold nullable_step_d. rewrite nullable_f_keys. split.
      + intros [[H|[f [Hf [Hn Hx]]]]|[d' [f [Hd [Hf [Hn Hx]]]]]].
        * now left.
        * right. exists d, f. repeat split; auto. now left.
        * right. exists d', f. repeat split; auto. now right.
      + intros [H|[d' [f [[Hd|Hd] [Hf [Hn Hx]]]]]].
        * left. now left.
        * subst d'. left. right. exists f. auto.
        * right. exists d', f. auto. }
  rewrite G. split; [intros [[]|H]; exact H|intros H; now right].
Qed.

Theorem nullable_list_once : forall idents, NoDup (nullable_list idents).
Proof.
  intros idents. rewrite nullable_list_fold.
  assert (G : forall ds0 m, NoDup (mkeys m) -> NoDup (mkeys (fold_left nullable_step_d ds0 m))).
  { induction ds0 as [|d ds0 IH]; intros m H; cbn [fold_left]; [assumption|]. apply IH. now apply nullable_f_nodup. }
  apply G. constructor.
Qed.

(* the identifier pass: IsReturnNull is the disjunction over the return statements of the body *)
Definition null_return (e : bevent) : bool := match e with EReturn _ b => b | _ => false end.

Theorem ident_events_retnull : forall evs st,
    f_retnull (i_method (ident_events st evs)) = f_retnull (i_method st) || existsb null_return evs.
Proof.
  unfold ident_events. induction evs as [|e evs IH]; intros st; cbn [fold_left existsb].
  - now rewrite orb_false_r.
  - rewrite IH. destruct e; cbn [null_return i_method orb]; try reflexivity.
    cbn [set_retnull f_retnull]. now rewrite orb_assoc.
Qed.

Theorem ident_events_keeps : forall evs st,
    let st' := ident_events st evs in
    f_name (i_method st') = f_name (i_method st) /\ f_mods (i_method st') = f_mods (i_method st) /\
    f_annots (i_method st') = f_annots (i_method st) /\ i_node st' = i_node st /\ i_nodes st' = i_nodes st.
Proof.
  unfold ident_events. induction evs as [|e evs IH]; intros st; cbn [fold_left]; [repeat split|].
  destruct (IH (match e with
                | EReturn _ nulltok => mkI (i_node st) (i_nodes st) (set_retnull (i_method st) (f_retnull (i_method st) || nulltok))
                                           (i_hasEnterClass st) (i_imports st) (i_override st)
                | _ => st end)) as [H1 [H2 [H3 [H4 H5]]]].
  cbv zeta. rewrite H1, H2, H3, H4, H5. destruct e; repeat split; reflexivity.
Qed.

(* a method declaration is recorded with its modifiers in source order and the null flag of its body *)
Theorem ident_member_method : forall st m,
    m_kind m = "method" ->
    exists f, d_funcs (i_node (ident_member st m)) = d_funcs (i_node (fold_left (fun s a => if String.eqb a "Override"
                                  then mkI (i_node s) (i_nodes s) (i_method s) (i_hasEnterClass s) (i_imports s) true
                                  else s) (m_annots m) st)) ++ [f] /\
              f_name f = m_name m /\ f_mods f = m_mods m /\ f_retnull f = existsb null_return (m_events m).
Proof.
  intros st m Hk. unfold ident_member. rewrite Hk. cbn [String.eqb Ascii.eqb Bool.eqb].
  set (st1 := fold_left _ (m_annots m) st).
  match goal with |- context [ident_events ?s0 (m_events m)] => set (s0' := s0) end.
  destruct (ident_events_keeps (m_events m) s0') as [H1 [H2 [H3 [H4 H5]]]].
  pose proof (ident_events_retnull (m_events m) s0') as Hr.
  exists (i_method (ident_events s0' (m_events m))).
  cbn [i_node add_func d_funcs]. rewrite H4. subst s0'. cbn [i_node i_method f_name f_mods f_retnull orb] in *.
  repeat split; assumption.
Qed.

(* ------------------------------------------------------------------ concept words *)
Lemma mget_mdel_same : forall (V : Type) (m : gomap V) k, NoDup (mkeys m) -> mget (mdel m k) k = None.
Proof.
  unfold mkeys. induction m as [|[k0 v0] m IH]; intros k H; simpl; [reflexivity|].
  inversion H as [|? ? Hn Hd]; subst. destruct (String.eqb k0 k) eqn:E.
  - apply String.eqb_eq in E. subst. destruct (mget m k) eqn:G; [|reflexivity].
    exfalso. apply Hn. eapply mget_some_in_keys. exact G.
  - simpl. rewrite E. now apply IH.
Qed.

Lemma mget_mdel_other : forall (V : Type) (m : gomap V) k k', k <> k' -> mget (mdel m k) k' = mget m k'.
Proof.
  induction m as [|[k0 v0] m IH]; intros k k' Hne; simpl; [reflexivity|].
  destruct (String.eqb k0 k) eqn:E.
  - apply String.eqb_eq in E. subst. destruct (String.eqb k k') eqn:E2; [|reflexivity].
    apply String.eqb_eq in E2. contradiction.
  - simpl. destruct (String.eqb k0 k'); [reflexivity|]. now apply IH.
Qed.

Definition remove_step (m : gomap nat) (w : string) : gomap nat := if Nat.ltb 0 (mget_d 0 m w) then mdel m w else m.

Definition all_positive (m : gomap nat) : Prop := forall k v, mget m k = Some v -> 0 < v.

Lemma remove_step_inv : forall m x, NoDup (mkeys m) -> all_positive m ->
    NoDup (mkeys (remove_step m x)) /\ all_positive (remove_step m x).
Proof.
  intros m x Hn Hp. unfold remove_step. destruct (Nat.ltb 0 (mget_d 0 m x)); [|auto]. split.
  - now apply mdel_keys_nodup.
  - intros k v H. destruct (string_dec x k) as [->|Hne].
    + rewrite mget_mdel_same in H by assumption. discriminate.
    + rewrite mget_mdel_other in H by assumption. eauto.
Qed.

Lemma remove_fold_get : forall ws m w, NoDup (mkeys m) -> all_positive m ->
    mget (fold_left remove_step ws m) w = if str_mem w ws then None else mget m w.
Proof.
  induction ws as [|x ws IH]; intros m w Hn Hp; cbn [fold_left]; [reflexivity|].
  change (str_mem w (x :: ws)) with (String.eqb w x || str_mem w ws).
  destruct (remove_step_inv m x Hn Hp) as [Hn' Hp']. rewrite IH by assumption.
  destruct (String.eqb w x) eqn:E.
  - apply String.eqb_eq in E. subst x. cbn [orb].
    assert (G : mget (remove_step m w) w = None).
    { unfold remove_step. destruct (Nat.ltb 0 (mget_d 0 m w)) eqn:L; [now apply mget_mdel_same|].
      apply Nat.ltb_ge in L. unfold mget_d in L. destruct (mget m w) as [v|] eqn:G; [|reflexivity].
      pose proof (Hp w v G). lia. }
    rewrite G. now destruct (str_mem w ws).
  - cbn [orb]. destruct (str_mem w ws); [reflexivity|].
    unfold remove_step. destruct (Nat.ltb 0 (mget_d 0 m x)); [|reflexivity].
    apply mget_mdel_other. intros ->. rewrite String.eqb_refl in E. discriminate.
Qed.

Lemma remove_fold_inv : forall ws m, NoDup (mkeys m) -> all_positive m ->
    NoDup (mkeys (fold_left remove_step ws m)) /\ all_positive (fold_left remove_step ws m).
Proof.
  induction ws as [|x ws IH]; intros m Hn Hp; cbn [fold_left]; [auto|].
  destruct (remove_step_inv m x Hn Hp). now apply IH.
Qed.

(* the words of the model's segmentation *)
Definition keep_word (w : string) : bool := negb (all_digits w || String.eqb w "").
Definition model_words (names : list string) : list string :=
  flat_map (fun name => filter keep_word (split "." (to_delimited name))) names.

Definition seg_step (m : gomap nat) (w : string) : gomap nat :=
  if all_digits w || String.eqb w "" then m else mput m w (S (mget_d 0 m w)).

Lemma seg_fold_get : forall ws m k,
    mget_d 0 (fold_left seg_step ws m) k = mget_d 0 m k + count_of_name k (filter keep_word ws).
Proof.
  induction ws as [|w ws IH]; intros m k; cbn [fold_left filter]; [unfold count_of_name; simpl; lia|].
  rewrite IH. unfold seg_step, keep_word at 2. destruct (all_digits w || String.eqb w ""); cbn [negb]; [reflexivity|].
  rewrite mget_d_mput. unfold count_of_name. cbn [filter]. destruct (String.eqb w k) eqn:E.
  - apply String.eqb_eq in E. subst. rewrite String.eqb_refl. cbn [List.length]. lia.
  - rewrite String.eqb_sym, E. reflexivity.
Qed.

Lemma seg_fold_inv : forall ws m, NoDup (mkeys m) -> all_positive m ->
    NoDup (mkeys (fold_left seg_step ws m)) /\ all_positive (fold_left seg_step ws m).
Proof.
  induction ws as [|w ws IH]; intros m Hn Hp; cbn [fold_left]; [auto|]. apply IH.
  - unfold seg_step. destruct (all_digits w || String.eqb w ""); [assumption|now apply mput_keys_nodup].
  - unfold seg_step. destruct (all_digits w || String.eqb w ""); [assumption|].
    intros k v H. rewrite mget_mput in H. destruct (String.eqb w k); [inversion H; lia|eauto].
Qed.

Lemma segment_fold : forall names m,
    fold_left (fun m name => fold_left (fun m w => if all_digits w || String.eqb w "" then m else mput m w (S (mget_d 0 m w)))
                                       (split "." (to_delimited name)) m) names m =
    fold_left seg_step (flat_map (fun name => split "." (to_delimited name)) names) m.
Proof.
  induction names as [|n names IH]; intros m; cbn [fold_left flat_map]; [reflexivity|].
  rewrite fold_left_app. rewrite IH. reflexivity.
Qed.

Lemma filter_flat_map : forall (A B : Type) (p : B -> bool) (f : A -> list B) l,
    filter p (flat_map f l) = flat_map (fun x => filter p (f x)) l.
Proof. intros A B p f. induction l as [|x l IH]; simpl; [reflexivity|]. now rewrite filter_app, IH. Qed.

Lemma count_filter : forall k p l, count_of_name k (filter p l) = if p k then count_of_name k l else 0.
Proof.
  intros k p. unfold count_of_name. induction l as [|x l IH]; simpl; [now destruct (p k)|].
  destruct (p x) eqn:Px; simpl; destruct (String.eqb k x) eqn:E; simpl; rewrite IH; try reflexivity.
  - apply String.eqb_eq in E. subst. rewrite Px. reflexivity.
  - apply String.eqb_eq in E. subst. rewrite Px. reflexivity.
Qed.

Lemma length_split_count : forall k l,
    List.length l = count_of_name k l + List.length (filter (fun x => negb (String.eqb k x)) l).
Proof.
  intros k. unfold count_of_name. induction l as [|x l IH]; simpl; [reflexivity|].
  destruct (String.eqb k x); simpl; lia.
Qed.

(* a map with distinct keys whose cells hold the multiplicities of a word list sums to its length *)
Lemma sum_by_counts : forall (m : gomap nat) ws,
    NoDup (mkeys m) -> (forall k, mget_d 0 m k = count_of_name k ws) -> (forall w, In w ws -> In w (mkeys m)) ->
    list_sum (map snd m) = List.length ws.
Proof.
  induction m as [|[k0 v0] m IH]; intros ws Hn Hc Hin.
  - destruct ws as [|w ws]; [reflexivity|]. destruct (Hin w (or_introl eq_refl)).
  - unfold mkeys in Hn. simpl in Hn. inversion Hn as [|? ? Hnot Hd]; subst. cbn [map snd].
    change (list_sum (v0 :: map snd m)) with (v0 + list_sum (map snd m)).
    rewrite (length_split_count k0 ws). f_equal.
    + pose proof (Hc k0) as H. unfold mget_d in H. cbn [mget] in H. rewrite String.eqb_refl in H. exact H.
    + apply IH; [assumption| |].
      * intros k. rewrite count_filter. destruct (String.eqb k0 k) eqn:E; cbn [negb].
        -- apply String.eqb_eq in E. subst. unfold mget_d. destruct (mget m k) eqn:G; [|reflexivity].
           exfalso. apply Hnot. eapply (mget_some_in_keys m). exact G.
        -- pose proof (Hc k) as H. unfold mget_d in H. cbn [mget] in H. rewrite E in H. exact H.
      * intros w Hw. apply filter_In in Hw. destruct Hw as [Hw Hne].
        destruct (Hin w Hw) as [H|H]; [|exact H]. simpl in H. subst. rewrite String.eqb_refl in Hne. discriminate.
Qed.

Lemma concept_map_spec : forall sw names,
    let m := remove_words sw (segment_camelcase names) in
    NoDup (mkeys m) /\ all_positive m /\
    forall k, mget m k = if str_mem k sw then None
                         else match count_of_name k (model_words names) with 0 => None | n => Some n end.
Proof.
  intros sw names. unfold remove_words, segment_camelcase.
  change (fun (m : gomap nat) (w : string) => if Nat.ltb 0 (mget_d 0 m w) then mdel m w else m) with remove_step.
  rewrite segment_fold.
  destruct (seg_fold_inv (flat_map (fun name => split "." (to_delimited name)) names) [] (NoDup_nil _)) as [Hn Hp];
    [intros k v H; discriminate|].
  destruct (remove_fold_inv sw _ Hn Hp) as [Hn' Hp']. cbv zeta.
  split; [assumption|split; [assumption|]]. intros k. rewrite remove_fold_get by assumption.
  destruct (str_mem k sw); [reflexivity|].
  pose proof (seg_fold_get (flat_map (fun name => split "." (to_delimited name)) names) [] k) as G.
  rewrite filter_flat_map in G. fold (model_words names) in G. unfold mget_d in G. simpl in G.
  destruct (mget _ k) as [v|] eqn:E.
  - pose proof (Hp k v E). rewrite <- G. destruct v; [lia|reflexivity].
  - now rewrite <- G.
Qed.

(* stop words never reach the report *)
Theorem concept_words_no_stop : forall sw names w, In w sw -> ~ In w (map fst (concept_words sw names)).
Proof.
  intros sw names w Hw Hin. unfold concept_words in Hin.
  destruct (concept_map_spec sw names) as [Hn [Hp Hg]].
  apply in_map_iff in Hin. destruct Hin as [[k v] [Hk Hin]]. cbn [fst] in Hk. subst k.
  apply (Permutation_in _ (sort_word_perm _)) in Hin.
  apply mget_in_nodup in Hin; [|assumption].
  assert (Hm : str_mem w sw = true) by now apply str_mem_In.
  pose proof (Hg w) as G. rewrite Hm in G. congruence.
Qed.

(* the word counts sum to the number of words of the method names that are not stop words *)
Theorem concept_words_sum : forall sw names,
    list_sum (map snd (concept_words sw names)) =
    List.length (filter (fun w => negb (str_mem w sw)) (model_words names)).
Proof.
  intros sw names. unfold concept_words.
  destruct (concept_map_spec sw names) as [Hn [Hp Hg]].
  rewrite (list_sum_perm _ _ (Permutation_map snd (sort_word_perm _))).
  apply sum_by_counts; [assumption| |].
  - intros k. unfold mget_d. rewrite Hg, count_filter. destruct (str_mem k sw); cbn [negb]; [reflexivity|].
    now destruct (count_of_name k (model_words names)).
  - intros w Hw. apply filter_In in Hw. destruct Hw as [Hw Hs]. apply negb_true_iff in Hs.
    assert (Hc : 0 < count_of_name w (model_words names)).
    { unfold count_of_name. clear -Hw. induction (model_words names) as [|x l IH]; [contradiction|]. simpl.
      destruct Hw as [->|Hw]; [rewrite String.eqb_refl; simpl; lia|]. destruct (String.eqb w x); simpl; [lia|auto]. }
    pose proof (Hg w) as G. rewrite Hs in G. destruct (count_of_name w (model_words names)) eqn:E; [lia|].
    eapply (mget_some_in_keys _ w). exact G.
Qed.

Definition method_names (deps : list ds) : list string := flat_map (fun d => map f_name (d_funcs d)) deps.

Theorem concept_no_stop_words : forall deps w, In w stop_words -> ~ In w (map fst (concept_analysis deps)).
Proof. intros deps w. apply concept_words_no_stop. Qed.

Theorem concept_sum : forall deps,
    list_sum (map snd (concept_analysis deps)) =
    List.length (filter (fun w => negb (str_mem w stop_words)) (model_words (method_names deps))).
Proof. intros deps. apply concept_words_sum. Qed.

(* the report is in key order and reproducible *)
Theorem concept_sorted : forall deps, sorted key_le (concept_analysis deps).
Proof. intros deps. apply sort_word_sorted. Qed.

(* non-vacuity *)
Example ex_to_delimited :
  map to_delimited ["parseXMLDocument"; "getUserName"; "sha256Hash"; "MAX_VALUE"; "toJSON"; "xYZ"; "a1b2c"] =
  ["parse.xml.document"; "get.user.name"; "sha.256.hash"; "max.value"; "to.json"; "xyz"; "a.1.b2c"].
Proof. vm_compute. reflexivity. Qed.

(* a small model: B.run is called twice by A.go and once by itself, C.idle never, ext.Lib.x is not a
   project method; A has a static method with the modifiers in an unusual order *)
Definition ex_c (pkg node fn : string) : call := mkCall pkg "" node fn [] (mkPos 0 0 0 0).
Definition ex_f (name : string) (calls : list call) (mods : list string) (retnull : bool) (annots : list string) : func :=
  mkFunc name "void" [] calls false (map (fun a => mkAnnot a []) annots) false retnull mods (mkPos 0 0 0 0).
Definition ex_model : list ds :=
  [ mkDs "A" "Class" "p" "p/A.java" [] "" []
         [ ex_f "go" [ex_c "p" "B" "run"; ex_c "ext" "Lib" "x"; ex_c "p" "B" "run"] ["final"; "static"; "public"] false [];
           ex_f "findUserByName" [] ["public"] true [] ] [] [] [];
    mkDs "B" "Class" "p" "p/B.java" [] "" [] [ ex_f "run" [ex_c "p" "B" "run"] ["public"] false ["Nullable"] ] [] [] [];
    mkDs "StringUtils" "Class" "p" "p/StringUtils.java" [] "" [] [ ex_f "idle" [] [] false []; ex_f "idle" [] [] true [] ] [] [] [] ].

Example ex_counts : count_report ex_model = [("p.B.run", 3)].
Proof. vm_compute. reflexivity. Qed.

Example ex_evaluate :
  let e := evaluate ex_model ex_model in
  (es_classes e, es_methods e, es_static e, es_utils e, es_nullable e) =
  (3, 5, 1, 1, ["p.A.findUserByName"; "p.B.run"; "p.StringUtils.idle"]).
Proof. vm_compute. reflexivity. Qed.

Example ex_concept : concept_words ["find"; "by"; "run"; "go"] (method_names ex_model) = [("idle", 2); ("name", 1); ("user", 1)].
Proof. vm_compute. reflexivity. Qed.
