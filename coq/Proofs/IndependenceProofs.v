(* C07: the result of every pass for a file is a function of that file (and the identifier set):
   whatever the process analysed before, in whatever order, however often. *)
From Coq Require Import String List Bool Arith Lia Permutation.
From Coca Require Import Lib.Sx Lib.GoMap Lib.Str Model.CodeModel Model.JavaFull Model.JavaFactsCodec Model.JavaIdent
     Model.ApiScan Model.BadSmell Model.RCall Model.CallGraph Proofs.JavaFullProofs Proofs.ApiProofs
     Entry.C10 Entry.C12 Entry.C07.
Import ListNotations.
Open Scope string_scope.
Open Scope list_scope.

(* ------------------------------------------------------------------ identifier pass *)
Definition ident_of_file (u : junit) : list ds := i_nodes (ident_unit istate0 u).

Lemma new_ident_listener_fresh : forall st, new_ident_listener st = istate0.
Proof. reflexivity. Qed.

Lemma ident_files_gen : forall units st out,
    snd (fold_left (fun acc u => let '(s, out) := acc in
                                 let s1 := ident_unit (new_ident_listener s) u in (s1, out ++ i_nodes s1))
                   units (st, out)) = out ++ flat_map ident_of_file units.
Proof.
  induction units as [|u us IH]; intros st out; cbn [fold_left flat_map].
  - now rewrite app_nil_r.
  - rewrite IH. rewrite new_ident_listener_fresh. unfold ident_of_file. now rewrite app_assoc.
Qed.

Theorem ident_files_per_file : forall units st, snd (ident_files st units) = flat_map ident_of_file units.
Proof. intros units st. unfold ident_files. now rewrite ident_files_gen. Qed.

(* ------------------------------------------------------------------ full pass *)
Definition set_type (st : fstate) (t : string) : fstate :=
  mkF (s_imports st) (s_clzs st) (s_pkg st) (s_clz st) (s_fields st) t (s_mapFields st)
      (s_localVars st) (s_formals st) (s_clzExtend st) (s_method st) (s_methodMap st) (s_methodQueue st)
      (s_identMap st) (s_override st) (s_node st) (s_classNodes st) (s_file st) (s_hasEnterClass st).

Lemma new_listener_set_type : forall st ids cls file,
    new_listener st ids cls file = set_type (new_listener (set_has_enter fstate0 (s_hasEnterClass st)) ids cls file) (s_type st).
Proof. intros. reflexivity. Qed.

Lemma unit_header_set_type : forall st t u, unit_header (set_type st t) u = set_type (unit_header st u) t.
Proof. intros. reflexivity. Qed.

Lemma type_annot_set_type : forall st t a, type_annot (set_type st t) a = set_type (type_annot st a) t.
Proof.
  intros st t a. unfold type_annot. cbn [set_type set_override s_hasEnterClass].
  destruct (s_hasEnterClass st); reflexivity.
Qed.

Lemma type_annots_set_type : forall l st t, fold_left type_annot l (set_type st t) = set_type (fold_left type_annot l st) t.
Proof. induction l as [|a l IH]; intros st t; cbn [fold_left]; [reflexivity|]. now rewrite type_annot_set_type, IH. Qed.

Lemma enter_type_set_type : forall st t u, enter_type (set_type st t) u = enter_type st u.
Proof. intros st t u. unfold enter_type. destruct (String.eqb (u_kind u) "class"); reflexivity. Qed.

(* the type recorded for the previous file is overwritten before it is read *)
Lemma walk_unit_set_type : forall st t u, walk_unit (set_type st t) u = walk_unit st u.
Proof.
  intros st t u. unfold walk_unit. now rewrite unit_header_set_type, type_annots_set_type, enter_type_set_type.
Qed.

Definition full_of_file (ids : list string) (u : junit) : list ds :=
  s_classNodes (walk_unit (new_listener fstate0 ids ids (u_path u)) u).

Lemma walk_unit_fresh : forall st ids u,
    s_hasEnterClass st = false ->
    walk_unit (new_listener st ids ids (u_path u)) u = walk_unit (new_listener fstate0 ids ids (u_path u)) u.
Proof.
  intros st ids u H. rewrite (new_listener_set_type st), walk_unit_set_type.
  rewrite (new_listener_set_type fstate0), walk_unit_set_type. now rewrite H.
Qed.

Lemma walk_unit_leaves : forall ids u,
    s_hasEnterClass (walk_unit (new_listener fstate0 ids ids (u_path u)) u) = false.
Proof.
  intros ids u.
  destruct (new_listener_shape fstate0 ids ids (u_path u)) as [N1 [N2 [N3 N4]]].
  destruct (walk_unit_one_entry (new_listener fstate0 ids ids (u_path u)) u) as [n [_ [_ [_ [_ [_ [_ W7]]]]]]];
    [now rewrite N1|now rewrite N2|now rewrite N2|exact W7].
Qed.

Lemma analysis_files_gen : forall ids units st out,
    s_hasEnterClass st = false ->
    let r := fold_left (fun acc u => let '(s, out) := acc in
                                     let s1 := walk_unit (new_listener s ids ids (u_path u)) u in
                                     (s1, out ++ s_classNodes s1)) units (st, out) in
    snd r = out ++ flat_map (full_of_file ids) units /\ s_hasEnterClass (fst r) = false.
Proof.
  intros ids. induction units as [|u us IH]; intros st out H; cbn [fold_left flat_map].
  - cbn. now rewrite app_nil_r.
  - rewrite (walk_unit_fresh st ids u H).
    destruct (IH (walk_unit (new_listener fstate0 ids ids (u_path u)) u)
                 (out ++ s_classNodes (walk_unit (new_listener fstate0 ids ids (u_path u)) u))
                 (walk_unit_leaves ids u)) as [I1 I2].
    split; [|exact I2]. cbv zeta in I1. rewrite I1. unfold full_of_file at 2. now rewrite app_assoc.
Qed.

Theorem analysis_files_per_file : forall ids units st,
    s_hasEnterClass st = false ->
    snd (analysis_files st ids units) = flat_map (full_of_file ids) units /\
    s_hasEnterClass (fst (analysis_files st ids units)) = false.
Proof. intros ids units st H. unfold analysis_files. apply (analysis_files_gen ids units st [] H). Qed.

(* ------------------------------------------------------------------ consequences shared by the passes *)
Section PerFile.
  Context {U E : Type}.
  Variable per : U -> list E.

  (* order: the entries of a permuted file list are the same entries, permuted file-wise *)
  Lemma per_file_permutation : forall l l', Permutation l l' -> Permutation (flat_map per l) (flat_map per l').
  Proof.
    induction 1; cbn [flat_map].
    - constructor.
    - now apply Permutation_app_head.
    - rewrite !app_assoc. apply Permutation_app_tail. apply Permutation_app_comm.
    - etransitivity; eauto.
  Qed.

  (* other files: adding or removing files leaves the entries of a file that stays as they are *)
  Lemma per_file_superset : forall u l, In u l -> exists a b, flat_map per l = a ++ per u ++ b.
  Proof.
    intros u l H. apply in_split in H. destruct H as [l1 [l2 ->]].
    exists (flat_map per l1), (flat_map per l2). now rewrite flat_map_app.
  Qed.
End PerFile.

(* ------------------------------------------------------------------ bad smells, API scan, graphs *)
Theorem bad_smell_per_file : forall a b ignore,
    identify_bad_smell (a ++ b) ignore = identify_bad_smell a ignore ++ identify_bad_smell b ignore.
Proof. intros. unfold identify_bad_smell, analysis_bad_smell. now rewrite flat_map_app, filter_app. Qed.

Theorem api_files_state_free : forall units st st', option_map snd (api_files st units) = option_map snd (api_files st' units).
Proof.
  intros units st st'. unfold api_files.
  assert (G : forall us a b out,
             option_map snd (fold_left (fun acc u => match acc with
                                     | None => None
                                     | Some (s, out) => match api_unit (new_api_listener s) u with
                                                        | APanic => None
                                                        | AOk s1 => Some (s1, out ++ a_apis s1)
                                                        end end) us (Some (a, out))) =
             option_map snd (fold_left (fun acc u => match acc with
                                     | None => None
                                     | Some (s, out) => match api_unit (new_api_listener s) u with
                                                        | APanic => None
                                                        | AOk s1 => Some (s1, out ++ a_apis s1)
                                                        end end) us (Some (b, out)))).
  { induction us as [|u us IH]; intros a b out; cbn [fold_left]; [reflexivity|].
    rewrite (new_listener_state_free a b). destruct (api_unit (new_api_listener b) u); [apply IH|reflexivity]. }
  apply G.
Qed.

Theorem call_graph_repeatable : forall cnt cnt' root m lookup,
    snd (canalysis cnt root m lookup) = snd (canalysis cnt' root m lookup).
Proof. reflexivity. Qed.

Theorem rcall_graph_repeatable : forall st st' target m,
    snd (ranalysis st target m) = snd (ranalysis st' target m).
Proof. reflexivity. Qed.

(* ------------------------------------------------------------------ histories (the driver's interpreter) *)
Definition good (st : pstate) : Prop := s_hasEnterClass (ps_f st) = false.
Definition pstate_init (i : istate) : pstate := mkPS i fstate0 astate0.

(* the output of a run does not depend on the state the earlier runs left behind *)
Theorem run_one_history_free : forall files names0 st st' r,
    good st -> good st' ->
    snd (run_one files names0 st r) = snd (run_one files names0 st' r) /\ good (fst (run_one files names0 st r)).
Proof.
  intros files names0 st st' r G G'. unfold run_one.
  set (sel := pick files (map sx_nat (sx_list (sx_nth 1 r)))).
  set (facts := map (fun f => sx_nth 3 f) sel).
  destruct (String.eqb (sx_str (sx_nth 0 r)) "ident").
  { pose proof (ident_files_per_file (map unit_of_sx facts) (ps_i st)) as H1.
    pose proof (ident_files_per_file (map unit_of_sx facts) (ps_i st')) as H2.
    destruct (ident_files (ps_i st) (map unit_of_sx facts)) as [s1 o1].
    destruct (ident_files (ps_i st') (map unit_of_sx facts)) as [s2 o2].
    cbn [snd fst] in *. subst. split; [reflexivity|exact G]. }
  destruct (String.eqb (sx_str (sx_nth 0 r)) "full").
  { destruct (analysis_files_per_file names0 (map unit_of_sx facts) (ps_f st) G) as [H1 K1].
    destruct (analysis_files_per_file names0 (map unit_of_sx facts) (ps_f st') G') as [H2 _].
    destruct (analysis_files (ps_f st) names0 (map unit_of_sx facts)) as [s1 o1].
    destruct (analysis_files (ps_f st') names0 (map unit_of_sx facts)) as [s2 o2].
    cbn [snd fst] in *. subst. split; [reflexivity|exact K1]. }
  destruct (String.eqb (sx_str (sx_nth 0 r)) "bs"); [split; [reflexivity|exact G]|].
  destruct (String.eqb (sx_str (sx_nth 0 r)) "api"); [|split; [reflexivity|exact G]].
  pose proof (api_files_state_free (map aunit_of_sx facts) (ps_a st) (ps_a st')) as H.
  destruct (api_files (ps_a st) (map aunit_of_sx facts)) as [[s1 o1]|];
    destruct (api_files (ps_a st') (map aunit_of_sx facts)) as [[s2 o2]|]; cbn [option_map snd fst] in *;
      try discriminate; split; try exact G; try reflexivity.
  inversion H. reflexivity.
Qed.

(* every run of every history yields what it yields as the only run of a fresh process *)
Theorem history_free : forall files names0 rs st,
    good st ->
    run_all files names0 st rs = map (fun r => snd (run_one files names0 (pstate_init istate0) r)) rs.
Proof.
  intros files names0. induction rs as [|r rs IH]; intros st G; cbn [run_all map]; [reflexivity|].
  destruct (run_one_history_free files names0 st (pstate_init istate0) r G eq_refl) as [H1 H2].
  destruct (run_one files names0 st r) as [st1 o] eqn:E. cbn [snd fst] in *. rewrite H1. f_equal. now apply IH.
Qed.
