(* C07: the entries attributed to one file (by the key the check groups them by) are the same in every run
   that processes the file, whatever other files are processed with it and in whatever order. *)
From Coq Require Import String List Bool Arith Lia.
From Coca Require Import Lib.Sx Lib.GoMap Lib.Str Model.CodeModel Model.JavaFull Model.JavaIdent
     Proofs.JavaFullProofs Proofs.JavaIdentProofs Proofs.IndependenceProofs.
Import ListNotations.
Open Scope string_scope.
Open Scope list_scope.

Section Keyed.
  Context {U E : Type}.
  Variable per : U -> list E.
  Variable ukey : U -> string.
  Variable ekey : E -> string.
  Hypothesis key_ok : forall u e, In e (per u) -> ekey e = ukey u.

  Definition entries_for (k : string) (l : list E) : list E := filter (fun e => String.eqb (ekey e) k) l.

  Lemma entries_for_own : forall u, entries_for (ukey u) (per u) = per u.
  Proof.
    intros u. unfold entries_for. assert (H : forall e, In e (per u) -> String.eqb (ekey e) (ukey u) = true)
      by (intros e He; apply String.eqb_eq; now apply key_ok).
    induction (per u) as [|e l IH]; [reflexivity|]. cbn [filter]. rewrite (H e (or_introl eq_refl)).
    f_equal. apply IH. intros x Hx. apply H. now right.
  Qed.

  Lemma entries_for_other : forall u k, ukey u <> k -> entries_for k (per u) = [].
  Proof.
    intros u k Hne. unfold entries_for.
    assert (H : forall e, In e (per u) -> String.eqb (ekey e) k = false)
      by (intros e He; apply String.eqb_neq; rewrite (key_ok u e He); exact Hne).
    induction (per u) as [|e l IH]; [reflexivity|]. cbn [filter]. rewrite (H e (or_introl eq_refl)).
    apply IH. intros x Hx. apply H. now right.
  Qed.

  Lemma entries_for_absent : forall us k, ~ In k (map ukey us) -> entries_for k (flat_map per us) = [].
  Proof.
    induction us as [|y us IH]; intros k Hk; [reflexivity|].
    cbn [flat_map]. unfold entries_for in *. rewrite filter_app.
    fold (entries_for k (per y)). rewrite entries_for_other.
    - apply IH. intros H. apply Hk. now right.
    - intros H. apply Hk. left. exact H.
  Qed.

  (* in the result of any file list with distinct keys that contains u, the entries grouped under u's key are
     exactly the entries u yields on its own *)
  Theorem entries_of_file : forall us u,
      NoDup (map ukey us) -> In u us -> entries_for (ukey u) (flat_map per us) = per u.
  Proof.
    induction us as [|x us IH]; intros u Hn Hin; [contradiction|].
    cbn [flat_map]. unfold entries_for in *. rewrite filter_app. cbn [map] in Hn. inversion Hn as [|? ? Hnot Hd]; subst.
    destruct Hin as [Hx|Hin].
    - subst x. fold (entries_for (ukey u) (per u)). rewrite entries_for_own.
      pose proof (entries_for_absent us (ukey u) Hnot) as G. unfold entries_for in G.
      rewrite G. apply app_nil_r.
    - fold (entries_for (ukey u) (per x)). rewrite entries_for_other.
      + now apply IH.
      + intros H. apply Hnot. rewrite H. now apply in_map.
  Qed.

  Corollary entries_same_in_every_run : forall us1 us2 u,
      NoDup (map ukey us1) -> NoDup (map ukey us2) -> In u us1 -> In u us2 ->
      entries_for (ukey u) (flat_map per us1) = entries_for (ukey u) (flat_map per us2).
  Proof. intros. rewrite !entries_of_file; auto. Qed.

  (* and a run yields entries for the files it processed only *)
  Theorem no_foreign_entry : forall us e, In e (flat_map per us) -> In (ekey e) (map ukey us).
  Proof.
    intros us e H. apply in_flat_map in H. destruct H as [u [Hu He]]. rewrite (key_ok u e He). now apply in_map.
  Qed.
End Keyed.

(* ---- instances: the identifier pass and the full pass, keyed by package.name as the check does ---- *)
Definition unit_key (u : junit) : string := (if u_has_pkg u then u_pkg u else "") ++ "." ++ u_name u.

Lemma ident_key_ok : forall u e, u_name u <> "" -> In e (ident_of_file u) -> ds_full_name e = unit_key u.
Proof.
  intros u e Hn He. unfold ident_of_file in He.
  destruct (ident_unit_exact istate0 u Hn) as [n [H1 [H2 [_ [H4 _]]]]].
  change (new_ident_listener istate0) with istate0 in H1. rewrite H1 in He. destruct He as [He|[]]. subst e.
  unfold ds_full_name, unit_key. now rewrite H2, H4.
Qed.

Lemma full_key_ok : forall ids u e, In e (full_of_file ids u) -> ds_full_name e = unit_key u.
Proof.
  intros ids u e He. unfold full_of_file in He.
  destruct (new_listener_shape fstate0 ids ids (u_path u)) as [N1 [N2 [N3 N4]]].
  destruct (walk_unit_one_entry (new_listener fstate0 ids ids (u_path u)) u) as [n [W1 [W2 [_ [W4 _]]]]];
    [now rewrite N1|now rewrite N2|now rewrite N2|].
  rewrite W1, N3 in He. destruct He as [He|[]]. subst e.
  unfold ds_full_name, unit_key. rewrite W2, W4, N2. reflexivity.
Qed.

Definition named_units (us : list junit) : Prop := forall u, In u us -> u_name u <> "".

(* identifier pass: in every run (any listener state before, any selection with distinct keys containing the
   unit, any order) the entries grouped under the unit's key are those the unit yields on its own.
   Units without a name yield no keyed entry; they are left out by the hypothesis. *)
Definition ident_of_named (u : junit) : list ds := if String.eqb (u_name u) "" then [] else ident_of_file u.

Lemma ident_named_key_ok : forall u e, In e (ident_of_named u) -> ds_full_name e = unit_key u.
Proof.
  intros u e He. unfold ident_of_named in He. destruct (String.eqb (u_name u) "") eqn:E; [contradiction|].
  apply ident_key_ok; [now apply String.eqb_neq|assumption].
Qed.

Lemma ident_named_same : forall us, named_units us -> flat_map ident_of_file us = flat_map ident_of_named us.
Proof.
  induction us as [|x us IH]; intros H; [reflexivity|]. cbn [flat_map]. rewrite IH by (intros y Hy; apply H; now right).
  unfold ident_of_named. assert (E : String.eqb (u_name x) "" = false) by (apply String.eqb_neq; apply H; now left).
  now rewrite E.
Qed.

Theorem ident_entries_of_file : forall st us u,
    named_units us -> NoDup (map unit_key us) -> In u us ->
    filter (fun e => String.eqb (ds_full_name e) (unit_key u)) (snd (ident_files st us)) = ident_of_file u.
Proof.
  intros st us u Hn Hd Hin. rewrite ident_files_per_file, (ident_named_same us Hn).
  pose proof (entries_of_file ident_of_named unit_key ds_full_name ident_named_key_ok us u Hd Hin) as H.
  unfold entries_for in H. rewrite H. unfold ident_of_named.
  assert (E : String.eqb (u_name u) "" = false) by (apply String.eqb_neq; now apply Hn). now rewrite E.
Qed.

(* full pass, identifier set fixed *)
Theorem full_entries_of_file : forall st ids us u,
    s_hasEnterClass st = false -> NoDup (map unit_key us) -> In u us ->
    filter (fun e => String.eqb (ds_full_name e) (unit_key u)) (snd (analysis_files st ids us)) = full_of_file ids u.
Proof.
  intros st ids us u Hs Hd Hin. destruct (analysis_files_per_file ids us st Hs) as [H _]. rewrite H.
  exact (entries_of_file (full_of_file ids) unit_key ds_full_name (full_key_ok ids) us u Hd Hin).
Qed.
