(* C05 -- Method rename rewrites only the renamed identifier tokens.
   Only statements live here; every proof is [exact <lemma of Proofs/RenameProofs.v>].

   Model: Model/Rename.v (ParseRelates with trimmed names, BuildMethodPackageInfo, startParse = [plan]: the sites
   of a node sorted line by line and right to left, the sequence of updateSelfRefs calls = [exec]; byte strings;
   [byte_offset] = byteOffset, Go's UTF-8 decoding of the line).
   Specification: Model/RenameSpec.v (candidate tokens with BYTE columns; [file_verdict]).
   [exec1 c es] is the sequence of read-split-splice-join-write steps on ONE file with contents c;
   [apply_line l es] the same on one line. *)
From Coq Require Import String List Bool Arith Ascii Sorted.
From Coca Require Import Lib.GoMap Lib.Str Model.CodeModel Model.Rename Model.RenameSpec
     Generated.Constants Proofs.RenameProofs.
Import ListNotations.
Open Scope string_scope.

(* 0. the separators the model uses are the ones written in the Go sources *)
Theorem C05_constants_pinned :
  rename_conf_sep = " -> " /\ rename_name_sep = "." /\ rename_line_sep = "\n".
Proof. exact rename_constants_pinned. Qed.
Print Assumptions C05_constants_pinned.

(* 1. splitting a file in lines and joining them again is the identity on bytes (CRLF, a missing final
      newline, empty files included), and lines without line feeds survive the round trip *)
Theorem C05_join_split_identity : forall s, join_nl (split_nl s) = s.
Proof. exact join_split_nl. Qed.
Print Assumptions C05_join_split_identity.

Theorem C05_split_join_identity : forall ls, ls <> [] -> forallb no_nl ls = true -> split_nl (join_nl ls) = ls.
Proof. exact split_join_nl. Qed.
Print Assumptions C05_split_join_identity.

(* 2. byteOffset: never beyond the line (the slices cannot panic); the column of the character boundary after a
      valid UTF-8 prefix of n characters is the byte length of that prefix, whatever follows; with one-byte
      characters only the column is the byte offset *)
Theorem C05_byte_offset_inside_line : forall line col, byte_offset line col <= String.length line.
Proof. exact byte_offset_le_length. Qed.
Print Assumptions C05_byte_offset_inside_line.

Theorem C05_byte_offset_after_valid_prefix : forall p r m,
    scan p 0 0 = Some m -> byte_offset (String.append p r) m = String.length p.
Proof. exact byte_offset_valid_prefix. Qed.
Print Assumptions C05_byte_offset_after_valid_prefix.

Theorem C05_ascii_prefix_column_is_byte_offset : forall l k,
    k <= String.length l -> all_ascii (take k l) = true -> col_at l k = Some k.
Proof. exact ascii_prefix_column_is_byte_offset. Qed.
Print Assumptions C05_ascii_prefix_column_is_byte_offset.

(* 3. the splice keeps every byte before the start offset and after the stop offset *)
Theorem C05_splice_keeps_outside : forall l a b n,
    let l' := splice_line l a b n in
    take (byte_offset l a) l' = take (byte_offset l a) l /\
    drop (byte_offset l a + String.length n) l' = drop (byte_offset l b) l /\
    String.length l' + byte_offset l b = String.length l + byte_offset l a + String.length n.
Proof. exact splice_keeps_outside. Qed.
Print Assumptions C05_splice_keeps_outside.

(* 4. one call of updateSelfRefs: the number of lines is preserved, every other line is unchanged byte for
      byte, the addressed line is spliced; a position outside the file changes nothing *)
Theorem C05_one_site_line_structure : forall input p n,
    no_nl n = true ->
    let ls := split_nl input in
    let ls' := split_nl (update_content input p n) in
    List.length ls' = List.length ls /\
    (forall j, S j <> p_sl p -> nth j ls' "" = nth j ls "") /\
    (1 <= p_sl p <= List.length ls ->
     nth (p_sl p - 1) ls' "" = splice_line (nth (p_sl p - 1) ls "") (p_sc p) (p_ec p) n).
Proof. exact update_content_spec. Qed.
Print Assumptions C05_one_site_line_structure.

Theorem C05_position_outside_file_is_noop : forall input p n,
    p_sl p = 0 \/ List.length (split_nl input) < p_sl p -> update_content input p n = input.
Proof. exact update_content_outside. Qed.
Print Assumptions C05_position_outside_file_is_noop.

(* 5. which positions are rewritten: exactly the declarations of the old name in the class and the calls
      the code model attributes to it, in the file of the node that holds them, with the new method name;
      the requests are the lines of the rename file with both names trimmed and split at the dots;
      the sites of a node are applied line by line and right to left on a line *)
Theorem C05_plan_addresses_exactly_the_sites : forall nodes rels infos path p n,
    rel_infos rels = Some infos ->
    (In (SEdit path p n) (plan nodes rels) <->
     exists node oi ni,
       In node nodes /\ In (oi, ni) infos /\
       path = d_path node /\ n = mi_method ni /\ (decl_site node oi p \/ call_site node oi p)).
Proof. exact plan_addresses_exactly_the_sites. Qed.
Print Assumptions C05_plan_addresses_exactly_the_sites.

Theorem C05_requests_of_the_plan : forall rels infos oi ni,
    rel_infos rels = Some infos ->
    (In (oi, ni) infos <-> exists rel, In rel rels /\ build_method_package_info (r_old rel) = Some oi /\
                                      build_method_package_info (r_new rel) = Some ni).
Proof. exact rel_infos_spec. Qed.
Print Assumptions C05_requests_of_the_plan.

Theorem C05_sites_applied_right_to_left : forall node infos,
    StronglySorted (fun a b => site_le a b = true) (node_sites node infos).
Proof. exact node_sites_sorted. Qed.
Print Assumptions C05_sites_applied_right_to_left.

Theorem C05_padded_names_are_trimmed : forall pre s post,
    all_blank pre = true -> no_blank s = true -> all_blank post = true ->
    trim_space (String.append pre (String.append s post)) = s.
Proof. exact trim_space_padded_name. Qed.
Print Assumptions C05_padded_names_are_trimmed.

(* 6. a file no site points into is untouched byte for byte, whatever happens to other files (panic included);
      a rename file without a request changes nothing; a name without a dot panics before anything is written *)
Theorem C05_files_without_sites_untouched : forall steps files path,
    edits_for path steps = [] -> mget (fst (exec files steps)) path = mget files path.
Proof. exact exec_untouched. Qed.
Print Assumptions C05_files_without_sites_untouched.

Theorem C05_no_request_no_change : forall files deps conf,
    parse_relates conf = [] -> rename_method files deps conf = (files, OOk).
Proof. exact rename_without_request. Qed.
Print Assumptions C05_no_request_no_change.

Theorem C05_undotted_name_panics : forall node nodes rels files,
    rel_infos rels = None ->
    exec files (plan (node :: nodes) rels) = (files, OPanic "index out of range").
Proof. exact plan_undotted_name_panics. Qed.
Print Assumptions C05_undotted_name_panics.

(* 7. totality: when every step is a site in a known file the refactoring returns normally (no site can make it
      panic), the set of files is the same and every file is the result of its own sequence of sites *)
Theorem C05_tree_is_rewritten_per_file : forall steps files,
    steps_are_edits files steps = true ->
    snd (exec files steps) = OOk /\
    mkeys (fst (exec files steps)) = mkeys files /\
    forall p c, mget files p = Some c -> mget (fst (exec files steps)) p = Some (exec1 c (edits_for p steps)).
Proof. exact exec_per_file. Qed.
Print Assumptions C05_tree_is_rewritten_per_file.

(* 8. the lines of a file are rewritten independently: line i ends as its original text with the edits that
      address it applied in order *)
Theorem C05_lines_are_independent : forall es ls,
    exec_lines ls es = map (fun i => apply_line (nth i ls "") (edits_on i es)) (seq 0 (List.length ls)).
Proof. exact exec_lines_independent. Qed.
Print Assumptions C05_lines_are_independent.

Theorem C05_file_as_lines : forall es c,
    names_no_nl es = true -> exec1 c es = join_nl (exec_lines (split_nl c) es).
Proof. exact exec1_as_lines. Qed.
Print Assumptions C05_file_as_lines.

(* 9. THE KEY LEMMA: several sites on one line, old and new names of ANY length, multi-byte characters anywhere.
      cs: the candidate tokens of the line from byte pos on; es: edits for exactly the sites among them in
      decreasing column order, each with the character columns of its token on the ORIGINAL line.  Applied one
      after the other -- columns converted on the CURRENT text -- they give the original with exactly the sites
      replaced *)
Theorem C05_right_to_left_is_exact : forall cs l pos es,
    cands_wf l pos cs = true ->
    forall2b (edit_matches l) es (rev (filter k_site cs)) = true ->
    apply_line l es = String.append (take pos l) (rebuild l pos cs (map k_site cs)).
Proof. exact apply_right_to_left. Qed.
Print Assumptions C05_right_to_left_is_exact.

(* 10. the specification decider: an empty verdict means the observed bytes ARE the expected bytes (the original
       with exactly the site tokens replaced), and the expected bytes are accepted *)
Theorem C05_verdict_empty_means_exact : forall f obs, file_verdict f obs = [] -> obs = expected_file f.
Proof. exact file_verdict_nil_exact. Qed.
Print Assumptions C05_verdict_empty_means_exact.

Theorem C05_verdict_accepts_expected : forall f, fspec_wf f = true -> file_verdict f (expected_file f) = [].
Proof. exact file_verdict_expected. Qed.
Print Assumptions C05_verdict_accepts_expected.

(* 11. model meets specification, one file: line by line the edits are edits for exactly the specification's
       sites, right to left, with their character columns => exactly the expected bytes *)
Theorem C05_file_rewritten_exactly : forall f es,
    names_no_nl es = true ->
    lines_agree (split_nl (fs_orig f)) es (fs_cands f) = true ->
    all_lines_wf 1 (split_nl (fs_orig f)) (fs_cands f) = true ->
    exec1 (fs_orig f) es = expected_file f.
Proof. exact file_rewritten_exactly. Qed.
Print Assumptions C05_file_rewritten_exactly.

(* 12. model meets specification, whole tree: returns normally and the byte verdict on what it leaves is empty *)
Theorem C05_project_meets_spec : forall specs deps conf,
    let files := specs_files specs in
    let steps := plan deps (parse_relates conf) in
    distinct_strs (map fs_path specs) = true ->
    steps_are_edits files steps = true ->
    forallb (spec_ok steps) specs = true ->
    snd (rename_method files deps conf) = OOk /\
    files_verdict specs (fst (rename_method files deps conf)) = [].
Proof. exact project_meets_spec. Qed.
Print Assumptions C05_project_meets_spec.

(* ---- the hypotheses are satisfiable: a project with two sites on one line, sites after two- and three-byte
        characters, a longer new name, a request written with blanks and CRLF ---- *)
Example C05_example_project_hypotheses :
  specs_files ex_specs = ex_files /\
  distinct_strs (map fs_path ex_specs) &&
  steps_are_edits (specs_files ex_specs) (plan ex_deps (parse_relates ex_conf)) &&
  forallb (spec_ok (plan ex_deps (parse_relates ex_conf))) ex_specs = true.
Proof. exact ex_project_hypotheses. Qed.
Print Assumptions C05_example_project_hypotheses.

Example C05_example_order_of_application :
  edits_for "p/A.java" (plan ex_deps (parse_relates ex_conf)) =
  [(xpos 3 7 10, "renamedToSomethingLonger");
   (xpos 4 20 23, "renamedToSomethingLonger"); (xpos 4 13 16, "renamedToSomethingLonger");
   (xpos 5 44 47, "renamedToSomethingLonger"); (xpos 5 29 32, "renamedToSomethingLonger")].
Proof. exact ex_plan_A. Qed.
Print Assumptions C05_example_order_of_application.

Example C05_example_verdict_accepts_model_output :
  files_verdict ex_specs (fst (rename_method ex_files ex_deps ex_conf)) = [].
Proof. exact ex_verdict_accepts. Qed.
Print Assumptions C05_example_verdict_accepts_model_output.

Example C05_example_requests :
  parse_relates (String.append "polymorphism.Overload.demoA -> polymorphism.Overload.demo"
                               (String.append nl (String.append nl "# no arrow here"))) =
  [mkRel "polymorphism.Overload.demoA" "polymorphism.Overload.demo"]
  /\ build_method_package_info "polymorphism.Overload.demoA" = Some (mkMI "polymorphism" "Overload" "demoA")
  /\ build_method_package_info "a.b.C.m" = Some (mkMI "a.b" "C" "m")
  /\ build_method_package_info "nodots" = None.
Proof. exact parse_relates_example. Qed.
Print Assumptions C05_example_requests.

(* ---- repaired defects, now positive examples ---- *)
(* D-C05-1 (27b16c9): several sites on one line, shorter name *)
Example C05_two_sites_one_line_fixed :
  rename_method [("p/A.java", "class A { void old() { old(); this.k(old(), old()); } }")]
                [xnode "p" "A" "p/A.java" [xfunc "old" (xpos 1 15 18)
                    [xcall "p" "A" "old" (xpos 1 23 26); xcall "p" "A" "old" (xpos 1 37 40); xcall "p" "A" "old" (xpos 1 44 47)]]]
                "p.A.old -> p.A.o" =
  ([("p/A.java", "class A { void o() { o(); this.k(o(), o()); } }")], OOk).
Proof. exact two_sites_one_line_fixed. Qed.
Print Assumptions C05_two_sites_one_line_fixed.

(* D-C05-2 (da60cbd): multi-byte characters before the site *)
Example C05_multibyte_prefix_fixed :
  exec1 (String.append "s(""" (String.append e_acute """); old();")) [(xpos 1 8 11, "fresh")] =
  String.append "s(""" (String.append e_acute """); fresh();").
Proof. exact (proj1 multibyte_prefix_fixed). Qed.
Print Assumptions C05_multibyte_prefix_fixed.

(* D-C05-6, D-C05-7 (b2db179): blanks and carriage returns around the names *)
Example C05_conf_blanks_fixed :
  parse_relates (String.append "p.A.old -> p.A.fresh" (String.append cr nl)) = [mkRel "p.A.old" "p.A.fresh"]
  /\ parse_relates " p.A.old -> p.A.fresh " = [mkRel "p.A.old" "p.A.fresh"].
Proof. exact (conj (proj1 conf_blanks_fixed) (proj1 (proj2 conf_blanks_fixed))). Qed.
Print Assumptions C05_conf_blanks_fixed.

(* ---- open defects of the implementation, reproduced by the model (witnesses) ---- *)
(* the following three witnesses are about the positions / receiver the full pass recorded BEFORE the repairs
   00fa4f2, 26ae34e, 027fb6a: given such a record the rename still does what they say; the full pass no longer
   produces such records (the correspondence runs of the decl_split / iface_decl / this_receiver streams pass) *)
(* D-C05-3 declaration whose name is not on the line of its return type *)
Example C05_declaration_on_second_line_refuted :
  exec1 (String.append "  void" (String.append nl "  old() { }")) [(xpos 1 2 5, "fresh")] =
  String.append "  freshd" (String.append nl "  old() { }").
Proof. exact declaration_on_second_line_refuted. Qed.
Print Assumptions C05_declaration_on_second_line_refuted.

(* D-C05-4 interface method: the recorded position covers the whole declaration *)
Example C05_interface_method_refuted :
  exec1 "  void old();" [(xpos 1 2 15, "fresh")] = "  fresh"
  /\ exec1 "interface I { void old(); int x(); }" [(xpos 1 14 27, "fresh")] = "interface I { freshnt x(); }".
Proof. exact interface_method_refuted. Qed.
Print Assumptions C05_interface_method_refuted.

(* D-C05-5 this.old() is recorded with node name "this": not a site *)
Example C05_this_receiver_not_a_site :
  plan [xnode "p" "A" "p/A.java" [xfunc "old" (xpos 1 5 8) []; xfunc "k" (xpos 2 5 6) [xcall "p" "this" "old" (xpos 2 15 18)]]]
       (parse_relates "p.A.old -> p.A.fresh") = [SEdit "p/A.java" (xpos 1 5 8) "fresh"].
Proof. exact this_receiver_not_a_site. Qed.
Print Assumptions C05_this_receiver_not_a_site.
