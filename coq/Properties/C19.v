(* C19 -- Declared build dependencies are all extracted; the unused report is exact.
   Only statements live here; every proof is [exact <lemma of Proofs/DepsProofs.v>]. *)
From Coq Require Import String List Bool Arith.
From Coca Require Import Lib.Str Model.Deps Model.DepsSpec Proofs.DepsProofs.
Import ListNotations.
Open Scope string_scope.
Open Scope list_scope.

(* 1. ParseXML's stack machine rebuilds the element tree from the token stream of ANY document
      (any nesting, comments, CDATA, processing instructions, blank and padded character data):
      never the "tag not closed" panic, root = the top-level element, children in order, blank
      text dropped, other text trimmed.  [readable doc] is the part of the document in front of an
      XML declaration the decoder rejects (version other than 1.0, a charset label it does not know):
      the whole document when [decls_ok doc] *)
Theorem C19_xml_roundtrip : forall doc,
    parse_xml (doc_tokens doc) = Ok (doc_frame (readable doc) ("", [])).
Proof. exact xml_roundtrip. Qed.
Print Assumptions C19_xml_roundtrip.

Theorem C19_xml_roundtrip_single_root : forall pre n cs post,
    decls_ok (pre ++ XE n cs :: post) = true ->
    forallb (fun x => negb (is_elem x)) post = true ->
    parse_xml (doc_tokens (pre ++ XE n cs :: post)) = Ok (n, flat_map norm cs).
Proof. exact xml_roundtrip_single. Qed.
Print Assumptions C19_xml_roundtrip_single_root.

(* 2. Maven: every <dependency> of the root's <dependencies> is extracted exactly once, in order,
      with its own groupId / artifactId / scope -- whatever other children (version, type, optional,
      exclusions with their own groupId/artifactId) it has and in whatever order, whatever comments,
      and whatever sections (dependencyManagement, plugins, profiles with their own <dependencies>)
      stand before and after, and in however many pieces (split by comments / CDATA boundaries) a
      value's character data comes -- provided the XML declaration (if any) says version 1.0 and
      an encoding the decoder's charset reader knows (repaired finding C19-pom-encoding, below) *)
Theorem C19_maven_deps_exact : forall doc,
    wf_pom_b doc = true -> analysis_maven doc = Ok (spec_maven doc).
Proof. exact maven_deps_exact. Qed.
Print Assumptions C19_maven_deps_exact.

(* 3. Gradle: for string notation in single or double quotes -- plain, parenthesised, with a
      configuration closure -- every entry of every top-level dependencies block (any number of
      blocks, empty ones included) is extracted exactly once, in order, with group, artifact and
      configuration; map notation, project(..), fileTree(..), platform(..), files(..), gradleApi()
      and any other call -- plain or parenthesised -- and comments are skipped without disturbing
      the rest; surrounding statements and blocks of other names contribute nothing.  The only
      hypothesis: group and artifact contain no quote and no ':' *)
Theorem C19_gradle_deps_exact : forall items,
    wf_gradle_b items = true -> analysis_gradle items = Ok (spec_gradle items).
Proof. exact gradle_deps_exact. Qed.
Print Assumptions C19_gradle_deps_exact.

Theorem C19_gradle_no_crash : forall items c,
    wf_gradle_b items = true -> analysis_gradle items <> Panic c.
Proof. exact gradle_no_crash. Qed.
Print Assumptions C19_gradle_no_crash.

(* 4. the unused report is a filter of the extracted list (order and multiplicity preserved) ... *)
Theorem C19_unused_is_filter : forall ds imports,
    unused_of ds imports = filter (fun d => negb (dep_used imports d)) ds.
Proof. exact unused_is_filter. Qed.
Print Assumptions C19_unused_is_filter.

Theorem C19_unused_order : forall ds imports, sublist (unused_of ds imports) ds.
Proof. exact unused_sublist. Qed.
Print Assumptions C19_unused_order.

(*    ... reporting exactly the dependencies whose group id occurs in no import *)
Theorem C19_unused_exact : forall ds imports d,
    In d (unused_of ds imports) <->
    In d ds /\ forall imp, In imp imports -> contains imp (d_group d) = false.
Proof. exact unused_exact. Qed.
Print Assumptions C19_unused_exact.

Theorem C19_used_never_reported : forall ds imports d imp,
    In imp imports -> contains imp (d_group d) = true -> ~ In d (unused_of ds imports).
Proof. exact used_never_reported. Qed.
Print Assumptions C19_used_never_reported.

(*    where "occurs in" is: the import decomposes around the group id *)
Theorem C19_contains_sound : forall s sub,
    contains s sub = true -> exists a b, s = (a ++ sub ++ b)%string.
Proof. exact contains_sound. Qed.
Print Assumptions C19_contains_sound.

Theorem C19_contains_complete : forall a sub b, contains (a ++ sub ++ b)%string sub = true.
Proof. exact contains_complete. Qed.
Print Assumptions C19_contains_complete.

(* 5. the whole pipeline: pom and/or build.gradle plus imports -> exactly the expected report *)
Theorem C19_report_exact : forall p,
    wf_project_b p = true -> analysis_path p = Ok (spec_unused p).
Proof. exact analysis_path_exact. Qed.
Print Assumptions C19_report_exact.

(* 6. the deciders the check applies to the implementation's output accept exactly the expected
      lists, and the model's own output passes them under the hypotheses above *)
Theorem C19_maven_verdict_sound : forall doc obs, c19_maven_verdict doc obs = [] <-> obs = spec_maven doc.
Proof. exact maven_verdict_sound. Qed.
Print Assumptions C19_maven_verdict_sound.

Theorem C19_gradle_verdict_sound : forall items obs, c19_gradle_verdict items obs = [] <-> obs = spec_gradle items.
Proof. exact gradle_verdict_sound. Qed.
Print Assumptions C19_gradle_verdict_sound.

Theorem C19_unused_verdict_sound : forall p obs, c19_unused_verdict p obs = [] <-> obs = spec_unused p.
Proof. exact unused_verdict_sound. Qed.
Print Assumptions C19_unused_verdict_sound.

Theorem C19_model_meets_spec_maven : forall doc ds,
    wf_pom_b doc = true -> analysis_maven doc = Ok ds -> c19_maven_verdict doc ds = [].
Proof. exact model_meets_spec_maven. Qed.
Print Assumptions C19_model_meets_spec_maven.

Theorem C19_model_meets_spec_gradle : forall items ds,
    wf_gradle_b items = true -> analysis_gradle items = Ok ds -> c19_gradle_verdict items ds = [].
Proof. exact model_meets_spec_gradle. Qed.
Print Assumptions C19_model_meets_spec_gradle.

Theorem C19_model_meets_spec_unused : forall p ds,
    wf_project_b p = true -> analysis_path p = Ok ds -> c19_unused_verdict p ds = [].
Proof. exact model_meets_spec_unused. Qed.
Print Assumptions C19_model_meets_spec_unused.

(* 7. non-vacuity: the hypotheses hold on inputs that use every notation, with the values the
      model computes there *)
Example C19_example_pom_hypothesis : wf_pom_b ex_pom_ok = true.
Proof. exact ex_pom_ok_wf. Qed.
Print Assumptions C19_example_pom_hypothesis.

Example C19_example_pom_value :
  analysis_maven ex_pom_ok = Ok [mkDep "org.a" "aa" "test"; mkDep "org.b" "bb" ""; mkDep "org.c.d" "cc" ""].
Proof. exact ex_pom_ok_value. Qed.
Print Assumptions C19_example_pom_value.

Example C19_example_gradle_hypothesis : wf_gradle_b ex_gradle_ok = true.
Proof. exact ex_gradle_ok_wf. Qed.
Print Assumptions C19_example_gradle_hypothesis.

Example C19_example_gradle_value :
  analysis_gradle ex_gradle_ok
  = Ok [mkDep "org.a" "aa" "implementation"; mkDep "org.b" "bb" "api"; mkDep "org.c" "cc" "compile";
        mkDep "org.e" "ee" "runtimeOnly"].
Proof. exact ex_gradle_ok_value. Qed.
Print Assumptions C19_example_gradle_value.

Example C19_example_project_hypothesis : wf_project_b ex_project = true.
Proof. exact ex_project_wf. Qed.
Print Assumptions C19_example_project_hypothesis.

Example C19_example_project_value :
  analysis_path ex_project = Ok [mkDep "org.a" "aa" "test"; mkDep "org.e" "ee" "runtimeOnly"].
Proof. exact ex_project_value. Qed.
Print Assumptions C19_example_project_value.

Example C19_example_unused_value :
  unused_of [mkDep "org.a" "aa" ""; mkDep "mysql" "c" "runtime"; mkDep "org.a.b" "x" "test"; mkDep "mysql" "c" "runtime"]
            ["java.util.List"; "shaded.org.a.util.Helper"]
  = [mkDep "mysql" "c" "runtime"; mkDep "org.a.b" "x" "test"; mkDep "mysql" "c" "runtime"].
Proof. exact ex_unused_value. Qed.
Print Assumptions C19_example_unused_value.

(* 8. repaired finding C19-pom-encoding (fix: ParseXML installs a CharsetReader): a pom declaring
      ISO-8859-1 is read like one declaring UTF-8 and satisfies [wf_pom_b]; a declaration naming a
      charset the reader does not know stays outside [decls_ok] (the decoder stops there) *)
Example C19_maven_encoding_repaired :
  analysis_maven (ex_pom_enc "ISO-8859-1" [ex_dep [XT "org.a"] [XT "aa"] []]) = Ok [mkDep "org.a" "aa" ""]
  /\ spec_maven (ex_pom_enc "ISO-8859-1" [ex_dep [XT "org.a"] [XT "aa"] []]) = [mkDep "org.a" "aa" ""]
  /\ wf_pom_b (ex_pom_enc "ISO-8859-1" [ex_dep [XT "org.a"] [XT "aa"] []]) = true
  /\ analysis_maven (ex_pom_enc "UTF-8" [ex_dep [XT "org.a"] [XT "aa"] []]) = Ok [mkDep "org.a" "aa" ""]
  /\ analysis_maven (ex_pom_enc "x-unknown" [ex_dep [XT "org.a"] [XT "aa"] []]) = Ok []
  /\ wf_pom_b (ex_pom_enc "x-unknown" [ex_dep [XT "org.a"] [XT "aa"] []]) = false.
Proof. exact maven_encoding_repaired. Qed.
Print Assumptions C19_maven_encoding_repaired.
