From Coca Require Import Model.JavaFull Model.JavaIdent Model.JavaDeclSpec.
Theorem placeholder : True. Proof. exact I. Qed.
Print Assumptions placeholder.
