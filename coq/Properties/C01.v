(* C01 -- Every declared Java type and method appears exactly once in the code model.
   Only statements live here; every proof is [exact <lemma of Proofs/JavaFullProofs.v>]. *)
From Coq Require Import String List Bool Arith.
From Coca Require Import Lib.GoMap Lib.Str Model.CodeModel Model.JavaFull Model.JavaSelect Proofs.JavaFullProofs Proofs.JavaFunctionsProofs Model.JavaIdent Proofs.JavaIdentProofs.
Import ListNotations.
Open Scope string_scope.

(* 1. test files, ignored files, testData and non-Java files contribute nothing: the files read
      are exactly the non-ignored .java files outside testData that are not test files *)
Theorem C01_select_exact : forall walk p,
    In p (get_files_with_filter java_code_file_filter walk) <->
    In (p, false) walk /\ contains p "testData" = false /\ has_suffix ".java" p = true /\
    java_test_file_filter p = false.
Proof. exact select_exact. Qed.
Print Assumptions C01_select_exact.

(* 2. a unit contributes exactly one entry carrying its own name, kind, package, path and
      annotations, whatever members and bodies it has *)
Theorem C01_one_entry_per_unit : forall st u,
    s_hasEnterClass st = false -> d_node (s_node st) = "" -> d_annots (s_node st) = [] ->
    exists n,
      s_classNodes (walk_unit st u) = (s_classNodes st ++ [n])%list /\
      d_node n = u_name u /\ d_type n = unit_type u /\
      d_pkg n = (if u_has_pkg u then u_pkg u else d_pkg (s_node st)) /\
      d_path n = s_file st /\ d_annots n = u_annots u /\
      s_hasEnterClass (walk_unit st u) = false.
Proof. exact walk_unit_one_entry. Qed.
Print Assumptions C01_one_entry_per_unit.

(* 3. over any list of files and whatever the process analysed before: one entry per unit, in
      order, nothing else *)
Theorem C01_types_exact : forall units st ids,
    s_hasEnterClass st = false ->
    map node_sig (snd (analysis_files st ids units)) = map unit_sig units.
Proof. exact analysis_files_types. Qed.
Print Assumptions C01_types_exact.

(* 4. statements and expressions of a body never create, rename or drop the entry of another
      function: they only append calls to the entry of the function being walked *)
Theorem C01_bodies_touch_only_their_function : forall evs st,
    (exists cs, calls_at (fold_left body_event evs st) (cur_key st) = (calls_at st (cur_key st) ++ cs)%list /\
                List.length cs <= List.length evs) /\
    (forall k, k <> cur_key st -> mget (s_methodMap (fold_left body_event evs st)) k = mget (s_methodMap st) k).
Proof. exact body_events_append_only. Qed.
Print Assumptions C01_bodies_touch_only_their_function.

(* non-vacuity *)
Example C01_example :
  map (fun d => (d_node d, d_type d, d_pkg d, d_path d, d_extend d,
                 map (fun f => (f_name f, map (fun c => (c_pkg c, c_node c, c_fn c, p_sl (c_pos c), p_sc (c_pos c), p_ec (c_pos c))) (f_calls f)))
                     (d_funcs d)))
      (snd (analysis_files fstate0 ["p.q.A"] [ex_unit]))
  = [("A", "Class", "p.q", "src/A.java", "Base",
      [("run", [("r.s", "Foo", "go", 6, 6, 8); ("t", "Bar", "", 6, 25, 32); ("t", "Bar", "save", 7, 8, 12);
                ("p.q", "A", "help", 7, 20, 24)])])].
Proof. exact ex_unit_calls. Qed.
Print Assumptions C01_example.

(* 6. function clause: in the entry of a unit analysed by a fresh listener (whatever the process did before)
      every declared constructor / method / interface method has an entry with its name, return type
      (none for a constructor) and ordered (type, name) parameters, and every NAMED entry belongs to a
      declared one; hypotheses: declarations are named and no two are filed under the same key
      (same name on the same line at the same column - impossible in a source text) *)
Theorem C01_functions_exact : forall st ids cls file u,
    let ts := typed_state (new_listener st ids cls file) u in
    (forall m, In m (u_members u) -> is_fun m = true -> m_name m <> "") ->
    NoDup (fun_keys (s_pkg ts) (s_clz ts) (u_members u)) ->
    exists n, In n (s_classNodes (walk_unit (new_listener st ids cls file) u)) /\
      (forall m, In m (u_members u) -> is_fun m = true ->
                 exists f, In f (d_funcs n) /\ fsig f = expected_sig m) /\
      (forall f, In f (d_funcs n) -> f_name f <> "" ->
                 exists m, In m (u_members u) /\ is_fun m = true /\ fsig f = expected_sig m).
Proof. exact unit_functions_exact. Qed.
Print Assumptions C01_functions_exact.

(* statements and initialisers never create a named entry and never change a signature *)
Theorem C01_bodies_keep_signatures : forall evs st, quiet_ext st (fold_left body_event evs st).
Proof. exact quiet_body_events. Qed.
Print Assumptions C01_bodies_keep_signatures.

Example C01_function_hypotheses_hold :
  let ts := typed_state (new_listener fstate0 ["p.q.A"] ["p.q.A"] "src/A.java") ex_unit in
  (forall m, In m (u_members ex_unit) -> is_fun m = true -> m_name m <> "") /\
  NoDup (fun_keys (s_pkg ts) (s_clz ts) (u_members ex_unit)) /\
  fun_keys (s_pkg ts) (s_clz ts) (u_members ex_unit) <> [].
Proof. exact ex_unit_function_hypotheses. Qed.
Print Assumptions C01_function_hypotheses_hold.

(* 7. the identifier pass alike: for any unit, whatever the process analysed before, exactly one entry with the
      unit's name, kind and package, and one function entry per declared constructor / method / interface
      method IN SOURCE ORDER with its name, return type ("" for a constructor) and modifiers *)
Theorem C01_ident_pass_exact : forall st u,
    u_name u <> "" ->
    exists n,
      i_nodes (ident_unit (new_ident_listener st) u) = [n] /\
      d_node n = u_name u /\
      d_type n = (if String.eqb (u_kind u) "class" then "Class" else "Interface") /\
      d_pkg n = (if u_has_pkg u then u_pkg u else "") /\
      map ident_sig (d_funcs n) = map expected_ident_sig (filter is_fun_member (u_members u)).
Proof. exact ident_unit_exact. Qed.
Print Assumptions C01_ident_pass_exact.
