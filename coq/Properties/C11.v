(* C11 -- Test-smell findings are exactly those evidenced in the test sources.
   Only statements live here; every proof is [exact <lemma of Proofs/TbsProofs.v>]. *)
From Coq Require Import String List Bool Arith.
From Coca Require Import Lib.Str Lib.GoMap Model.CodeModel Model.Tbs Generated.Constants Proofs.TbsProofs.
Import ListNotations.
Open Scope string_scope.

(* 1. the assertion prefixes and the duplicate-assert limit regenerated from the source are the
      documented ones *)
Theorem C11_constants_documented :
  ASSERTION_LIST = ["assert"; "should"; "check"; "maynotbe"; "is"; "spec"; "verify"] /\
  DuplicatedAssertionLimitLength = 5.
Proof. exact assertion_list_documented. Qed.
Print Assumptions C11_constants_documented.

(* 2. the path-dependent loop (a mutable "has assertion so far" flag, a check fired at the last
      index on two branches) computes an order-free result: every call contributes its print /
      sleep / identical-argument findings independently of its position, and UnknownTest is
      reported exactly when there is at least one call and no named call is an assertion *)
Theorem C11_loop_is_order_free : forall file f calls idx total ha groups acc,
    idx + List.length calls = total ->
    fst (calls_loop file f calls idx total ha groups acc) =
    (acc ++ flat_map (per_call file f) calls ++
     (if match calls with [] => false | _ => true end && negb (ha || existsb named_assert calls)
      then [mkT file "UnknownTest" (p_sl (f_pos f))] else []))%list.
Proof. exact calls_loop_spec. Qed.
Print Assumptions C11_loop_is_order_free.

(* 3. methods without @Test / @Ignore never produce a finding *)
Theorem C11_non_test_method_nothing : forall cmm d f, is_junit_test f = false -> method_smells cmm d f = [].
Proof. exact non_test_method_nothing. Qed.
Print Assumptions C11_non_test_method_nothing.

(* 4. every finding names the file of the class it was found in *)
Theorem C11_findings_name_their_file : forall cmm d f t, In t (method_smells cmm d f) -> t_file t = d_path d.
Proof. exact findings_name_their_file. Qed.
Print Assumptions C11_findings_name_their_file.

(* 5. IgnoreTest is reported exactly for the @Ignore annotations of a method *)
Theorem C11_ignore_test_exact : forall cmm d f,
    In (mkT (d_path d) "IgnoreTest" 0) (method_smells cmm d f) <->
    exists a, In a (f_annots f) /\ an_name a = "Ignore".
Proof. exact ignore_test_exact. Qed.
Print Assumptions C11_ignore_test_exact.

(* 6. EmptyTest as implemented: a @Test method with AT MOST ONE call after helper expansion. The property
      says "makes no call": the two differ for exactly one call - finding D21, with its witness *)
Theorem C11_empty_test_as_implemented : forall cmm d f,
    In (mkT (d_path d) "EmptyTest" (p_sl (f_pos f))) (method_smells cmm d f) <->
    (exists a, In a (f_annots f) /\ an_name a = "Test") /\
    List.length (update_calls_for_self_call f d cmm) <= 1.
Proof. exact empty_test_as_implemented. Qed.
Print Assumptions C11_empty_test_as_implemented.

Example C11_one_call_test_reported_empty_refuted :
  map (fun t => (t_type t, t_line t)) (tbs_analysis [ex_one_call_class]) = [("EmptyTest", 10); ("UnknownTest", 10)].
Proof. exact one_call_test_reported_empty_refuted. Qed.
Print Assumptions C11_one_call_test_reported_empty_refuted.

(* non-vacuity *)
Example C11_example :
  map (fun t => (t_type t, t_line t)) (tbs_analysis [ex_test_class]) =
  [ ("IgnoreTest", 0); ("RedundantPrintTest", 11); ("SleepyTest", 12); ("RedundantAssertionTest", 10);
    ("UnknownTest", 30); ("EmptyTest", 40) ].
Proof. exact ex_tbs. Qed.
Print Assumptions C11_example.
