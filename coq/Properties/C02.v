(* C02 -- Recorded call sites are exactly the invocations written in the source.
   Only statements live here; every proof is [exact <lemma of Proofs/JavaFullProofs.v>]. *)
From Coq Require Import String List Bool Arith.
From Coca Require Import Lib.GoMap Lib.Str Model.CodeModel Model.JavaFull Proofs.JavaFullProofs Proofs.RuneProofs.
Import ListNotations.
Open Scope string_scope.

(* 1. an invocation is filed under the function being walked, after the calls already there,
      with the callee name and a position that is the callee identifier's line, column and
      column + length *)
Theorem C02_invocation_recorded : forall st callee target tic inner whole args has_args p,
    exists c,
      calls_at (body_event st (ECall callee target tic inner whole args has_args p)) (cur_key st)
      = (calls_at st (cur_key st) ++ [c])%list /\
      c_fn c = callee /\
      c_pos c = mkPos (q_sl p) (q_sc p) (q_el p) (q_sc p + rune_count callee) /\
      c_params c = (if has_args then map (fun a => mkProp "" a) args else []).
Proof. exact method_call_recorded. Qed.
Print Assumptions C02_invocation_recorded.

(* 2. a creation is filed the same way and carries the created type *)
Theorem C02_creation_recorded : forall st var name rest has_body wc p,
    exists c,
      calls_at (body_event st (ECreator var (name :: rest) has_body wc p)) (cur_key st)
      = (calls_at st (cur_key st) ++ [c])%list /\
      c_node c = name /\ c_type c = "CreatorClass" /\ c_fn c = "".
Proof. exact creator_recorded. Qed.
Print Assumptions C02_creation_recorded.

(* 3. in source order, nothing lost, duplicated or attached to a neighbouring function: over a
      whole body the function's entry only grows by appending, at most one call per event, and
      no other entry of the class changes *)
Theorem C02_append_only : forall evs st,
    (exists cs, calls_at (fold_left body_event evs st) (cur_key st) = (calls_at st (cur_key st) ++ cs)%list /\
                List.length cs <= List.length evs) /\
    (forall k, k <> cur_key st -> mget (s_methodMap (fold_left body_event evs st)) k = mget (s_methodMap st) k).
Proof. exact body_events_append_only. Qed.
Print Assumptions C02_append_only.

(* 4. the declared type of a receiver name is looked up local variable first, then parameter,
      then field *)
Theorem C02_receiver_scoping : forall st x,
    parse_target_type st x =
    if negb (String.eqb (mget_d "" (s_localVars st) x) "") then mget_d "" (s_localVars st) x
    else if negb (String.eqb (mget_d "" (s_formals st) x) "") then mget_d "" (s_formals st) x
    else if negb (String.eqb (mget_d "" (s_mapFields st) x) "") then mget_d "" (s_mapFields st) x
    else x.
Proof. exact parse_target_type_scoping. Qed.
Print Assumptions C02_receiver_scoping.

(* 5. a receiver whose declared type is a plain imported class name is recorded against that
      type and the package of its import *)
Theorem C02_resolution_imported : forall st callee x whole args has_args p T imp,
    parse_target_type st x = T ->
    equal_fold (s_clz st) T = false ->
    pure_of T = T -> T <> "" ->
    find (fun i => String.eqb i T || has_suffix ("." ++ T) i) (s_imports st) = Some imp ->
    T <> "super" -> callee <> "super" -> is_chain_call T = false -> x <> "this" ->
    exists c,
      calls_at (body_event st (ECall callee x false "" whole args has_args p)) (cur_key st)
      = (calls_at st (cur_key st) ++ [c])%list /\
      c_node c = T /\ c_pkg c = remove_target imp /\ c_fn c = callee.
Proof. exact resolution_imported. Qed.
Print Assumptions C02_resolution_imported.

(* 6. an implicit receiver is recorded against the enclosing class and its package *)
Theorem C02_resolution_implicit : forall st callee whole args has_args p,
    warp_target_full_type st (parse_target_type st whole) = ("", "") ->
    parse_target_type st whole = whole ->
    whole <> "super" -> callee <> "super" -> whole <> "this" ->
    (forall imp, In imp (s_imports st) -> has_suffix ("." ++ callee) imp = false) ->
    is_chain_call (s_clz st) = false ->
    exists c,
      calls_at (body_event st (ECall callee whole false "" whole args has_args p)) (cur_key st)
      = (calls_at st (cur_key st) ++ [c])%list /\
      c_node c = s_clz st /\ c_pkg c = s_pkg st /\ c_fn c = callee.
Proof. exact resolution_implicit. Qed.
Print Assumptions C02_resolution_implicit.

(* 6b. the resolution clause is FALSE of the faithful model for a field written with its qualifier (open finding
   D-C02-3): in class p.q.A, whose first import is r.s.Foo, this.bar.go() - bar a field of the project class p.q.Bar -
   is filed under node "this.bar" and package r.s; the same call written bar.go() is filed under Bar / p.q.  The
   witness, replayed on the implementation, is what the check prints as KNOWN-FINDING. *)
Theorem C02_resolution_this_field_refuted :
  exists (idents : list string) (u : junit),
    map (fun d => map (fun f => map (fun c => (c_pkg c, c_node c, c_fn c)) (f_calls f)) (d_funcs d))
        (snd (analysis_files fstate0 idents [u]))
    = [[[("r.s", "this.bar", "go"); ("p.q", "Bar", "go")]]].
Proof. exact resolution_this_field_refuted. Qed.
Print Assumptions C02_resolution_this_field_refuted.

(* non-vacuity: a body with a parameter receiver, a creation, a field receiver and an implicit
   receiver; every hypothesis above is met by these events *)
Example C02_example :
  map (fun d => (d_node d, d_type d, d_pkg d, d_path d, d_extend d,
                 map (fun f => (f_name f, map (fun c => (c_pkg c, c_node c, c_fn c, p_sl (c_pos c), p_sc (c_pos c), p_ec (c_pos c))) (f_calls f)))
                     (d_funcs d)))
      (snd (analysis_files fstate0 ["p.q.A"] [ex_unit]))
  = [("A", "Class", "p.q", "src/A.java", "Base",
      [("run", [("r.s", "Foo", "go", 6, 6, 8); ("t", "Bar", "", 6, 25, 32); ("t", "Bar", "save", 7, 8, 12);
                ("p.q", "A", "help", 7, 20, 24)])])].
Proof. exact ex_unit_calls. Qed.
Print Assumptions C02_example.

(* ------------------------------------------------------------------ columns count characters *)
(* the position clause of the decider cuts [end - start] characters after [start] characters of the line; on a line
   pre ++ name ++ post -- any multi-byte text before the name, a name made of any letters -- the columns
   [|pre|, |pre| + |name|) counted in CHARACTERS select exactly the name (and nothing else does: the cut is a function) *)
Theorem C02_columns_select_name : forall pre name post,
    forallb uchar_ok pre = true -> forallb uchar_ok name = true -> starts_clean post = true ->
    take_runes (rune_count (ustr name)) (drop_runes (List.length pre) (ustr pre ++ ustr name ++ post)) = ustr name.
Proof. exact columns_select_name. Qed.
Print Assumptions C02_columns_select_name.

Theorem C02_character_count : forall cs, forallb uchar_ok cs = true -> rune_count (ustr cs) = List.length cs.
Proof. exact rune_count_ustr. Qed.
Print Assumptions C02_character_count.

(* for ASCII text (the conventional units of the earlier rounds) characters are bytes: nothing changed there *)
Theorem C02_ascii_columns : forall n s,
    ascii_only s = true -> rune_count s = String.length s /\ drop_runes n s = drop n s /\ take_runes n s = take n s.
Proof. exact ascii_columns. Qed.
Print Assumptions C02_ascii_columns.

Example C02_example_columns :
  rune_count "größe" = 5 /\ String.length "größe" = 7 /\
  take_runes 5 (drop_runes 10 "  é  中 r. größe() ;") = "größe".
Proof. exact ex_columns. Qed.
Print Assumptions C02_example_columns.
