From Coca Require Import Model.JavaFull Model.JavaCallSpec.
Theorem placeholder : True. Proof. exact I. Qed.
Print Assumptions placeholder.
