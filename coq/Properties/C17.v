(* C17 -- Every TODO/FIXME comment is reported once with its line; nothing else is.
   Only statements live here; every proof is [exact <lemma of Proofs/TodoProofs.v>].

   Model/Todo.v      : the ANTLR comment lexer (reduced), astitodo.ParseComment, the file loop
                       (as of c90c20d: one-byte hash marker; 4b63f71: unreadable entries skipped)
   Model/TodoSpec.v  : abstract items, the expected report, the verdict, the decidable hypotheses
   ParseComment meets the specification on EVERY comment and never panics.  What remains open is
   the lexer: it knows the literals of Java only, so single-quoted strings of more than one
   character and escapes outside the Java set break the segmentation (open findings D-C17-4..7,
   [_refuted] witnesses below); the lexer theorems carry the decidable hypothesis [items_ok]
   that excludes exactly them (and unicode escapes with several u, a template string ending in a
   backslash, a block comment left open).  Messages are compared as the documented reading says:
   closing marker, stars and line ends count as blanks ([message_words]). *)
From Coq Require Import String List Bool Arith Ascii.
From Coca Require Import Lib.Str Generated.Constants Model.Todo Model.TodoSpec Proofs.TodoProofs.
Import ListNotations.
Open Scope list_scope.
Open Scope string_scope.

(* 1. one comment: ParseComment on EVERY line / block / hash comment reports it iff its text
      begins (after the marker and blanks) with TODO or FIXME in any letter case, with the
      specified assignee and the words of the specified message *)
Theorem C17_comment_meets_spec : forall k body,
    k = ILine \/ k = IBlock \/ k = IHash ->
    match read_comment k body with
    | None => parse_comment (render k body) = PNone
    | Some (a, m) => exists m', parse_comment (render k body) = PTodo a m' /\
                                message_words m' = message_words m
    end.
Proof. exact parse_comment_meets_spec. Qed.
Print Assumptions C17_comment_meets_spec.

(* 2. the same for the text behind the marker, with what a block comment leaves behind it *)
Theorem C17_stripped_meets_spec : forall v t, rt v -> tailish t ->
    match after_keyword v with
    | None => parse_stripped (v ++ t) = PNone
    | Some rest =>
      exists m', parse_stripped (v ++ t) = PTodo (fst (split_assignee (skip_sep rest))) m' /\
                 message_words m' = message_words (snd (split_assignee (skip_sep rest)))
    end.
Proof. exact parse_stripped_spec. Qed.
Print Assumptions C17_stripped_meets_spec.

(* 3. a comment that merely mentions TODO later in its text is never reported *)
Theorem C17_mention_later_not_reported : forall k body,
    k = ILine \/ k = IBlock \/ k = IHash ->
    after_keyword (strip body) = None -> parse_comment (render k body) = PNone.
Proof. exact mention_later_not_reported. Qed.
Print Assumptions C17_mention_later_not_reported.

(* 4. totality: ParseComment panics on no text at all (empty, marker only, one character, a lone
      hash ...), no token sequence makes the scan of a file panic, and no tree (any contents,
      directories named like source files, any extension list) makes the whole scan crash *)
Theorem C17_parse_comment_total : forall t, parse_comment t <> PPanic.
Proof. exact parse_comment_total. Qed.
Print Assumptions C17_parse_comment_total.

Theorem C17_scan_total : forall file toks, todos_of_tokens file toks <> None.
Proof. exact scan_total. Qed.
Print Assumptions C17_scan_total.

Theorem C17_analysis_path_total : forall exts files, exists l, analysis_path exts files = Report l.
Proof. exact analysis_path_total. Qed.
Print Assumptions C17_analysis_path_total.

(* 5. the lexer: on the text of a well-formed item sequence it yields exactly the comment items,
      each with its full text and the line on which it starts, in order *)
Theorem C17_lexer_exact : forall items,
    items_ok items = true -> comment_tokens (render_items items) = tokens_of items 1.
Proof. exact comment_tokens_items. Qed.
Print Assumptions C17_lexer_exact.

(* 6. text inside string, template and character literals (and code) never yields a comment token *)
Theorem C17_literals_yield_nothing : forall items,
    items_ok items = true -> forallb (fun it => negb (is_comment (it_kind it))) items = true ->
    comment_tokens (render_items items) = [].
Proof. exact literals_yield_nothing. Qed.
Print Assumptions C17_literals_yield_nothing.

(* 7. every round of the lexer consumes input (the fuel of the model is never the reason to stop) *)
Theorem C17_lexer_progress : forall c r, 1 <= snd (lex_step (String c r)).
Proof. exact lex_step_pos. Qed.
Print Assumptions C17_lexer_progress.

(* 8. the extension filter is exact: a path is scanned iff it ends with one of the extensions,
      and this is the specification's reading of "selected extension" *)
Theorem C17_filter_exact : forall exts p,
    selected exts p = true <-> exists e, In e exts /\ exists b, p = b ++ e.
Proof. exact selected_exact. Qed.
Print Assumptions C17_filter_exact.

Theorem C17_filter_is_spec : forall exts p, file_selected exts p = selected exts p.
Proof. exact file_selected_selected. Qed.
Print Assumptions C17_filter_is_spec.

(* 9. one file: the report is row by row the expected one (file, line of the comment start,
      assignee, words of the message) *)
Theorem C17_file_report : forall name items,
    items_ok items = true ->
    exists l, todos_of_tokens name (comment_tokens (render_items items)) = Some l /\
              Forall2 (row_matches name) l (expected_rows items 1).
Proof. exact file_report_meets_spec. Qed.
Print Assumptions C17_file_report.

(* 10. the whole statement, as the decider the check applies to the implementation's output:
       for every well-formed case with distinct paths the model does not crash and every clause
       of the verdict (no_crash, bad_input, unselected_file, missing, extra, line, assignee,
       message) holds on its report *)
Theorem C17_model_meets_spec : forall exts files,
    case_ok exts files = true -> NoDup (map af_name files) ->
    exists l, analysis_path exts (map fentry_of files) = Report l /\
              c17_verdict exts files false (map orow_of_todo l) = [].
Proof. exact model_meets_spec. Qed.
Print Assumptions C17_model_meets_spec.

(* the hand-compiled assignee scanner belongs to the expression that is in the Go source *)
Theorem C17_assignee_expression_tied : assign_regexp_known = true.
Proof. exact assign_regexp_is_known. Qed.
Print Assumptions C17_assignee_expression_tied.

(* ---- the shapes repaired by c90c20d / 4b63f71, now positive *)
Theorem C17_hash_alone_ok :
    parse_comment "#" = PNone /\ parse_comment "#  " = PNone /\
    model_verdict [".py"] [file_of "a.py" [mkItem ICode ("x = 1" ++ nl); mkItem IHash ""]] = [].
Proof. exact hash_alone_ok. Qed.
Print Assumptions C17_hash_alone_ok.

Theorem C17_hash_glued_reported :
    parse_comment "#TODO x" = PTodo "" "x" /\ parse_comment "#todo(al): y" = PTodo "al" "y" /\
    model_verdict [".py"] [file_of "a.py" [mkItem IHash "TODO x"]] = [].
Proof. exact hash_glued_reported. Qed.
Print Assumptions C17_hash_glued_reported.

Theorem C17_hash_not_eaten :
    parse_comment "#!TODO x" = PNone /\ parse_comment "##FIXME y" = PNone /\
    model_verdict [".py"] [file_of "a.py" [mkItem IHash "!TODO x"]] = [].
Proof. exact hash_not_eaten. Qed.
Print Assumptions C17_hash_not_eaten.

Theorem C17_dir_named_like_source_skipped :
    let files := [mkAFile "chart.js" true [] ""; file_of "chart.js/index.js" [mkItem ILine " TODO x"]] in
    analysis_path [".js"] (map fentry_of files) = Report [mkTodo "chart.js/index.js" 1 "" "x"] /\
    model_verdict [".js"] files = [].
Proof. exact dir_named_like_source_skipped. Qed.
Print Assumptions C17_dir_named_like_source_skipped.

(* ---- the open lexer findings (D-C17-4..7): on these inputs the model (= the implementation, by
        the correspondence check) fails the named clause of the specification *)
Theorem C17_sq_string_extra_refuted :
    model_verdict [".py"] [file_of "a.py" [mkItem ICode "s = "; mkItem ISq "a // TODO x"]] = ["extra:a.py"].
Proof. exact sq_string_extra_refuted. Qed.
Print Assumptions C17_sq_string_extra_refuted.

Theorem C17_sq_string_missing_refuted :
    model_verdict [".py"] [file_of "a.py" [mkItem ICode "s = "; mkItem ISq "ab"; mkItem ICode " ";
                                           mkItem IHash " TODO q"]] = ["missing:a.py"].
Proof. exact sq_string_missing_refuted. Qed.
Print Assumptions C17_sq_string_missing_refuted.

Theorem C17_str_escape_refuted :
    model_verdict [".go"] [file_of "a.go" [mkItem IStr (bslash ++ "x41 // TODO x")]] = ["extra:a.go"].
Proof. exact str_escape_refuted. Qed.
Print Assumptions C17_str_escape_refuted.

(* ---- the two shapes the documented reading tolerates: a star of the message is a blank; behind
        a block comment that is never closed only "no crash" is asked (what precedes it is judged) *)
Example C17_star_in_message_normalised :
    analysis_path [".go"] (map fentry_of [file_of "a.go" [mkItem ILine " TODO: a*b"]])
      = Report [mkTodo "a.go" 1 "" "a b"] /\
    model_verdict [".go"] [file_of "a.go" [mkItem ILine " TODO: a*b"]] = [].
Proof. exact star_in_message_normalised. Qed.
Print Assumptions C17_star_in_message_normalised.

Example C17_unterminated_block_tolerated :
    let files := [file_of "a.go" [mkItem ILine " TODO before"; mkItem ICode nl;
                                  mkItem IUBlock (" TODO x" ++ nl ++ "// FIXME inner")]] in
    analysis_path [".go"] (map fentry_of files)
      = Report [mkTodo "a.go" 1 "" "before"; mkTodo "a.go" 3 "" "inner"] /\
    model_verdict [".go"] files = [].
Proof. exact unterminated_block_tolerated. Qed.
Print Assumptions C17_unterminated_block_tolerated.

(* ---- non-vacuity: a case with literals full of comment markers, the three comment kinds, the
        repaired hash shapes, an unselected file and a directory with a selected extension
        satisfies the hypotheses, and its report is the expected one *)
Example C17_example_hypotheses : case_ok [".go"; ".py"] ex_files = true /\ NoDup (map af_name ex_files).
Proof. exact (conj ex_case_ok ex_names_distinct). Qed.
Print Assumptions C17_example_hypotheses.

Example C17_example_report :
    analysis_path [".go"; ".py"] (map fentry_of ex_files) =
    Report [ mkTodo "a.go" 2 "al" "fix it"; mkTodo "a.go" 3 "" "later    on two lines  ";
             mkTodo "a.go" 7 "a.b+c@d" "x"; mkTodo "pkg.go/b.py" 2 "al" "glued" ].
Proof. exact ex_report. Qed.
Print Assumptions C17_example_report.
