(* C18 -- Reference counts and evaluation statistics equal what the model contains.
   Only statements live here; every proof is [exact <lemma of Proofs/EvaluateProofs.v>]. *)
From Coq Require Import String List Bool Arith Permutation.
From Coca Require Import Lib.Str Lib.GoMap Model.CodeModel Model.GitSummary Model.JavaFull Model.JavaIdent
     Model.Evaluate Model.EvaluateSpec Proofs.GitSummaryProofs Proofs.EvaluateProofs.
Import ListNotations.
Open Scope string_scope.

(* 1. for any code model the reference count of a name is the number of recorded call sites whose full
      name it is when it is a declared project method, and zero otherwise *)
Theorem C18_count_exact : forall deps k,
    mget_d 0 (build_call_map deps) k =
    if str_mem k (project_method_names deps) then count_of_name k (all_call_names deps) else 0.
Proof. exact count_exact. Qed.
Print Assumptions C18_count_exact.

(* 2. methods never called, and callees that are not project methods, are absent from the table *)
Theorem C18_count_absent : forall deps k,
    count_of_name k (all_call_names deps) = 0 \/ str_mem k (project_method_names deps) = false ->
    mget (build_call_map deps) k = None.
Proof. exact count_absent. Qed.
Print Assumptions C18_count_absent.

(* 3. conservation: the counts sum to the number of call sites that resolve to a project method *)
Theorem C18_count_conservation : forall deps,
    list_sum (map snd (build_call_map deps)) =
    List.length (filter (fun s => str_mem s (project_method_names deps)) (all_call_names deps)).
Proof. exact count_conservation. Qed.
Print Assumptions C18_count_conservation.

(* 4. every method has one row *)
Theorem C18_count_one_row_each : forall deps, NoDup (mkeys (build_call_map deps)).
Proof. exact count_keys_nodup. Qed.
Print Assumptions C18_count_one_row_each.

(* 5. reproducible order: the listing is sorted by key, and it is the same whatever order the rows of the
      table come in (Go iterates a map in arbitrary order) *)
Theorem C18_listing_reproducible : forall m1 m2,
    Permutation m1 m2 -> NoDup (mkeys m1) -> sort_word m1 = sort_word m2.
Proof. exact sort_word_reproducible. Qed.
Print Assumptions C18_listing_reproducible.

Theorem C18_listing_sorted : forall m, sorted key_le (sort_word m) /\ Permutation (sort_word m) m.
Proof. exact (fun m => conj (sort_word_sorted m) (sort_word_perm m)). Qed.
Print Assumptions C18_listing_sorted.

(* 6. the whole count verdict (exact, none missing, conservation, strict key order) holds on the
      model's listing for every code model *)
Theorem C18_count_report_meets_spec : forall deps, count_verdict deps (count_report deps) = [].
Proof. exact count_report_meets_spec. Qed.
Print Assumptions C18_count_report_meets_spec.

(* 7. the summary numbers are those of the identified classes and methods *)
Theorem C18_summary_counts : forall deps idents,
    es_classes (evaluate deps idents) = List.length idents /\
    es_methods (evaluate deps idents) = List.length (flat_map d_funcs idents) /\
    es_static (evaluate deps idents) = List.length (filter is_static (flat_map d_funcs idents)) /\
    es_utils (evaluate deps idents) = List.length (filter is_util_class deps).
Proof. exact evaluate_counts. Qed.
Print Assumptions C18_summary_counts.

(* 8. static is static wherever it stands in the modifier list: permuting the modifiers of every
      method leaves the static count unchanged *)
Theorem C18_static_permutation_invariant : forall deps deps' idents idents',
    Forall2 same_up_to_modifier_order idents idents' ->
    es_static (evaluate deps idents) = es_static (evaluate deps' idents').
Proof. exact static_count_permutation_invariant. Qed.
Print Assumptions C18_static_permutation_invariant.

(* 9. the nullable list holds exactly the methods flagged as returning null or annotated
      @Nullable / @CheckForNull, each once *)
Theorem C18_nullable_exact : forall idents x,
    In x (nullable_list idents) <->
    exists d f, In d idents /\ In f (d_funcs d) /\ nullable_method f = true /\ x = func_full_name d f.
Proof. exact nullable_list_exact. Qed.
Print Assumptions C18_nullable_exact.

Theorem C18_nullable_once : forall idents, NoDup (nullable_list idents).
Proof. exact nullable_list_once. Qed.
Print Assumptions C18_nullable_once.

(* 10. the identifier pass flags a method iff one of the return statements of its body holds the null
       literal (a later non-null return does not clear the flag), and records the modifiers in source
       order *)
Theorem C18_return_null_is_a_disjunction : forall evs st,
    f_retnull (i_method (ident_events st evs)) = f_retnull (i_method st) || existsb null_return evs.
Proof. exact ident_events_retnull. Qed.
Print Assumptions C18_return_null_is_a_disjunction.

Theorem C18_method_recorded : forall st m,
    m_kind m = "method" ->
    exists f, d_funcs (i_node (ident_member st m)) =
              (d_funcs (i_node (fold_left (fun s a => if String.eqb a "Override"
                                  then mkI (i_node s) (i_nodes s) (i_method s) (i_hasEnterClass s) (i_imports s) true
                                  else s) (m_annots m) st)) ++ [f])%list /\
              f_name f = m_name m /\ f_mods f = m_mods m /\ f_retnull f = existsb null_return (m_events m).
Proof. exact ident_member_method. Qed.
Print Assumptions C18_method_recorded.

(* 11. concept report: for any stop-word list, no stop word is reported and the counts sum to the number
       of words of the method names (as the model segments them) that are not stop words *)
Theorem C18_concept_no_stop_words : forall deps w, In w stop_words -> ~ In w (map fst (concept_analysis deps)).
Proof. exact concept_no_stop_words. Qed.
Print Assumptions C18_concept_no_stop_words.

Theorem C18_concept_sum : forall deps,
    list_sum (map snd (concept_analysis deps)) =
    List.length (filter (fun w => negb (str_mem w stop_words)) (model_words (method_names deps))).
Proof. exact concept_sum. Qed.
Print Assumptions C18_concept_sum.

(* non-vacuity *)
Example C18_example_counts : count_report ex_model = [("p.B.run", 3)].
Proof. exact ex_counts. Qed.
Print Assumptions C18_example_counts.

Example C18_example_evaluate :
  let e := evaluate ex_model ex_model in
  (es_classes e, es_methods e, es_static e, es_utils e, es_nullable e) =
  (3, 5, 1, 1, ["p.A.findUserByName"; "p.B.run"; "p.StringUtils.idle"]).
Proof. exact ex_evaluate. Qed.
Print Assumptions C18_example_evaluate.

Example C18_example_segmentation :
  map to_delimited ["parseXMLDocument"; "getUserName"; "sha256Hash"; "MAX_VALUE"; "toJSON"; "xYZ"; "a1b2c"] =
  ["parse.xml.document"; "get.user.name"; "sha.256.hash"; "max.value"; "to.json"; "xyz"; "a.1.b2c"].
Proof. exact ex_to_delimited. Qed.
Print Assumptions C18_example_segmentation.
