(* C07 -- A file's analysis result is independent of other files, order and repetition.
   Only statements live here; every proof is [exact <lemma of Proofs/IndependenceProofs.v>]. *)
From Coq Require Import String List Bool Arith Permutation.
From Coca Require Import Lib.Sx Lib.GoMap Lib.Str Model.CodeModel Model.JavaFull Model.JavaFactsCodec Model.JavaIdent
     Model.ApiScan Model.BadSmell Model.RCall Model.CallGraph Proofs.JavaFullProofs Proofs.ApiProofs
     Proofs.IndependenceProofs Proofs.JavaIdentProofs Proofs.EntriesProofs Entry.C07.
Import ListNotations.
Open Scope string_scope.

(* 1. identifier pass: whatever the process did before (any listener state), the result for a file list is
      the concatenation, file by file, of what each file yields from the initial state *)
Theorem C07_ident_per_file : forall units st, snd (ident_files st units) = flat_map ident_of_file units.
Proof. exact ident_files_per_file. Qed.
Print Assumptions C07_ident_per_file.

(* 2. full pass, identifier set held fixed: the same, for every state in which no class body is open
      (which is how every file leaves the listener: second conjunct) *)
Theorem C07_full_per_file : forall ids units st,
    s_hasEnterClass st = false ->
    snd (analysis_files st ids units) = flat_map (full_of_file ids) units /\
    s_hasEnterClass (fst (analysis_files st ids units)) = false.
Proof. exact analysis_files_per_file. Qed.
Print Assumptions C07_full_per_file.

(* 3. order and other files: for any per-file result function, a permuted file list gives the same entries
      file-wise permuted, and the entries of a file are a contiguous block of the result of any file list
      that contains it *)
Theorem C07_order_irrelevant : forall (U E : Type) (per : U -> list E) l l',
    Permutation l l' -> Permutation (flat_map per l) (flat_map per l').
Proof. exact (fun U E => @per_file_permutation U E). Qed.
Print Assumptions C07_order_irrelevant.

Theorem C07_other_files_irrelevant : forall (U E : Type) (per : U -> list E) u l,
    In u l -> exists a b, flat_map per l = (a ++ per u ++ b)%list.
Proof. exact (fun U E => @per_file_superset U E). Qed.
Print Assumptions C07_other_files_irrelevant.

(* 3b. what the check compares: the entries grouped under a file's key (package.name). In every run - any
       listener state before, any selection with distinct keys that contains the unit, any order - they are
       exactly the entries the unit yields on its own; and a run yields entries for the processed files only *)
Theorem C07_ident_entries_of_file : forall st us u,
    named_units us -> NoDup (map unit_key us) -> In u us ->
    filter (fun e => String.eqb (ds_full_name e) (unit_key u)) (snd (ident_files st us)) = ident_of_file u.
Proof. exact ident_entries_of_file. Qed.
Print Assumptions C07_ident_entries_of_file.

Theorem C07_full_entries_of_file : forall st ids us u,
    s_hasEnterClass st = false -> NoDup (map unit_key us) -> In u us ->
    filter (fun e => String.eqb (ds_full_name e) (unit_key u)) (snd (analysis_files st ids us)) = full_of_file ids u.
Proof. exact full_entries_of_file. Qed.
Print Assumptions C07_full_entries_of_file.

Theorem C07_no_foreign_entry : forall (U E : Type) (per : U -> list E) (ukey : U -> string) (ekey : E -> string),
    (forall u e, In e (per u) -> ekey e = ukey u) ->
    forall us e, In e (flat_map per us) -> In (ekey e) (map ukey us).
Proof. exact (fun U E => @no_foreign_entry U E). Qed.
Print Assumptions C07_no_foreign_entry.

(* 4. bad smells are found per file; the API scan does not depend on the listener state left behind *)
Theorem C07_bad_smell_per_file : forall a b ignore,
    identify_bad_smell (a ++ b) ignore = (identify_bad_smell a ignore ++ identify_bad_smell b ignore)%list.
Proof. exact bad_smell_per_file. Qed.
Print Assumptions C07_bad_smell_per_file.

Theorem C07_api_state_free : forall units st st',
    option_map snd (api_files st units) = option_map snd (api_files st' units).
Proof. exact api_files_state_free. Qed.
Print Assumptions C07_api_state_free.

(* 5. the same call-graph / reverse-call-graph query gives the same graph whatever the counters and the
      last-child marker of earlier queries are *)
Theorem C07_call_graph_repeatable : forall cnt cnt' root m lookup,
    snd (canalysis cnt root m lookup) = snd (canalysis cnt' root m lookup).
Proof. exact call_graph_repeatable. Qed.
Print Assumptions C07_call_graph_repeatable.

Theorem C07_rcall_graph_repeatable : forall st st' target m,
    snd (ranalysis st target m) = snd (ranalysis st' target m).
Proof. exact rcall_graph_repeatable. Qed.
Print Assumptions C07_rcall_graph_repeatable.

(* 6. histories: the interpreter the correspondence check runs against the implementation.  Every run of
      every history (any kinds, selections, orders, repetitions) yields exactly what it yields as the only
      run of a fresh process *)
Theorem C07_history_free : forall files names0 rs st,
    good st ->
    run_all files names0 st rs = map (fun r => snd (run_one files names0 (pstate_init istate0) r)) rs.
Proof. exact history_free. Qed.
Print Assumptions C07_history_free.

(* non-vacuity: the initial process state is good *)
Example C07_initial_state_good : good (pstate_init istate0).
Proof. exact eq_refl. Qed.
Print Assumptions C07_initial_state_good.
