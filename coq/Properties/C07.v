(* C07 property theorems: statements only *)
From Coq Require Import String List Bool Arith.
