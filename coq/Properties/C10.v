(* C10 -- Bad-smell findings match the documented thresholds exactly.
   Only statements live here; every proof is [exact <lemma of Proofs/BadSmellProofs.v>]. *)
From Coq Require Import String List Bool Arith Permutation.
From Coca Require Import Lib.Str Lib.GoMap Model.GitSummary Model.BadSmell Model.BadSmellSpec Generated.Constants
     Proofs.GitSummaryProofs Proofs.BadSmellProofs.
Import ListNotations.
Open Scope string_scope.

(* 1. the constants and comparison operators REGENERATED from bs_app.go are the documented ones *)
Theorem C10_thresholds_documented :
  BS_METHOD_LENGTH = 30 /\ bs_long_method_cmp = ">" /\
  BS_LONG_PARAS_LENGTH = 5 /\ bs_long_params_cmp = ">" /\
  BS_LARGE_LENGTH = 20 /\ bs_large_class_cmp = ">=" /\
  BS_IF_SWITCH_LENGTH = 8 /\ bs_if_size_cmp = ">=" /\ bs_switch_size_cmp = ">=" /\
  BS_IF_LINES_LENGTH = 3 /\ bs_if_lines_cmp = ">=".
Proof. exact thresholds_documented. Qed.
Print Assumptions C10_thresholds_documented.

(* 2. for every list of classes the findings are, as a collection, exactly the documented ones:
      both directions, every kind, with file, line and size *)
Theorem C10_smells_exact : forall nodes,
    Permutation (map smell_row (analysis_bad_smell nodes)) (expected_smells nodes).
Proof. exact smells_exact. Qed.
Print Assumptions C10_smells_exact.

(* 3. the ignore option removes exactly the named kinds *)
Theorem C10_ignore_exact : forall nodes ignore s,
    In s (identify_bad_smell nodes ignore) <-> In s (analysis_bad_smell nodes) /\ ~ In (sm_bs s) ignore.
Proof. exact ignore_exact. Qed.
Print Assumptions C10_ignore_exact.

(* 4. sorting by type regroups the same findings by kind, and the five sized kinds are in
      non-increasing order of size *)
Theorem C10_sort_groups : forall l,
    Permutation (flat_map snd (sort_smell_by_type l)) l /\
    (forall k g, In (k, g) (sort_smell_by_type l) -> forall x, In x g -> sm_bs x = k).
Proof. exact sort_by_type_groups. Qed.
Print Assumptions C10_sort_groups.

Theorem C10_sort_sorted : forall l k g,
    In (k, g) (sort_smell_by_type l) -> smell_have_size k = true ->
    sorted (fun a b => Nat.leb (sm_size b) (sm_size a)) g.
Proof. exact sort_by_type_sorted. Qed.
Print Assumptions C10_sort_sorted.

Theorem C10_sized_kinds : forall k,
    smell_have_size k = true <->
    In k ["largeClass"; "repeatedSwitches"; "longParameterList"; "longMethod"; "dataClass"].
Proof. exact sized_kinds_are_the_five. Qed.
Print Assumptions C10_sized_kinds.

(* non-vacuity: methods exactly at and exactly past every threshold *)
Example C10_example :
  map smell_row (analysis_bad_smell ex_bs_nodes) =
  [ row "a/K0.java" "50" "longMethod" 31; row "a/K0.java" "50" "longParameterList" 6;
    row "a/K0.java" "50" "repeatedSwitches" 8; row "a/K0.java" "50" "repeatedSwitches" 8;
    row "a/K0.java" "52" "complexCondition" 0;
    row "a/K1.java" "" "dataClass" 2; row "a/K2.java" "" "lazyElement" 0 ].
Proof. exact ex_bs_findings. Qed.
Print Assumptions C10_example.
