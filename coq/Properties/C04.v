(* C04 -- Reverse call graph is the exact inverse of the project-internal call relation.
   Only statements live here; every proof is [exact <lemma of Proofs/RCallProofs.v>]. *)
From Coq Require Import String List Bool Arith.
From Coca Require Import Lib.GoMap Lib.Dot Lib.Reach Model.CodeModel Model.RCall Model.RCallSpec
     Generated.Constants Proofs.DotProofs Proofs.RCallProofs.
Import ListNotations.
Open Scope string_scope.

(* 1. the reverse-call map lists, for every method, exactly the project methods calling it,
      once per call site and in call-site order; undeclared callees have no callers *)
Theorem C04_map_exact : forall m callee,
    mget_d [] (method_call_map m) callee = spec_callers m callee.
Proof. exact rcall_map_exact. Qed.
Print Assumptions C04_map_exact.

Theorem C04_map_keys_declared : forall m k,
    In k (mkeys (method_call_map m)) -> In k (declared_methods m).
Proof. exact rcall_map_keys_declared. Qed.
Print Assumptions C04_map_keys_declared.

Theorem C04_map_values_declared : forall m k c,
    In c (mget_d [] (method_call_map m) k) -> In c (declared_methods m).
Proof. exact rcall_map_values_declared. Qed.
Print Assumptions C04_map_values_declared.

(* 2. every edge caller -> callee comes from the map, and the callee lies on a caller chain
      (of at most [fuel] steps) ending at the queried method -- for every map, state and fuel *)
Theorem C04_edges_sound : forall mm fuel st target c g,
    In (REdge c g) (snd (rchain fuel mm st target)) ->
    In c (callers mm g) /\ ReachN (callers mm) fuel target g.
Proof. intros mm fuel st target c g. exact (rchain_sound mm fuel st target c g). Qed.
Print Assumptions C04_edges_sound.

(* 3. every direct caller of the target other than itself is drawn, whatever state the
      process was left in by earlier queries *)
Theorem C04_direct_callers_present : forall mm st target c,
    In c (callers mm target) -> c <> target ->
    In (REdge c target) (snd (build_rcall_chain st mm target)).
Proof. exact direct_callers_present. Qed.
Print Assumptions C04_direct_callers_present.

(* 4. generation terminates inside the fixed budget for every graph shape: the fuel
      (budget + 2) is never exhausted and at most loopDepth expansions happen *)
Theorem C04_terminates_in_budget : forall mm st target,
    ~ In ROutOfFuel (snd (build_rcall_chain st mm target)) /\
    r_cnt (fst (build_rcall_chain st mm target)) <= loopDepth.
Proof. exact build_rcall_chain_terminates_in_budget. Qed.
Print Assumptions C04_terminates_in_budget.

(* 5. the printed text is well-formed DOT that parses back to exactly the printed edges,
      for all names without backslash/newline (double quotes allowed) *)
Theorem C04_dot_roundtrip : forall l,
    names_plain l ->
    dot_parse ("digraph G {" ++ nl ++ render_stmts l ++ "}" ++ nl) = Some (stmt_edges l).
Proof. exact dot_parse_render. Qed.
Print Assumptions C04_dot_roundtrip.

(* 6. the whole statement, as the decider the check applies to the implementation's output:
      on the model's own output every clause holds, for every model, target and process state *)
Theorem C04_model_meets_spec : forall st m target,
    names_ok m target ->
    let out := snd (ranalysis st target m) in
    c04_verdict m target (fst out) (snd out) = [].
Proof. exact ranalysis_meets_spec. Qed.
Print Assumptions C04_model_meets_spec.

(* non-vacuity *)
Example C04_example_hypotheses : names_ok ex_model "p.T.t".
Proof. exact ex_model_names_ok. Qed.
Print Assumptions C04_example_hypotheses.

Example C04_example_graph :
  exists es, dot_parse (snd (snd (ranalysis rstate0 "p.T.t" ex_model))) = Some (("p.T.t", "p.A.a") :: es)
             /\ In ("p.A.b", "p.T.t") es.
Proof. exact ex_model_graph_nonempty. Qed.
Print Assumptions C04_example_graph.

Example C04_example_quotes :
  dot_parse (snd (snd (ranalysis rstate0 ("p.T" ++ dquote ++ ".t") ex_quote_model)))
  = Some [("p.A.a" ++ dquote ++ "b", "p.T" ++ dquote ++ ".t")].
Proof. exact ex_quote_graph. Qed.
Print Assumptions C04_example_quotes.
