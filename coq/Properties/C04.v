From Coca Require Import Model.RCall Model.RCallSpec.
Theorem placeholder : True. Proof. exact I. Qed.
Print Assumptions placeholder.
