(* C20 -- Go and Python front-ends list every declaration under its own name.
   Only statements live here; every proof is [exact <lemma of Proofs/FrontProofs.v>].
   The models (Model/GoFront.v, Model/PyFront.v) are the state of /repo after the C20 fix
   commits (b93eb48 acbca51 db50c6c 001a2f6 fbe1dca bae8eb2 59ca923 f295c5c); the deciders
   (Model/FrontSpec.v) say what the property says.  Refutations remain only for the findings
   that are still open (the two Python import forms). *)
From Coq Require Import String List Bool Arith.
From Coca Require Import Lib.Str Lib.GoMap Model.GoFront Model.PyFront Model.FrontSpec Proofs.FrontProofs.
Import ListNotations.
Open Scope string_scope.

(* ------------------------------------------------------------------ Go *)
(* 1. EVERY Go file -- any number of struct / interface / other type declarations in any order
      relative to their methods, functions with or without body, grouped names, statements
      nested in if / else / blocks / function literals passed as arguments, to any depth -- is listed exactly: all six clauses of the decider hold on
      the model's output.  Decidable hypotheses: distinct type names, distinct function names,
      distinct method names per receiver type, call statements name their function by an
      identifier other than func/type and returned calls carry no selector argument, no selector
      call is deferred directly inside a function literal (open finding D-C20-lit-defer), import
      paths without the module name inside.  Receiver types need not be declared in the file. *)
Theorem C20_go_decls_exact : forall f,
    nodup_b (type_names f) = true ->
    nodup_b (map fst (func_decls f)) = true ->
    forallb (fun t => nodup_b (meth_names t (gf_decls f))) (recv_types (gf_decls f)) = true ->
    forallb decl_plain_b (gf_decls f) = true ->
    forallb import_plain_b (gf_imports f) = true ->
    go_verdict f (go_front f) = [].
Proof. exact go_decls_exact. Qed.
Print Assumptions C20_go_decls_exact.

(* 2. the four declaration clauses need nothing but distinct type names: receivers may be
      undeclared, names may repeat, bodies and imports are arbitrary *)
Theorem C20_go_listing_exact : forall f o,
    nodup_b (type_names f) = true -> go_front f = GOk o ->
    go_structs_ok f o = true /\ go_interfaces_ok f o = true /\ go_methods_ok f o = true /\
    go_functions_ok f o = true.
Proof. exact go_listing_exact. Qed.
Print Assumptions C20_go_listing_exact.

(* 3. the entry of a declared type is its own cell carrying the methods declared after it
      followed by those declared before it *)
Theorem C20_go_cell_of_decl : forall f,
    nodup_b (type_names f) = true ->
    forall l1 T l2 t,
      gf_decls f = (l1 ++ T :: l2)%list -> type_name T = Some t ->
      exists o, go_front f = GOk o /\
                dss_named o t =
                [with_funcs (type_cell (gf_pkg f) (map build_import (gf_imports f)) T)
                            (meth_funcs (file_scope (gf_decls f)) (gf_pkg f) (map build_import (gf_imports f)) t l2 ++
                             meth_funcs (file_scope (gf_decls f)) (gf_pkg f) (map build_import (gf_imports f)) t l1)%list].
Proof. exact go_cell_of_decl. Qed.
Print Assumptions C20_go_cell_of_decl.

(* 4. the Go front-end crashes on no abstract file *)
Theorem C20_go_no_crash : forall f, exists o, go_front f = GOk o.
Proof. exact go_no_crash. Qed.
Print Assumptions C20_go_no_crash.

(* 5. analysis.CommonAnalysis (function base) names every declared type once and every exported
      top-level function once *)
Theorem C20_go_common_exact : forall f,
    nodup_b (type_names f) = true -> receivers_declared_b f = true ->
    exists obs, go_common (go_front f) = Some obs /\ go_common_ok f obs = true.
Proof. exact go_common_exact. Qed.
Print Assumptions C20_go_common_exact.

(* the hypotheses are satisfiable by a file of every repaired shape at once *)
Example C20_go_multi_example : go_verdict ex_multi (go_front ex_multi) = [].
Proof. exact go_multi_example. Qed.
Print Assumptions C20_go_multi_example.

Example C20_go_multi_common_example :
  exists obs, go_common (go_front ex_multi) = Some obs /\ go_common_ok ex_multi obs = true.
Proof. exact go_multi_common_example. Qed.
Print Assumptions C20_go_multi_common_example.

Example C20_go_other_file_example :
  go_verdict ex_other_file (go_front ex_other_file) = [] /\
  (exists o, go_front ex_other_file = GOk o /\
             map (fun d => (od_name d, map of_name (od_funcs d))) (o_dss o) =
             [("A", []); ("Elsewhere", ["Run"; "stop"])]).
Proof. exact go_other_file_example. Qed.
Print Assumptions C20_go_other_file_example.

(* the former refutation witnesses, now listed exactly *)
Example C20_go_two_structs_exact :
  go_verdict ex_two_structs (go_front ex_two_structs) = [] /\
  (exists o, go_front ex_two_structs = GOk o /\ map od_name (o_dss o) = ["A"; "B"] /\
             map (fun d => map of_name (od_funcs d)) (o_dss o) = [["M1"; "M3"]; ["M2"]]).
Proof. exact go_two_structs_exact. Qed.
Print Assumptions C20_go_two_structs_exact.

Example C20_go_method_before_type_exact :
  go_verdict ex_method_first (go_front ex_method_first) = [] /\
  (exists o, go_front ex_method_first = GOk o /\
             map (fun d => (od_name d, map of_name (od_funcs d))) (o_dss o) = [("A", ["M1"])]).
Proof. exact go_method_before_type_exact. Qed.
Print Assumptions C20_go_method_before_type_exact.

Example C20_go_bodyless_exact : go_verdict ex_bodyless (go_front ex_bodyless) = [].
Proof. exact go_bodyless_exact. Qed.
Print Assumptions C20_go_bodyless_exact.

Example C20_go_grouped_names_exact : go_verdict ex_grouped (go_front ex_grouped) = [].
Proof. exact go_grouped_names_exact. Qed.
Print Assumptions C20_go_grouped_names_exact.

Example C20_go_call_in_if_exact : go_verdict ex_call_in_if (go_front ex_call_in_if) = [].
Proof. exact go_call_in_if_exact. Qed.
Print Assumptions C20_go_call_in_if_exact.

(* a function literal passed as an argument: the statements inside it are statements of the function (calls, a deferred
   local call, a nested literal), each selector call listed once and before the call that takes the literal *)
Example C20_go_call_lit_exact :
  go_verdict ex_call_lit (go_front ex_call_lit) = [] /\
  (exists o, go_front ex_call_lit = GOk o /\
             map (fun fn => map (fun c => (oc_node c, oc_fn c)) (of_calls fn)) (obs_funcs o)
             = [[("cleanup", ""); ("cleanup", ""); ("fmt", "Println"); ("wg", "Add"); ("wg", "Done"); ("fmt", "Sscan");
                 ("wg", "Go"); ("wg", "Wait")]]).
Proof. exact go_call_lit_exact. Qed.
Print Assumptions C20_go_call_lit_exact.

(* open finding D-C20-lit-defer: the clause "each call written as a statement exactly once" is FALSE of the faithful
   model for a selector call deferred directly inside a function literal (the witness, replayed on the implementation,
   is what the check prints as KNOWN-FINDING); theorem 1 excludes exactly this shape (lit_quiet_b inside stmt_plain_b) *)
Theorem C20_go_lit_defer_refuted :
  go_verdict ex_lit_defer (go_front ex_lit_defer) = ["go_calls"] /\
  (exists o, go_front ex_lit_defer = GOk o /\
             map (fun fn => map (fun c => (oc_node c, oc_fn c)) (of_calls fn)) (obs_funcs o)
             = [[("fmt", "Println"); ("fmt", "Println"); ("each", "")]]).
Proof. exact go_lit_defer_refuted. Qed.
Print Assumptions C20_go_lit_defer_refuted.

(* ------------------------------------------------------------------ Python *)
(* 6. EVERY module -- classes and defs nested in each other in any way and to any depth,
      decorators anywhere, the same class, method or function name any number of times (classes
      local to two methods, getter / setter pairs, redefinitions) -- with one module per import
      statement and alias-free from-imports is listed exactly *)
Theorem C20_py_decls_exact : forall m,
    forallb item_ok m = true ->
    py_verdict m (py_front m) = [].
Proof. exact py_decls_exact. Qed.
Print Assumptions C20_py_decls_exact.

(* 7. whatever the import statements look like, classes, methods, decorators and functions are
      listed exactly *)
Theorem C20_py_listing_exact : forall m o,
    py_front m = POk o ->
    py_classes_ok m o = true /\ py_methods_ok m o = true /\ py_decorators_ok m o = true /\
    py_functions_ok m o = true.
Proof. exact py_listing_exact. Qed.
Print Assumptions C20_py_listing_exact.

(* 8. what exactly the listener returns, on EVERY module: the imports, the classes in exit order
      (a class after the classes nested anywhere in it) each with the defs written directly in
      it, the top-level defs *)
Theorem C20_py_module_output : forall m, py_front m = POk (module_output m).
Proof. exact py_module_output. Qed.
Print Assumptions C20_py_module_output.

(* 9. the Python front-end crashes on no abstract module *)
Theorem C20_py_no_crash : forall m, exists o, py_front m = POk o.
Proof. exact py_no_crash. Qed.
Print Assumptions C20_py_no_crash.

Theorem C20_py_common_exact : forall m,
    exists obs, py_common (py_front m) = Some obs /\ py_common_ok m obs = true.
Proof. exact py_common_exact. Qed.
Print Assumptions C20_py_common_exact.

Example C20_py_nested_example :
  py_verdict ex_py_nested (py_front ex_py_nested) = [] /\
  (exists o, py_front ex_py_nested = POk o /\
             map (fun c : pclass => (fst (fst c), map fst (snd c))) (pf_classes o) =
             [("Deep", ["dm"]); ("Inner", ["im"]); ("Outer", ["create"; "save"])] /\
             map fst (pf_members o) = ["index"]).
Proof. exact py_nested_example. Qed.
Print Assumptions C20_py_nested_example.

(* def f(): class C: def m(self) -- the regression of 59ca923, repaired by f295c5c *)
Example C20_py_local_class_example :
  py_front ex_py_local_class = POk (mkPFile [] [("C", [], [("m", [])])] [("f", [("f", [])])]) /\
  py_verdict ex_py_local_class (py_front ex_py_local_class) = [].
Proof. exact py_local_class_example. Qed.
Print Assumptions C20_py_local_class_example.

(* the same class name twice (classes local to two methods) and the same method name twice in a class
   (getter / setter): listed exactly; the decider tells the duplicates apart (an output giving both local
   classes no method, or the setter the getter's decorator, is rejected) *)
Example C20_py_dups_example :
  py_front ex_py_dups =
    POk (mkPFile [] [("L", [], []); ("Base", [], [("run", [])]); ("L", [], [("stop", [])]);
                     ("Svc", [], [("x", [("property", [])]); ("x", [("x.setter", [])]); ("run", [])])] []) /\
  py_verdict ex_py_dups (py_front ex_py_dups) = [] /\
  py_verdict ex_py_dups
    (POk (mkPFile [] [("L", [], []); ("Base", [], [("run", [])]); ("L", [], []);
                      ("Svc", [], [("x", [("property", [])]); ("x", [("x.setter", [])]); ("run", [])])] []))
    = ["py_methods"; "py_decorators"] /\
  py_verdict ex_py_dups
    (POk (mkPFile [] [("L", [], []); ("Base", [], [("run", [])]); ("L", [], [("stop", [])]);
                      ("Svc", [], [("x", [("property", [])]); ("x", [("property", [])]); ("run", [])])] []))
    = ["py_decorators"].
Proof. exact py_dups_example. Qed.
Print Assumptions C20_py_dups_example.

(* ------------------------------------------------------------------ still open *)
(* 10. a module containing "import a, b" never satisfies the imports clause (D42) *)
Theorem C20_py_import_list_never_exact : forall m o,
    import_lists_nonempty m = true ->
    has_import_list m = true ->
    py_front m = POk o ->
    py_imports_ok m o = false.
Proof. exact py_import_list_never_exact. Qed.
Print Assumptions C20_py_import_list_never_exact.

Example C20_py_import_list_example :
  import_lists_nonempty ex_py_import_list = true /\ has_import_list ex_py_import_list = true.
Proof. exact py_import_list_example. Qed.
Print Assumptions C20_py_import_list_example.

Theorem C20_py_import_list_refuted :
  py_front ex_py_import_list = POk (mkPFile [("a", ["b"])] [] []) /\
  py_verdict ex_py_import_list (py_front ex_py_import_list) = ["py_imports"].
Proof. exact py_import_list_refuted. Qed.
Print Assumptions C20_py_import_list_refuted.

Theorem C20_py_from_as_refuted :
  py_front ex_py_from_as = POk (mkPFile [("m", ["xasy"])] [] []) /\
  py_verdict ex_py_from_as (py_front ex_py_from_as) = ["py_imports"].
Proof. exact py_from_as_refuted. Qed.
Print Assumptions C20_py_from_as_refuted.

