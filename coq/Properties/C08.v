(* C08 -- Identical input yields identical output on every run.
   Only statements live here; every proof is [exact <lemma>].
   The Go runtime randomises the iteration order of a map on every range statement.  In the models a
   report derived from a map is a list in SOME order; the theorems below say that what a run is compared
   by (the normal form of the report) is the same for EVERY order, so the verdict of a run cannot depend
   on the interleaving it happened to draw. *)
From Coq Require Import String List Bool Arith Permutation.
From Coca Require Import Lib.Sx Lib.Str Lib.GoMap Lib.Shape Model.CodeModel Model.GitSummary Model.Evaluate
     Proofs.GitSummaryProofs Proofs.EvaluateProofs Proofs.ShapeProofs Proofs.FanProofs Model.Arch Entry.C08.
Import ListNotations.
Open Scope string_scope.

(* 1. collections: listing the same elements in another order gives the same normal form *)
Theorem C08_collection_order_free : forall s l l', Permutation l l' -> nf (SBag s) (L l) = nf (SBag s) (L l').
Proof. exact nf_bag_order_free. Qed.
Print Assumptions C08_collection_order_free.

Theorem C08_nested_collection_order_free : forall l l', Permutation l l' -> deep (L l) = deep (L l').
Proof. exact deep_order_free. Qed.
Print Assumptions C08_nested_collection_order_free.

Theorem C08_nested_collection_congruence : forall l l',
    Forall2 (fun x y => deep x = deep y) l l' -> deep (L l) = deep (L l').
Proof. exact deep_congruence. Qed.
Print Assumptions C08_nested_collection_congruence.

(* 2. edge sets: a graph text whose lines come in another order has the same normal form *)
Theorem C08_edge_set_order_free : forall a b,
    Permutation (split nl a) (split nl b) -> nf SLines (A a) = nf SLines (A b).
Proof. exact nf_lines_order_free. Qed.
Print Assumptions C08_edge_set_order_free.

(* 3. promised orders: a sorted table is compared by its sequence of keys and its set of rows; rows that
      tie may be swapped *)
Theorem C08_sorted_table_ties_free : forall k s l l',
    Permutation l l' -> map (sx_nth k) l = map (sx_nth k) l' ->
    nf (SSortedBy k s) (L l) = nf (SSortedBy k s) (L l').
Proof. exact nf_sorted_by_order_free. Qed.
Print Assumptions C08_sorted_table_ties_free.

(* 4. and when no two rows tie in the key, sorting any permutation of the rows yields the very same
      table (for every total preorder: the tables of the git summaries, bad-smell groups, counts) *)
Theorem C08_untied_sort_is_deterministic : forall (A : Type) (le : A -> A -> bool),
    (forall a b, le a b = true \/ le b a = true) ->
    (forall a b c, le a b = true -> le b c = true -> le a c = true) ->
    forall l l', Permutation l l' -> untied le l -> sort_by le l = sort_by le l'.
Proof. exact (fun A le => @sort_by_order_free A le). Qed.
Print Assumptions C08_untied_sort_is_deterministic.

(* 5. the listing of `coca count` / `coca concept` is the same for every iteration order of the table *)
Theorem C08_count_listing_deterministic : forall m1 m2,
    Permutation m1 m2 -> NoDup (mkeys m1) -> sort_word m1 = sort_word m2.
Proof. exact sort_word_reproducible. Qed.
Print Assumptions C08_count_listing_deterministic.

(* 6. code model: the functions of a type in any order give the same normal form of the entry *)
Theorem C08_function_order_free : forall d fs fs',
    Permutation fs fs' -> nf ds_shape (sx_of_ds (with_funcs d fs)) = nf ds_shape (sx_of_ds (with_funcs d fs')).
Proof. exact entry_function_order_free. Qed.
Print Assumptions C08_function_order_free.

(* 7. the fan table (SortedByFan): one row per node of the merged graph, in non-increasing order of
      fan-in + fan-out - the promised order; rows with the same total may come in any order *)
Theorem C08_fan_table_rows : forall f g, Permutation (sorted_by_fan f g) (fan_rows (merge_graph f g)).
Proof. exact sorted_by_fan_rows. Qed.
Print Assumptions C08_fan_table_rows.

Theorem C08_fan_table_sorted : forall f g, Sorted.StronglySorted fan_ge (sorted_by_fan f g).
Proof. exact sorted_by_fan_sorted. Qed.
Print Assumptions C08_fan_table_sorted.

(* non-vacuity: the normal form separates different collections and different promised orders *)
Example C08_normal_form_separates :
  nf (SBag SExact) (L [A "b"; A "a"; A "a"]) = nf (SBag SExact) (L [A "a"; A "b"; A "a"]) /\
  nf (SBag SExact) (L [A "b"; A "a"]) <> nf (SBag SExact) (L [A "a"; A "b"; A "a"]) /\
  nf (SList SExact) (L [A "b"; A "a"]) <> nf (SList SExact) (L [A "a"; A "b"]) /\
  nf (SSortedBy 1 SExact) (L [L [A "x"; A "2"]; L [A "y"; A "2"]; L [A "z"; A "1"]]) =
  nf (SSortedBy 1 SExact) (L [L [A "y"; A "2"]; L [A "x"; A "2"]; L [A "z"; A "1"]]) /\
  nf (SSortedBy 1 SExact) (L [L [A "x"; A "2"]; L [A "z"; A "1"]]) <>
  nf (SSortedBy 1 SExact) (L [L [A "z"; A "1"]; L [A "x"; A "2"]]).
Proof. exact ex_nf. Qed.
Print Assumptions C08_normal_form_separates.
