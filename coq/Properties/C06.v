(* C06 -- Unused-import removal deletes nothing but unused single-type imports.
   Only statements live here; every proof is [exact <lemma of Proofs/UnusedImportProofs.v>].

   [ui_cfg] switches the five repairs of fixes/unused-*.diff; [cfg_prefix] is the code before them,
   [cfg_fixed] the code with all of them.  A directory is a list of files in walk order; a file is its
   lines (each with the import declarations on it) and the occurrences the listener callbacks read. *)
From Coq Require Import String List Bool Arith.
From Coca Require Import Lib.Str Lib.GoMap Model.UnusedImport Model.UnusedImportSpec Model.UnusedImportFacts
     Proofs.UnusedImportProofs.
Import ListNotations.
Open Scope string_scope.
Open Scope list_scope.

(* 1. frame condition of the deletion loop: removeImportByLines/removeLine with its shifting counter,
      run on the numbers of the lines satisfying P, leaves exactly the other lines, byte-identical and in
      order; it does not panic and (P-lines holding imports) deletes nothing but import lines *)
Theorem C06_line_deletion_exact : forall P lines corrupt,
    (forall l, P l = true -> ln_imps l <> []) -> keep P lines <> [] ->
    remove_by_lines 1 (positions_from 1 P lines) lines corrupt = mkRm (keep P lines) corrupt false.
Proof. exact remove_lines_exact. Qed.
Print Assumptions C06_line_deletion_exact.

(* 2. BuildErrorLines returns exactly the numbers of the lines that hold imports none of which is in use
      (repaired code: any file; before: one import per line) *)
Theorem C06_error_lines_exact : forall cfg fields lines,
    (fx_lines cfg || one_import_per_line lines)%bool = true ->
    build_error_lines cfg fields (imports_from 1 lines) = positions_from 1 (line_removable cfg fields) lines.
Proof. exact build_error_lines_positions. Qed.
Print Assumptions C06_error_lines_exact.

(* 3. whatever the process state, after the loop body of Analysis the listener holds this file's names,
      imports and path: nothing leaks INTO the analysis of a file *)
Theorem C06_analysis_state_independent : forall cfg g f,
    proj cfg (analyse_file cfg g f) = file_ast cfg f /\
    path_of cfg (analyse_file cfg g f) = jf_path f /\
    g_current_file (analyse_file cfg g f) = jf_path f.
Proof. exact analyse_file_view. Qed.
Print Assumptions C06_analysis_state_independent.

(* 4. Analysis + Refactoring on a directory, from any process state, rewrites every file from its own
      view -- any number of files once tables and path travel with the node, one file before *)
Theorem C06_directory_is_per_file : forall cfg g w,
    (fx_perfile cfg || Nat.leb (List.length w) 1)%bool = true ->
    NoDup (map jf_path w) -> no_panic cfg w ->
    exists g', run_once cfg g w = (g', apply_all cfg w, false).
Proof. exact run_once_map. Qed.
Print Assumptions C06_directory_is_per_file.

(* 5. a well-formed file is cleaned: the result is the file minus its removable lines, no panic *)
Theorem C06_file_cleaned : forall cfg f, wf_file cfg f -> apply_file cfg f = (clean_file cfg f, false).
Proof. exact apply_file_wf. Qed.
Print Assumptions C06_file_cleaned.

(* 6. idempotence on one file *)
Theorem C06_file_idempotent : forall cfg f,
    wf_file cfg f -> apply_file cfg (clean_file cfg f) = (clean_file cfg f, false).
Proof. exact apply_file_clean. Qed.
Print Assumptions C06_file_idempotent.

(* 7. wildcard imports are never deleted *)
Theorem C06_wildcard_kept : forall cfg f l i,
    wf_file cfg f -> In l (jf_lines f) -> In i (ln_imps l) -> if_star i = true ->
    In l (jf_lines (clean_file cfg f)).
Proof. exact wildcard_line_kept. Qed.
Print Assumptions C06_wildcard_kept.

(* 8. the decider accepts the cleaned file: only import lines dropped, none of them wildcard or in use,
      no line of dead single-type imports left *)
Theorem C06_cleaned_file_meets_spec : forall cfg f a,
    wf_file cfg f -> consistent cfg f a -> file_clauses a (file_texts (clean_file cfg f)) = [].
Proof. exact clean_file_meets_spec. Qed.
Print Assumptions C06_cleaned_file_meets_spec.

(* 9. the whole observation: run 1 cleans every file; run 2, in the same process or a new one, changes
      nothing; nothing panics *)
Theorem C06_observation : forall cfg w,
    wf_world cfg w ->
    observe cfg w = ((RunOk, clean_world cfg w), (RunOk, clean_world cfg w), (RunOk, clean_world cfg w)).
Proof. exact observe_wf. Qed.
Print Assumptions C06_observation.

(* 10. the property on the model, for every combination of repairs (hypotheses are decidable) *)
Theorem C06_model_meets_spec : forall cfg w afs,
    wf_world_b cfg w = true ->
    Forall2 (fun f a => consistent_b cfg f a = true) w afs ->
    verdict_of afs (observe cfg w) = [].
Proof. exact model_meets_spec_b. Qed.
Print Assumptions C06_model_meets_spec.

(* 11. the repaired code: directories of any number of files *)
Theorem C06_fixed_meets_spec : forall w afs,
    wf_world_b cfg_fixed w = true ->
    Forall2 (fun f a => consistent_b cfg_fixed f a = true) w afs ->
    verdict_of afs (observe cfg_fixed w) = [].
Proof. exact fixed_meets_spec. Qed.
Print Assumptions C06_fixed_meets_spec.

(* 12. the code before the repairs: a single file from the initial state *)
Theorem C06_prefix_single_file_meets_spec : forall f a,
    wf_world_b cfg_prefix [f] = true -> consistent_b cfg_prefix f a = true ->
    verdict_of [a] (observe cfg_prefix [f]) = [].
Proof. exact prefix_single_file_meets_spec. Qed.
Print Assumptions C06_prefix_single_file_meets_spec.

(* 13. a second run changes nothing *)
Theorem C06_second_run_changes_nothing : forall cfg w,
    wf_world_b cfg w = true ->
    let '(r1, r2, r3) := observe cfg w in
    fst r1 = RunOk /\ r2 = r1 /\ r3 = r1.
Proof. exact second_run_changes_nothing. Qed.
Print Assumptions C06_second_run_changes_nothing.

(* 14. every file is cleaned, not just one *)
Theorem C06_every_file_cleaned : forall cfg w,
    wf_world_b cfg w = true ->
    snd (fst (fst (observe cfg w))) =
    map (fun f => mkFile (jf_path f) (jf_pkg f)
                         (filter (fun l => negb (line_removable cfg (file_fields cfg f) l)) (jf_lines f))
                         (jf_occs f) false) w.
Proof. exact every_file_cleaned. Qed.
Print Assumptions C06_every_file_cleaned.

(* the hypotheses are satisfiable *)
Example C06_hyp_single_file_prefix :
  wf_world_b cfg_prefix [ex_fA] = true /\ consistent_b cfg_prefix ex_fA ex_aA = true.
Proof. exact ex_A_alone_wf. Qed.
Print Assumptions C06_hyp_single_file_prefix.

Example C06_hyp_two_files_fixed :
  wf_world_b cfg_fixed [ex_fA; ex_fB] = true /\
  consistent_b cfg_fixed ex_fA ex_aA = true /\ consistent_b cfg_fixed ex_fB ex_aB = true.
Proof. exact ex_AB_wf_fixed. Qed.
Print Assumptions C06_hyp_two_files_fixed.

Example C06_hyp_witnesses_fixed :
  forallb (fun fa => wf_world_b cfg_fixed [fst fa] && consistent_b cfg_fixed (fst fa) (snd fa))
          [(ex_fA, ex_aA); (ex_fB, ex_aB); (ex_fB2, ex_aB2); (ex_fS false true, ex_aS false true);
           (ex_fS false false, ex_aS false false); (ex_fS true true, ex_aS true true);
           (ex_fW, ex_aW); (ex_fE, ex_aE); (ex_fC, ex_aC)] = true.
Proof. exact witnesses_wf_fixed. Qed.
Print Assumptions C06_hyp_witnesses_fixed.

(* ---- the defects of the code before the repairs, each with the same input under the repaired code *)

(* with two files (each in the single-file domain) the first is not cleaned and the second loses the
   unused import AND `public class B {` *)
Theorem C06_two_files_refuted :
  verdict_of [ex_aA; ex_aB] (observe cfg_prefix [ex_fA; ex_fB]) =
  ["unused_kept:A.java"; "non_import_line_changed:B.java"] /\
  map file_texts (snd (fst (fst (observe cfg_prefix [ex_fA; ex_fB])))) =
  [["package p;"; "import a.Used;"; "import a.Unused;"; "public class A {"; "  Used u;"; "}"; ""];
   ["package p;"; "import b.Keep;"; "  Keep k;"; "  int z;"; "}"; ""]].
Proof. exact two_files_refuted. Qed.
Print Assumptions C06_two_files_refuted.

Theorem C06_two_files_fixed :
  verdict_of [ex_aA; ex_aB] (observe cfg_fixed [ex_fA; ex_fB]) = [] /\
  map file_texts (snd (fst (fst (observe cfg_fixed [ex_fA; ex_fB])))) =
  [["package p;"; "import a.Used;"; "public class A {"; "  Used u;"; "}"; ""];
   ["package p;"; "import b.Keep;"; "public class B {"; "  Keep k;"; "  int z;"; "}"; ""]].
Proof. exact two_files_fixed. Qed.
Print Assumptions C06_two_files_fixed.

Theorem C06_two_files_used_import_refuted :
  verdict_of [ex_aA; ex_aB2] (observe cfg_prefix [ex_fA; ex_fB2]) =
  ["unused_kept:A.java"; "used_import_deleted:B.java"] /\
  verdict_of [ex_aA; ex_aB2] (observe cfg_fixed [ex_fA; ex_fB2]) = [].
Proof. exact two_files_used_import_refuted. Qed.
Print Assumptions C06_two_files_used_import_refuted.

Theorem C06_same_line_refuted :
  verdict_of [ex_aS false true] (observe cfg_prefix [ex_fS false true]) = ["non_import_line_changed:S.java"] /\
  verdict_of [ex_aS false true] (observe cfg_fixed [ex_fS false true]) = [].
Proof. exact same_line_refuted. Qed.
Print Assumptions C06_same_line_refuted.

Theorem C06_same_line_first_line_panics :
  verdict_of [ex_aS false false] (observe cfg_prefix [ex_fS false false]) = ["crash:first"] /\
  verdict_of [ex_aS false false] (observe cfg_fixed [ex_fS false false]) = [].
Proof. exact same_line_first_line_panics. Qed.
Print Assumptions C06_same_line_first_line_panics.

Theorem C06_same_line_used_refuted :
  verdict_of [ex_aS true true] (observe cfg_prefix [ex_fS true true]) = ["used_import_deleted:S.java"] /\
  verdict_of [ex_aS true true] (observe cfg_fixed [ex_fS true true]) = [].
Proof. exact same_line_used_refuted. Qed.
Print Assumptions C06_same_line_used_refuted.

Theorem C06_wildcard_empty_table_refuted :
  verdict_of [ex_aW] (observe cfg_prefix [ex_fW]) = ["wildcard_deleted:W.java"] /\
  verdict_of [ex_aW] (observe cfg_fixed [ex_fW]) = [].
Proof. exact wildcard_empty_table_refuted. Qed.
Print Assumptions C06_wildcard_empty_table_refuted.

Theorem C06_enum_file_refuted :
  verdict_of [ex_aE] (observe cfg_prefix [ex_fE]) = ["unused_kept:E.java"] /\
  verdict_of [ex_aE] (observe cfg_fixed [ex_fE]) = [].
Proof. exact enum_file_refuted. Qed.
Print Assumptions C06_enum_file_refuted.

Theorem C06_static_constant_refuted :
  verdict_of [ex_aC] (observe cfg_prefix [ex_fC]) = ["used_import_deleted:C.java"] /\
  verdict_of [ex_aC] (observe cfg_fixed [ex_fC]) = [].
Proof. exact static_constant_refuted. Qed.
Print Assumptions C06_static_constant_refuted.
