(* C15 -- Git summaries are consistent with the parsed history.
   Only statements live here; every proof is [exact <lemma of Proofs/GitSummaryProofs.v>]. *)
From Coq Require Import String Ascii List Bool Arith ZArith Permutation.
From Coca Require Import Lib.GoMap Lib.Str Model.GitSummary Model.GitSummarySpec Proofs.GitSummaryProofs.
Import ListNotations.
Open Scope string_scope.

(* 1. the per-file records (authors, revisions, first date) built from git's textual change
      notation are exactly the abstract history over file identities: a rename carries the
      record to the new name, a delete drops it, delete-then-recreate starts afresh *)
Theorem C15_history_refines : forall cs,
    AllDecode cs -> build_commit_message_map (map forget cs) = lift (abs_history cs).
Proof. exact commit_map_refines. Qed.
Print Assumptions C15_history_refines.

(* the hypothesis is decidable, is evaluated on every generated history, and holds for plain paths *)
Theorem C15_wf_executable : forall cs, all_decode_b cs = true -> AllDecode cs.
Proof. exact all_decode_b_sound. Qed.
Print Assumptions C15_wf_executable.

Theorem C15_plain_paths_decode : forall ch,
    a_old ch = a_new ch -> a_file ch = a_new ch -> a_new ch <> "" ->
    has_char "{"%char (a_file ch) = false -> has_char ">"%char (a_file ch) = false -> Decodes ch.
Proof. exact decodes_plain. Qed.
Print Assumptions C15_plain_paths_decode.

(* 2. team summary: one row per file that still exists with its distinct authors / revisions,
      in non-increasing order of revisions *)
Theorem C15_team_rows : forall cs,
    AllDecode cs ->
    Permutation (team_summary (map forget cs))
                (map (fun kv => (fst kv, List.length (fi_authors (snd kv)), List.length (fi_revs (snd kv))))
                     (abs_history cs)).
Proof. exact team_summary_rows. Qed.
Print Assumptions C15_team_rows.

Theorem C15_team_sorted : forall cs,
    sorted (fun a b : string * nat * nat => Nat.leb (snd b) (snd a)) (team_summary cs).
Proof. exact team_summary_sorted. Qed.
Print Assumptions C15_team_sorted.

(* 3. code age: each existing file's first-commit date, oldest first *)
Theorem C15_age_rows : forall cs,
    AllDecode cs ->
    Permutation (code_age (map forget cs)) (map (fun kv => (fst kv, fi_first (snd kv))) (abs_history cs)).
Proof. exact code_age_rows. Qed.
Print Assumptions C15_age_rows.

Theorem C15_age_sorted : forall cs,
    sorted (fun a b : string * string => str_leb (snd a) (snd b)) (code_age cs).
Proof. exact code_age_sorted. Qed.
Print Assumptions C15_age_sorted.

(* 4. top authors: commit count and net added-minus-deleted lines per author; the counts sum
      to the number of commits; most commits first *)
Theorem C15_top_authors_exact : forall cs a,
    mget_d (0, 0%Z) (top_authors_map (map forget cs)) a = (spec_author_commits cs a, spec_author_lines cs a).
Proof. exact top_authors_exact. Qed.
Print Assumptions C15_top_authors_exact.

Theorem C15_top_authors_sum : forall cs,
    fold_left (fun acc r => acc + snd (fst r)) (top_authors cs) 0 = List.length cs.
Proof. exact top_authors_sum. Qed.
Print Assumptions C15_top_authors_sum.

Theorem C15_top_authors_sorted : forall cs,
    sorted (fun a b : string * nat * Z => Nat.leb (snd (fst b)) (snd (fst a))) (top_authors cs).
Proof. exact top_authors_sorted. Qed.
Print Assumptions C15_top_authors_sorted.

(* 5. basic summary: commits, distinct paths, distinct authors *)
Theorem C15_basic_summary : forall cs,
    let '(c, e, _, a) := basic_summary (map forget cs) in
    c = List.length cs /\ e = List.length (paths_of cs) /\ a = List.length (authors_of cs).
Proof. exact basic_summary_spec. Qed.
Print Assumptions C15_basic_summary.

(* non-vacuity *)
Example C15_example_hypothesis : AllDecode ex_hist.
Proof. exact ex_hist_decodes. Qed.
Print Assumptions C15_example_hypothesis.

Example C15_example_summaries :
  team_summary (map forget (firstn 3 ex_hist)) = [("a.txt", 2, 3)] /\
  team_summary (map forget ex_hist) = [("a.txt", 1, 1); ("b.txt", 1, 1)] /\
  code_age (map forget ex_hist) = [("a.txt", "2020-02-01"); ("b.txt", "2020-02-01")].
Proof. exact ex_hist_team. Qed.
Print Assumptions C15_example_summaries.
