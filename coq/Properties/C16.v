(* C16 -- Per-directory line counts add up and agree with the whole-tree count.
   Only statements live here; every proof is [exact <lemma of Proofs/ClocProofs.v>].

   Scope: the theorems are about the GLUE model (Model/Cloc.v) of cmd/cloc.go, cloc_app.go and
   cloc_summary.go.  The counting engine scc is an oracle: each file comes with its language and its
   ground-truth counts, and [scc_run] states which files one processor.Process() call counts.  That the
   real scc agrees with this oracle is validated by execution on generated files only (tools/check C16). *)
From Coq Require Import String List Bool Arith Permutation.
From Coca Require Import Lib.Sx Lib.GoMap Lib.Str Model.GitSummary Model.Cloc Model.ClocSpec Generated.Constants
     Proofs.GitSummaryProofs Proofs.ClocProofs.
Import ListNotations.
Open Scope string_scope.

(* 0. IsIgnoreDir is exactly the list regenerated from cloc_app.go, and it is the specification's
      notion of a VCS/IDE/report directory *)
Theorem C16_is_ignore_dir_list : forall n,
    is_ignore_dir n = true <-> In n [".git"; ".svn"; ".hg"; ".idea"; "coca_reporter"].
Proof. exact is_ignore_dir_list. Qed.
Print Assumptions C16_is_ignore_dir_list.

Theorem C16_is_ignore_dir_is_spec : forall n, is_ignore_dir n = skipped n.
Proof. exact is_ignore_dir_skipped. Qed.
Print Assumptions C16_is_ignore_dir_is_spec.

(* 1. the per-directory json is named after the directory and BuildLanguageMap recovers the name from
      the file name, whatever dots the name contains *)
Theorem C16_dir_name_roundtrip : forall d, no_slash d -> dir_name_of (output_file d) = d.
Proof. exact dir_name_roundtrip. Qed.
Print Assumptions C16_dir_name_roundtrip.

(* 2. the whole shape of cloc.csv for every tree, every option: header, then per reported directory
      its name, the sum of its cells, and one cell per header key (column alignment + zero fill);
      header keys = the whole-tree run's languages followed by what MergeDirKeys appends *)
Theorem C16_bydir_shape : forall o t,
    dirs_ok t ->
    process_by_directory o t =
    ("package" :: "summary" :: header_keys o t) ::
    map (fun d => d :: string_of_nat (list_sum (dir_cells o t d)) :: map string_of_nat (dir_cells o t d))
        (report_dirs t).
Proof. exact bydir_shape. Qed.
Print Assumptions C16_bydir_shape.

(* 3. rows_exact: one row per immediate subdirectory that is not in the ignore list, no other row *)
Theorem C16_rows_exact : forall o t,
    dirs_ok t -> map row_name (csv_rows o t) = report_dirs t.
Proof. exact rows_exact. Qed.
Print Assumptions C16_rows_exact.

Theorem C16_report_dirs_spec : forall t d,
    In d (report_dirs t) <->
    In d (ct_dirs t) /\ ~ In d [".git"; ".svn"; ".hg"; ".idea"; "coca_reporter"].
Proof. exact report_dirs_spec. Qed.
Print Assumptions C16_report_dirs_spec.

Theorem C16_rows_nodup : forall o t, dirs_ok t -> NoDup (map row_name (csv_rows o t)).
Proof. exact rows_nodup. Qed.
Print Assumptions C16_rows_nodup.

(* 4. header_languages: "package","summary", then exactly (and once each) the languages of the files
      that the whole-tree run or the run of a reported directory counts; the whole-tree run's languages
      come first; the languages of a reported subdirectory are named whatever its name is (also when
      the whole-tree run skips it because its path ends with .git/.hg/.svn -- fix 5353339) *)
Theorem C16_header_languages : forall o t,
    firstn 2 (csv_header o t) = ["package"; "summary"] /\
    NoDup (skipn 2 (csv_header o t)) /\
    forall l, In l (skipn 2 (csv_header o t)) <->
              exists f, In f (ct_files t) /\ cf_lang f = l /\
                        (visible o [] f = true \/
                         exists d, In d (report_dirs t) /\ visible o [d] f = true).
Proof. exact header_languages. Qed.
Print Assumptions C16_header_languages.

Theorem C16_header_keys_prefix : forall o t, exists extra, header_keys o t = (base_keys o t ++ extra)%list.
Proof. exact header_keys_prefix. Qed.
Print Assumptions C16_header_keys_prefix.

Theorem C16_header_names_dir_languages : forall o t d f,
    In d (report_dirs t) -> In f (ct_files t) -> visible o [d] f = true ->
    In (cf_lang f) (skipn 2 (csv_header o t)).
Proof. exact header_names_dir_languages. Qed.
Print Assumptions C16_header_names_dir_languages.

(* 5. cell_correct: the cell of directory d under header language k is the number of code lines of
      language k among the files the run of d counts; row cells are aligned with the header *)
Theorem C16_cell_correct : forall o t r,
    dirs_ok t -> In r (csv_rows o t) ->
    In (row_name r) (report_dirs t) /\
    row_cells r = map (fun k => string_of_nat (lang_code o [row_name r] t k)) (skipn 2 (csv_header o t)).
Proof. exact cell_correct. Qed.
Print Assumptions C16_cell_correct.

Theorem C16_row_width : forall o t r,
    dirs_ok t -> In r (csv_rows o t) -> List.length r = List.length (csv_header o t).
Proof. exact row_width. Qed.
Print Assumptions C16_row_width.

(* ... which is the ground truth of the specification whenever the deny list is not hit BELOW the
   immediate subdirectories (a subdirectory named repo.git is fine) *)
Theorem C16_cell_matches_ground_truth : forall o t d k,
    tree_clean_below o t -> lang_code o [d] t k = expected_cell o t d k.
Proof. exact cell_matches_ground_truth. Qed.
Print Assumptions C16_cell_matches_ground_truth.

(* 6. missing_language_zero *)
Theorem C16_missing_language_zero : forall o t d k,
    (forall f, In f (ct_files t) -> visible o [d] f = true -> cf_lang f <> k) ->
    lang_code o [d] t k = 0.
Proof. exact missing_language_zero. Qed.
Print Assumptions C16_missing_language_zero.

(* 7. summary_is_sum, and the sum is the directory's total over all languages *)
Theorem C16_summary_is_sum : forall o t r,
    dirs_ok t -> In r (csv_rows o t) ->
    exists cells, row_cells r = map string_of_nat cells /\ row_summary r = string_of_nat (list_sum cells).
Proof. exact summary_is_sum. Qed.
Print Assumptions C16_summary_is_sum.

Theorem C16_summary_is_total : forall o t d,
    tree_clean_below o t -> In d (report_dirs t) -> list_sum (dir_cells o t d) = expected_total o t d.
Proof. exact dir_cells_total. Qed.
Print Assumptions C16_summary_is_total.

(* 7b. "... and agree with the whole-tree count": the whole-tree figure of a language is the report's
       column plus the files lying directly in DIR plus what lies in the ignored directories that the
       whole-tree run still walks (.idea, coca_reporter; the VCS ones are on scc's deny list) *)
Theorem C16_columns_agree_with_base : forall o t l,
    dirs_ok t -> tree_clean o t -> files_in_dirs t ->
    lang_code o [] t l =
    list_sum (map (fun d => lang_code o [d] t l) (report_dirs t)) + root_code o t l +
    list_sum (map (fun d => lang_code o [d] t l) (filter is_ignore_dir (ct_dirs t))).
Proof. exact columns_agree_with_base. Qed.
Print Assumptions C16_columns_agree_with_base.

(* 8. the whole by-directory statement, as the decider the check applies to the implementation: it
      finds no failing clause in the model's report for every tree whose deny-list hits (if any) are
      names of immediate subdirectories (languages found only in an IDE/report directory included),
      every --include-ext filter, every DIR *)
Theorem C16_tree_clean_weaken : forall o t, tree_clean o t -> tree_clean_below o t.
Proof. exact tree_clean_weaken. Qed.
Print Assumptions C16_tree_clean_weaken.

Theorem C16_bydir_model_meets_spec : forall o t,
    dirs_ok t -> tree_clean_below o t -> files_in_dirs t ->
    c16_bydir_verdict o t (csv_header o t) (csv_rows o t) = [].
Proof. exact bydir_model_meets_spec. Qed.
Print Assumptions C16_bydir_model_meets_spec.

(* 9. top-file: sorted, same figures, truncated *)
Theorem C16_top_file_sorted : forall o t s,
    In s (top_sections o t) -> sorted code_ge (ls_files s).
Proof. exact top_file_sorted. Qed.
Print Assumptions C16_top_file_sorted.

Theorem C16_top_file_same_figures : forall o t,
    Forall2 (fun s' s => ls_name s' = ls_name s /\ Permutation (ls_files s') (ls_files s))
            (top_sections o t) (scc_run o [] t).
Proof. exact top_file_same_figures. Qed.
Print Assumptions C16_top_file_same_figures.

Theorem C16_top_files_listed : forall o t s loc code,
    In s (top_sections o t) ->
    (In (loc, code) (ls_files s) <->
     exists f, In f (ct_files t) /\ visible o [] f = true /\ cf_lang f = ls_name s /\
               loc = loc_str (co_root o) (cf_path f) /\ code = cf_code f).
Proof. exact top_files_listed. Qed.
Print Assumptions C16_top_files_listed.

Theorem C16_top_file_truncated : forall o t,
    List.length (top_sections o t) <= cloc_top_lang_limit ->
    top_tables o t =
    map (fun s => (ls_name s,
                   map (fun f => (snd f, trim_left (co_dirarg o) (fst f)))
                       (firstn (Nat.min (co_top o) (List.length (ls_files s))) (ls_files s))))
        (top_sections o t).
Proof. exact top_file_truncated. Qed.
Print Assumptions C16_top_file_truncated.

Theorem C16_top_table_length : forall o t tab,
    List.length (top_sections o t) <= cloc_top_lang_limit ->
    In tab (top_tables o t) ->
    exists s, In s (top_sections o t) /\ fst tab = ls_name s /\
              List.length (snd tab) = Nat.min (co_top o) (List.length (ls_files s)).
Proof. exact top_table_length. Qed.
Print Assumptions C16_top_table_length.

Theorem C16_top_tables_suppressed : forall o t,
    cloc_top_lang_limit < List.length (top_sections o t) -> top_tables o t = [].
Proof. exact top_tables_suppressed. Qed.
Print Assumptions C16_top_tables_suppressed.

(* 10. the displayed location is a character-set trim: exact iff the relative path does not start with
       a character of DIR *)
Theorem C16_top_location_exact : forall o path c r,
    String.eqb (co_root o) "." = false ->
    forallb (in_cutset (co_dirarg o)) (chars (co_root o ++ "/")) = true ->
    join "/" path = String c r -> in_cutset (co_dirarg o) c = false ->
    trim_left (co_dirarg o) (loc_str (co_root o) path) = join "/" path.
Proof. exact top_location_exact. Qed.
Print Assumptions C16_top_location_exact.

Theorem C16_top_location_eaten : forall o path c r,
    String.eqb (co_root o) "." = false ->
    forallb (in_cutset (co_dirarg o)) (chars (co_root o ++ "/")) = true ->
    join "/" path = String c r -> in_cutset (co_dirarg o) c = true ->
    trim_left (co_dirarg o) (loc_str (co_root o) path) = trim_left (co_dirarg o) r.
Proof. exact top_location_eaten. Qed.
Print Assumptions C16_top_location_eaten.

(* 11. the whole top-file statement as the decider: no failing clause on the model's report whenever
       the tree is clean, locations are distinct, at most cloc_top_lang_limit languages are found and
       the trim happens to be exact for every file *)
Theorem C16_top_model_meets_spec : forall o t,
    tree_clean o t -> locations_distinct o t -> display_exact o t ->
    List.length (top_sections o t) <= cloc_top_lang_limit ->
    c16_top_verdict o t (map (fun s => (ls_name s, ls_files s)) (top_sections o t)) (top_tables o t) = [].
Proof. exact top_model_meets_spec. Qed.
Print Assumptions C16_top_model_meets_spec.

(* non-vacuity: the hypotheses hold of a tree with a VCS directory, a dotted name, an empty directory
   and a root-level file, and the reports are the expected ones *)
Example C16_example_hypotheses :
  dirs_ok ex_tree /\ tree_clean ex_opts ex_tree.
Proof. exact ex_tree_hypotheses. Qed.
Print Assumptions C16_example_hypotheses.

Example C16_example_files_in_dirs : files_in_dirs ex_tree.
Proof. exact ex_tree_files_in_dirs. Qed.
Print Assumptions C16_example_files_in_dirs.

Example C16_example_top_hypotheses :
  tree_clean ex_opts ex_tree /\ locations_distinct ex_opts ex_tree /\ display_exact ex_opts ex_tree /\
  List.length (top_sections ex_opts ex_tree) <= cloc_top_lang_limit.
Proof. exact ex_tree_top_hypotheses. Qed.
Print Assumptions C16_example_top_hypotheses.

Example C16_example_report :
  process_by_directory ex_opts ex_tree =
  [["package"; "summary"; "Go"; "Java"; "JavaScript"];
   ["a"; "6"; "3"; "3"; "0"]; ["a.b"; "2"; "2"; "0"; "0"]; ["empty"; "0"; "0"; "0"; "0"]].
Proof. exact ex_tree_report. Qed.
Print Assumptions C16_example_report.

Example C16_example_top :
  top_tables ex_opts ex_tree =
  [("Go", [(3, "a/x.go"); (2, "a.b/y.go")]); ("Java", [(3, "a/sub/A.java")]); ("JavaScript", [(2, "root.js")])].
Proof. exact ex_tree_top. Qed.
Print Assumptions C16_example_top.

(* confirmed open defect of the implementation, as a refuted conjecture about the (bug-faithful) model *)
Theorem C16_top_location_refuted :
  top_tables cut_opts cut_tree = [("Go", [(2, "x.go")])] /\
  c16_top_verdict cut_opts cut_tree
                  (map (fun s => (ls_name s, ls_files s)) (top_sections cut_opts cut_tree))
                  (top_tables cut_opts cut_tree) = ["top_file_location"].
Proof. exact top_location_refuted. Qed.
Print Assumptions C16_top_location_refuted.

(* a language found only under .idea is found in the whole tree: the header may name it (all-zero column) *)
Example C16_example_ignored_only_language :
  dirs_ok hid_tree /\ tree_clean hid_opts hid_tree /\
  process_by_directory hid_opts hid_tree = [["package"; "summary"; "Go"; "JavaScript"]; ["a"; "2"; "2"; "0"]] /\
  c16_bydir_verdict hid_opts hid_tree (csv_header hid_opts hid_tree) (csv_rows hid_opts hid_tree) = [].
Proof. exact ignored_only_language_accepted. Qed.
Print Assumptions C16_example_ignored_only_language.

(* fixed by 5353339 (was D-C16-3): the languages of a subdirectory named like *.svn are in the header
   although the whole-tree run skips it (base keys = Go only), its row is complete, and the decider
   accepts the report; the tree satisfies tree_clean_below but not tree_clean *)
Example C16_vcs_suffix_accepted :
  dirs_ok vcs_tree /\ tree_clean_below vcs_opts vcs_tree /\ files_in_dirs vcs_tree /\
  tree_clean_b vcs_opts vcs_tree = false /\
  base_keys vcs_opts vcs_tree = ["Go"] /\
  process_by_directory vcs_opts vcs_tree =
  [["package"; "summary"; "Go"; "Shell"]; ["a"; "2"; "2"; "0"]; ["old.svn"; "4"; "1"; "3"]] /\
  c16_bydir_verdict vcs_opts vcs_tree (csv_header vcs_opts vcs_tree) (csv_rows vcs_opts vcs_tree) = [].
Proof. exact vcs_suffix_accepted. Qed.
Print Assumptions C16_vcs_suffix_accepted.
