(* C12 -- Extracted HTTP APIs are exactly the annotated Spring handler methods.
   Only statements live here; every proof is [exact <lemma of Proofs/ApiProofs.v>]. *)
From Coq Require Import String List Bool Arith.
From Coca Require Import Lib.Str Model.ApiScan Model.ApiSpec Proofs.ApiProofs Proofs.ApiTotalProofs Proofs.ApiExactProofs.
Import ListNotations.
Open Scope string_scope.

(* 1. a controller's entries do not depend on which other files the project contains, their
      order, or what the process scanned before: the result for a directory is the concatenation
      of what each file yields on its own from a fresh listener *)
Theorem C12_listener_forgets : forall st1 st2, new_api_listener st1 = new_api_listener st2.
Proof. exact new_listener_state_free. Qed.
Print Assumptions C12_listener_forgets.

Theorem C12_per_file : forall units,
    (forall u, In u units -> unit_apis u <> None) ->
    option_map snd (api_files astate0 units)
    = Some (flat_map (fun u => match unit_apis u with Some l => l | None => [] end) units).
Proof. exact api_files_per_file. Qed.
Print Assumptions C12_per_file.

(* 1b. since the quote removal is total (f378a35) the hypothesis of C12_per_file always holds: for EVERY
       file list the scan completes and is the concatenation of the per-file results *)
Theorem C12_per_file_unconditional : forall units,
    option_map snd (api_files astate0 units)
    = Some (flat_map (fun u => match unit_apis u with Some l => l | None => [] end) units).
Proof. exact api_files_total_per_file. Qed.
Print Assumptions C12_per_file_unconditional.

(* 2. a class without a controller annotation contributes nothing, whatever mapping annotations
      it carries *)
Theorem C12_non_controller_nothing : forall u,
    unit_has_no_controller u -> unit_apis u = Some [] \/ unit_apis u = None.
Proof. exact non_controller_nothing. Qed.
Print Assumptions C12_non_controller_nothing.

(* 3. every annotation form on a concrete project: shorthand, value=, value= + method=, bare
      mapping, @RequestBody at the first position, a plain method before the first handler, a
      class-level mapping written before @RestController, a non-controller before and after *)
Example C12_example_entries :
  option_map (fun p => observed_rows (snd p)) (api_files astate0 [ex_plain; ex_controller; ex_plain])
  = Some [ entry_row "GET" "/books/{id}" "com.web" "BookController" "get" "";
           entry_row "POST" "/books/new" "com.web" "BookController" "create" "BookDto";
           entry_row "PUT" "/books/u" "com.web" "BookController" "update" "";
           entry_row "" "/books" "com.web" "BookController" "all" "" ].
Proof. exact ex_api_entries. Qed.
Print Assumptions C12_example_entries.

Example C12_example_non_controller : unit_has_no_controller ex_plain.
Proof. exact ex_plain_no_controller. Qed.
Print Assumptions C12_example_non_controller.

(* 4. EXACTNESS for every conventional controller: @RestController / @Controller before or after an optional
      class-level @RequestMapping (shorthand, value=, bare), any number of handlers, each with one mapping annotation
      in shorthand, value=, value= + method= (either order) or bare form, other annotations in front of it, any
      parameters with their own annotations (the last @RequestBody parameter names the body type), fields and plain
      methods in between: the scan yields exactly one entry per handler, in order, with the verb, the class's own base
      path followed by the method's path, the body type, and the handler's package, class and method name.
      Hypotheses ([ctl_ok], decidable): verbs are GET / PUT / POST / DELETE, paths hold no double quote, the other
      annotations are not mapping annotations *)
Theorem C12_controller_exact : forall c,
    ctl_ok c = true ->
    unit_apis (unit_of c) = Some (entries_of (base_of c) (k_pkg c) (k_name c) (k_members c)).
Proof. exact controller_exact. Qed.
Print Assumptions C12_controller_exact.

(* 4b. ... and the decider of the check (the independent statement of ApiSpec.v) accepts that result *)
Theorem C12_controller_meets_spec : forall c,
    ctl_ok c = true ->
    exists obs, unit_apis (unit_of c) = Some obs /\ c12_verdict [xclass_of c] obs = [].
Proof. exact controller_meets_spec. Qed.
Print Assumptions C12_controller_meets_spec.

Example C12_example_every_form :
  ctl_ok ex_ctl = true /\
  option_map observed_rows (unit_apis (unit_of ex_ctl))
  = Some [ entry_row "GET" "/books/{id}" "com.web" "BookController" "get" "";
           entry_row "POST" "/books/new" "com.web" "BookController" "create" "BookDto";
           entry_row "PUT" "/books/u" "com.web" "BookController" "update" "";
           entry_row "DELETE" "/books/d" "com.web" "BookController" "remove" "B";
           entry_row "GET" "/books" "com.web" "BookController" "all" "" ].
Proof. exact ex_ctl_ok. Qed.
Print Assumptions C12_example_every_form.
