(* C14 -- Commit-log parsing preserves every commit and every file change.
   Only statements live here; every proof is [exact <lemma of Proofs/GitLogProofs.v>]. *)
From Coq Require Import String List Bool Arith.
From Coca Require Import Lib.GoMap Lib.Str Model.GitSummary Model.GitLogParse Model.GitLogSpec Proofs.GitLogProofs Proofs.GitLogTextProofs.
Import ListNotations.
Open Scope string_scope.

(* 1. the line state machine: for every sequence of well-formed log entries (header, numstat
      lines, summary lines, separator -- or header only for merges / empty commits) the parsed
      list has, in order, exactly one entry per entry that changes files, with its own header
      fields, one change per path with its counts and the mode of the summary line of the same
      path; nothing is attributed to a neighbouring commit, whatever state the previous
      entries went through *)
Theorem C14_blocks_preserved : forall bs st,
    Forall WFblock bs -> at_boundary st ->
    p_commits (fold_left step (flat_map kinds_of bs) st) = (p_commits st ++ expected_commits bs)%list.
Proof. exact parse_blocks. Qed.
Print Assumptions C14_blocks_preserved.

Theorem C14_blocks_from_start : forall bs,
    Forall WFblock bs -> p_commits (fold_left step (flat_map kinds_of bs) pstate0) = expected_commits bs.
Proof. exact parse_blocks_from_start. Qed.
Print Assumptions C14_blocks_from_start.

(* 2. every parse starts from the initial registers (no commit left over from an earlier call) *)
Theorem C14_state_free : forall input,
    build_message_by_input input = p_commits (fold_left parse_line (split nl input) pstate0).
Proof. exact build_message_state_free. Qed.
Print Assumptions C14_state_free.

(* 3. the well-formedness of entries is decidable (used to classify generated logs) *)
Theorem C14_wf_executable : forall b, wf_block_b b = true -> WFblock b.
Proof. exact wf_block_b_sound. Qed.
Print Assumptions C14_wf_executable.

(* 4. the scanners classify git's line shapes as intended, including the hostile ones
      (bracketed hex words, the author's name and the date inside the subject, a path that
      starts with digits, braces and arrows inside a path) -- computed instances *)
Example C14_classify_examples :
  classify "[828fe39523] Rossen Stoyanchev 2019-12-04 fix [abc1234] by Rossen Stoyanchev on 2019-12-04"
    = LHeader "828fe39523" "Rossen Stoyanchev" "2019-12-04" "fix [abc1234] by Rossen Stoyanchev on 2019-12-04" /\
  classify ("5" ++ tab ++ "3" ++ tab ++ "a b/{x => y}/[12345] 2020 01.txt") = LChange 5 3 "a b/{x => y}/[12345] 2020 01.txt" /\
  classify ("-" ++ tab ++ "-" ++ tab ++ "bin.dat") = LChange 0 0 "bin.dat" /\
  classify " create mode 100644 2020 01 notes.txt" = LMode "create" "2020 01 notes.txt" /\
  classify " delete mode 100644 a b.txt" = LMode "delete" "a b.txt" /\
  classify " rename a.txt => d/a.txt (60%)" = LMode "rename" "a.txt => d/a.txt (60%)" /\
  classify "" = LOther.
Proof. exact classify_examples. Qed.
Print Assumptions C14_classify_examples.

(* non-vacuity *)
Example C14_example_wf : Forall WFblock ex_blocks.
Proof. exact ex_blocks_wf. Qed.
Print Assumptions C14_example_wf.

Example C14_example_parse :
  p_commits (fold_left step (flat_map kinds_of ex_blocks) pstate0) =
  [ mkCommit "cfa3acd" "Al Ice" "2026-09-30" "feat: one [abc123]" [mkChange 1 0 "a.txt" "create"];
    mkCommit "2e32690" "Al Ice" "2026-09-30" "second"
             [mkChange 0 0 "bin.dat" "create"; mkChange 1 0 "a.txt => d/a.txt" ""] ].
Proof. exact ex_blocks_parse. Qed.
Print Assumptions C14_example_parse.

(* ------------------------------------------------------------------ at the level of the printed TEXT *)
(* 6. every line git prints is taken for what it is: a header "[hash] author date subject" (hash of 5-12 hex
      digits, an author without digits -- so that no date can begin inside it --, any subject, even one holding
      another date or a bracketed hash), a numstat row "added TAB deleted TAB path" (a path with blanks, brackets,
      digits ...: anything without a line end that does not begin with white space), a summary line
      " create mode 100644 path" *)
Theorem C14_header_line : forall h a d m,
    hash_ok h = true -> author_ok a = true -> is_date d = true -> no_nl m = true ->
    classify (render_header h a d m) = LHeader h a d m.
Proof. exact classify_header. Qed.
Print Assumptions C14_header_line.

Theorem C14_numstat_line : forall a d f,
    path_ok f = true -> classify (render_change a d f) = LChange a d f.
Proof. exact classify_change. Qed.
Print Assumptions C14_numstat_line.

Theorem C14_summary_line : forall perm mode key,
    perm_ok perm = true -> mode_word_ok mode = true -> no_nl key = true ->
    classify (render_mode perm mode key) = LMode mode key.
Proof. exact classify_mode. Qed.
Print Assumptions C14_summary_line.

(* 7. THE STATEMENT ON TEXT: for every well-formed history -- any number of entries, any number of file changes
      per entry, entries without changes in between -- the text `git log --numstat --summary` prints for it is read
      back as exactly one commit per entry that has file changes, with its hash, author, date and subject and every
      file change with its line counts and its mode, in order; nothing is lost and nothing is invented *)
Theorem C14_text_roundtrip : forall perm bs,
    perm_ok perm = true -> Forall WFblock bs -> forallb text_ok bs = true ->
    build_message_by_input (render_log perm bs) = expected_commits bs.
Proof. exact log_text_roundtrip. Qed.
Print Assumptions C14_text_roundtrip.

Example C14_text_example :
  forallb text_ok ex_text_blocks = true /\ forallb wf_block_b ex_text_blocks = true /\
  List.length (build_message_by_input (render_log "644" ex_text_blocks)) = 2.
Proof. exact ex_text_blocks_ok. Qed.
Print Assumptions C14_text_example.
