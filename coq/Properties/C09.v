(* C09 -- Every pass completes without crashing on any valid Java source.
   Only statements live here; every proof is [exact <lemma>].
   What is proved is the part of crash-freedom that is logic over the grammar: the tables
   Generated/JavaShapes.v are regenerated on every build from languages/java/JavaParser.g4 (every rule,
   every way of matching it, which children are then present) and from the listener sources (every
   dereference of a child accessor, with the nil tests that enclose it). *)
From Coq Require Import String List Bool Arith.
From Coca Require Import Lib.Str Generated.JavaShapes Model.TreeShape Model.ApiScan Model.Todo
     Proofs.TreeShapeProofs Proofs.TodoProofs Proofs.ApiProofs Proofs.ApiTotalProofs.
Import ListNotations.
Open Scope string_scope.

(* 1. for every dereference of a child accessor recorded in the identifier, full, API, bad-smell and
      refactoring listeners, and every node the parser can build for that rule (any of the ways the
      grammar allows, optional parts present or absent): if the children tested against nil around the
      dereference are present, the dereferenced child is present - no nil dereference on any sentence
      of the grammar *)
Theorem C09_no_nil_child_dereference : forall a n,
    In a java_accesses -> conforms n -> n_rule n = ac_rule a ->
    (forall g, In g (ac_guards a) -> In g (n_present n)) ->
    In (ac_child a) (n_present n).
Proof. exact all_accesses_safe. Qed.
Print Assumptions C09_no_nil_child_dereference.

(* 2. the tables are populated and the criterion rejects the defects that were repaired (methodCall
      without identifier for this(...) / super(...); typeType guarded by the wrong keyword) *)
Example C09_criterion_bites :
  Nat.ltb 40 (List.length java_accesses) = true /\
  access_ok (mkAcc "x.go" "EnterMethodCall" "methodCall" "identifier" [] 1) = false /\
  access_ok (mkAcc "x.go" "EnterMethodCall" "methodCall" "identifier" ["identifier"] 1) = true /\
  access_ok (mkAcc "x.go" "EnterClassDeclaration" "classDeclaration" "typeType" ["EXTENDS"] 1) = true /\
  access_ok (mkAcc "x.go" "EnterClassDeclaration" "classDeclaration" "typeType" ["IMPLEMENTS"] 1) = false.
Proof. exact shapes_nonvacuous. Qed.
Print Assumptions C09_criterion_bites.

(* 3. the modelled partial operations of the scans are total: removing the quotes of a mapping value
      (API scan; used to be a slice-bounds panic for a one-character value) and the todo scan *)
Theorem C09_remove_quotes_total : forall t, strip1 t <> None.
Proof. exact strip1_total. Qed.
Print Assumptions C09_remove_quotes_total.

(* the whole API scan model has no panic left: whatever the listener state and the file *)
Theorem C09_api_scan_total : forall st u, exists s, api_unit st u = AOk s.
Proof. exact api_unit_total. Qed.
Print Assumptions C09_api_scan_total.

Theorem C09_todo_scan_total : forall exts files, exists l, analysis_path exts files = Report l.
Proof. exact analysis_path_total. Qed.
Print Assumptions C09_todo_scan_total.
