(* C13 -- Architecture graph edges are exactly the type dependencies in the model.
   Only statements live here; every proof is [exact <lemma of Proofs/ArchProofs.v>]. *)
From Coq Require Import String List Bool Arith.
From Coca Require Import Lib.GoMap Lib.Str Model.CodeModel Model.Arch Model.ArchSpec Proofs.ArchProofs.
Import ListNotations.
Open Scope string_scope.

(* 1. one node per project type, the entry class Main excluded *)
Theorem C13_nodes_exact : forall deps idents k,
    In k (mkeys (g_nodes (analysis deps idents))) <-> In k (spec_nodes deps).
Proof. exact analysis_nodes_exact. Qed.
Print Assumptions C13_nodes_exact.

(* 2. a relation A -> B is recorded exactly when A implements/extends B, has a field call
      resolving to B, or a method of A other than main calls a project type B <> A *)
Theorem C13_relations_sound : forall deps idents a b,
    In (a, b) (rel_values (g_rels (analysis deps idents))) -> spec_dep deps idents a b = true.
Proof. exact analysis_rels_sound. Qed.
Print Assumptions C13_relations_sound.

Theorem C13_relations_complete : forall deps idents a b,
    names_no_arrow deps ->
    spec_dep deps idents a b = true -> In (a, b) (rel_values (g_rels (analysis deps idents))).
Proof. exact analysis_rels_complete. Qed.
Print Assumptions C13_relations_complete.

(* 3. merging by any function f yields exactly the quotient of the node-to-node relations
      by f, without self loops *)
Theorem C13_merge_nodes : forall f g k,
    In k (mkeys (g_nodes (merge_graph f g))) <-> In k (map f (mkeys (g_nodes g))).
Proof. exact merge_nodes_exact. Qed.
Print Assumptions C13_merge_nodes.

Theorem C13_merge_sound : forall f g p q,
    In (p, q) (rel_values (g_rels (merge_graph f g))) ->
    exists a b, In (a, b) (rel_values (g_rels g)) /\ mhas (g_nodes g) b = true /\
                f a = p /\ f b = q /\ p <> q.
Proof. exact merge_rels_sound. Qed.
Print Assumptions C13_merge_sound.

Theorem C13_merge_complete : forall f g a b,
    (forall x y, In (x, y) (rel_values (g_rels g)) -> no_arrow (f x)) ->
    In (a, b) (rel_values (g_rels g)) -> mhas (g_nodes g) b = true -> f a <> f b ->
    In (f a, f b) (rel_values (g_rels (merge_graph f g))).
Proof. exact merge_rels_complete. Qed.
Print Assumptions C13_merge_complete.

(* 4. every included node is displayed exactly once; an edge is drawn exactly for the
      relations whose two ends are displayed *)
Theorem C13_displayed_exact : forall filters g k,
    In k (displayed filters g) <-> In k (mkeys (g_nodes g)) /\ include_key filters k = true.
Proof. exact displayed_exact. Qed.
Print Assumptions C13_displayed_exact.

Theorem C13_displayed_once : forall filters g, NoDup (displayed filters g).
Proof. exact displayed_once. Qed.
Print Assumptions C13_displayed_once.

Theorem C13_edges_only_between_displayed : forall filters g a b,
    In (a, b) (drawn_edges filters g) <->
    In (a, b) (rel_values (g_rels g)) /\ In a (displayed filters g) /\ In b (displayed filters g).
Proof. exact drawn_edges_exact. Qed.
Print Assumptions C13_edges_only_between_displayed.

(* non-vacuity *)
Example C13_example_names : names_no_arrow ex_arch.
Proof. exact ex_arch_names. Qed.
Print Assumptions C13_example_names.

Example C13_example_graph :
  mkeys (g_nodes (analysis ex_arch ["com.a.A"; "com.a.b.B"])) = ["com.a.A"; "com.a.b.B"] /\
  rel_values (g_rels (analysis ex_arch ["com.a.A"; "com.a.b.B"])) =
    [("com.a.A", "com.x.I"); ("com.a.A", "com.a.b.B"); ("com.a.b.B", "com.a.A")] /\
  rel_values (g_rels (merge_graph merge_header_func (analysis ex_arch ["com.a.A"; "com.a.b.B"]))) =
    [("com.a", "com.a.b"); ("com.a.b", "com.a")] /\
  displayed [""] (merge_graph merge_header_func (analysis ex_arch ["com.a.A"; "com.a.b.B"])) = ["com.a"; "com.a.b"].
Proof. exact ex_arch_graph. Qed.
Print Assumptions C13_example_graph.
