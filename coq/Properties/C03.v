(* C03 -- Call graph shows only real calls, all direct callees of the root, and terminates.
   Only statements live here; every proof is [exact <lemma of Proofs/CallGraphProofs.v>]. *)
From Coq Require Import String List Bool Arith.
From Coca Require Import Lib.GoMap Lib.Dot Lib.Reach Model.CodeModel Model.CallGraph Model.CallGraphSpec
     Generated.Constants Proofs.DotProofs Proofs.RCallProofs Proofs.CallGraphProofs Proofs.ApiChainProofs.
Import ListNotations.
Open Scope string_scope.

(* the tie to the source: the budget the proofs talk about is the one in call_graph.go *)
Theorem C03_budget_is_documented : maxLoopCount = 6 /\ maxLoopCount_cmp = ">".
Proof. split; reflexivity. Qed.
Print Assumptions C03_budget_is_documented.

(* 0. the method map holds, for every full method name, exactly the calls recorded in the
      model for the method(s) of that name *)
Theorem C03_method_map_exact : forall m a, callees (method_map m) a = spec_callees_raw m a.
Proof. exact method_map_exact. Qed.
Print Assumptions C03_method_map_exact.

(* 1. every edge A -> B is a recorded call (after DI substitution) and A is reachable from the
      root -- for every map, DI map, counter value and fuel *)
Theorem C03_edges_sound : forall mm di fuel cnt root a b,
    In (CEdge a b) (snd (chain fuel mm di cnt root)) ->
    In b (succ mm di a) /\ ReachN (succ mm di) fuel root a.
Proof. intros mm di fuel cnt root a b. exact (chain_sound mm di fuel cnt root a b). Qed.
Print Assumptions C03_edges_sound.

(* 2. every direct callee of the root is present whenever the counter is inside the budget
      (it is 0 at the start of every Analysis / per-API chain) *)
Theorem C03_root_complete : forall mm di fuel cnt root b,
    cnt <= maxLoopCount -> In b (succ mm di root) ->
    In (CEdge root b) (snd (chain (S fuel) mm di cnt root)).
Proof. exact root_complete. Qed.
Print Assumptions C03_root_complete.

(* 3. generation terminates inside the fixed budget for every graph, cyclic ones included *)
Theorem C03_terminates_in_budget : forall mm di root,
    ~ In COutOfFuel (snd (chain cfuel mm di 0 root)) /\
    fst (chain cfuel mm di 0 root) <= S maxLoopCount.
Proof. exact chain_terminates_in_budget. Qed.
Print Assumptions C03_terminates_in_budget.

(* 4. whenever the unfolded call tree needs n expansions and the budget has room for them,
      exactly n expansions happen and every reachable call is drawn *)
Theorem C03_exact_in_budget : forall mm di fe r root n,
    expansions fe (succ mm di) r root = Some n ->
    forall fuel cnt, fe <= fuel -> cnt + n <= S maxLoopCount ->
      fst (chain fuel mm di cnt root) = cnt + n /\
      forall k x y, ReachN (succ mm di) k root x -> In y (succ mm di x) ->
                    In (CEdge x y) (snd (chain fuel mm di cnt root)).
Proof. exact chain_exact. Qed.
Print Assumptions C03_exact_in_budget.

(* 5. the whole statement for `call` (with and without lookup), as the decider the check
      applies to the implementation's output: it accepts the model's output for every model,
      root and process state *)
Theorem C03_call_meets_spec : forall cnt m root lookup,
    names_ok_c m root ->
    c03_call_verdict (S maxLoopCount) m root lookup (snd (canalysis cnt root m lookup)) = [].
Proof. exact canalysis_meets_spec. Qed.
Print Assumptions C03_call_meets_spec.

(* 5b. the same for `api` (CallGraph.AnalysisByFiles), for EVERY list of APIs, model and DI map: the text is
      well-formed DOT, its edge list splits into one section per API (the API's own edge, then the chain of its
      handler), every section is sound, root-complete and exact within the budget -- after replacing injected
      interfaces by their registered implementations -- and the Size column equals the number of edges of the
      section plus one.  Hypotheses (decidable, [api_names_ok_b]): API labels hold no quote, backslash or line
      end and are not method names; handler and callee names hold no backslash, line end or '>' *)
Theorem C03_api_meets_spec : forall apis m di,
    api_names_ok_b m di apis = true ->
    c03_api_verdict (S maxLoopCount) m di apis
                    (fst (analysis_by_files apis m di)) (snd (analysis_by_files apis m di)) = [].
Proof. exact analysis_by_files_meets_spec. Qed.
Print Assumptions C03_api_meets_spec.

(* the Size column on its own: len(strings.Split(chain, " -> ")) of ANY printed statement list whose names hold
   no '>' is its number of edges plus one *)
Theorem C03_size_is_edges_plus_one : forall l,
    edge_names_gt_free l -> split_count (render_stmts l) = S (List.length (stmt_edges l)).
Proof. exact split_count_render. Qed.
Print Assumptions C03_size_is_edges_plus_one.

(* 6. a query does not depend on what the process did before (the counter is re-initialised) *)
Theorem C03_call_state_independent : forall c1 c2 m root lookup,
    snd (canalysis c1 root m lookup) = snd (canalysis c2 root m lookup).
Proof. reflexivity. Qed.
Print Assumptions C03_call_state_independent.

(* non-vacuity *)
Example C03_example_hypotheses : names_ok_c ex_cmodel "p.A.r".
Proof. exact ex_cmodel_names_ok. Qed.
Print Assumptions C03_example_hypotheses.

Example C03_example_fits : fits (S maxLoopCount) ex_cmodel [] "p.A.r" = true
                           /\ fits (S maxLoopCount) ex_cmodel [] "p.A.c" = false.
Proof. exact ex_cmodel_fits. Qed.
Print Assumptions C03_example_fits.

Example C03_example_graph :
  dot_parse (snd (canalysis 0 "p.A.r" ex_cmodel false))
  = Some [("p.A.a", "p.A.d"); ("p.A.r", "p.A.a"); ("p.A.b", "p.A.d"); ("p.A.b", "ext.E.x"); ("p.A.r", "p.A.b")].
Proof. exact ex_cmodel_graph. Qed.
Print Assumptions C03_example_graph.

Example C03_example_apis :
  api_names_ok_b ex_cmodel [] ex_apis = true /\
  snd (analysis_by_files ex_apis ex_cmodel []) = [6; 8].
Proof. exact (conj ex_apis_ok (proj1 ex_apis_output)). Qed.
Print Assumptions C03_example_apis.
