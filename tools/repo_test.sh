#!/bin/bash
# Runs /repo's pinned suite; prints unexpected failures (anything but the baseline's
# always-fail TestNewTodoApp and the two flaky refactor tests); exit 1 if any.
export GOFLAGS=-mod=mod GOPROXY=off GOSUMDB=off GOTOOLCHAIN=local
cd /repo || exit 2
out=$(go test -vet=off -count=1 ./... 2>&1)
bad=$(echo "$out" | grep -E "^--- FAIL|^FAIL|panic:|cannot|undefined" | grep -v -E "TestNewTodoApp|pkg/application/todo|TestMoveClassApp|TestRenameMethodApp|^FAIL$" )
git -C /repo checkout -- _fixtures 2>/dev/null
if [ -n "$bad" ]; then echo "$bad"; exit 1; fi
echo "suite ok (baseline failures only)"
