"""C13 -- architecture graph edges are exactly the type dependencies in the model."""
import vlib
from genmodel import *

ID = "C13"
HARNESS_ENV = {"COCA_BIN": __import__("os").path.join(vlib.ROOT, "harness", "bin", "coca")}
MODEL_ENTRY = "C13.model"
SPEC_ENTRY = "C13.spec"
HARNESS_OP = "C13"
FRESH_PROCESS = False
CASE_TIMEOUT = "10s"
RULE = ("random models of 2-12 types over package trees of depth 1-5 (prefix-related packages, split packages "
        "holding non-project types), implements/extends/field/call relations to project, non-project and self "
        "targets, Main classes and main methods, x merge none/header/package/both x include filters; "
        "plus families of prefix-related packages, colliding keys and package trees (a package holding types with two or more sub-packages holding types); non-trivial = at least one relation between two project types; distinct = distinct input"
        '; every other filtered query is observed through `coca arch -d deps.json -x FILTERS [-H] [-P]` run after an unfiltered (larger) run in the same report directory (coca_reporter/arch.dot)')
TRUSTED_BASE = ["modelled, not verified: gographviz printer (the harness re-parses its text with gographviz and "
                "rebuilds keys from cluster labels), Go map iteration"]
ASSUMPTIONS = ["package names are non-empty dotted identifiers (no leading dot, no '->' inside names)"]

def _sorted_pairs(ps):
    return sorted([list(p) for p in ps])

def canon(out):
    if not isinstance(out, list) or len(out) != 7:
        return out
    return [sorted(out[0]), _sorted_pairs(out[1]), sorted(out[2]), _sorted_pairs(out[3]), out[4],
            sorted(out[5]), _sorted_pairs(out[6])]

def clauses(spec_out):
    return list(spec_out)

def finding_matches(f, clause, case):
    return clause.split(":")[0] == f.get("clause") and f.get("tag") in case.get("tags", [])

def nontrivial(c):
    mo = c.get("model_out")
    return isinstance(mo, list) and len(mo) == 7 and len(mo[1]) > 0

PKGS = ["com.a", "com.a.b", "com.a.b.c", "com.ab", "com.b", "org.x", "x", "x.ab", "x.a", "cd", "bcd",
        "a.b.c.d.e.f.g.h", "a.b.c.d.e.f.g.i.j"]

def gen_model(rng, family=None):
    npk = rng.randint(1, 5)
    pkgs = rng.sample(PKGS, npk)
    if family == "prefix_pkgs":
        pkgs = ["com.a", "com.a.b", "com.a.b.c"][:rng.randint(2, 3)] + ([rng.choice(PKGS)] if rng.random() < 0.5 else [])
    if family == "pkg_tree":
        # packages that hold types AND have two or more sub-packages holding types (com.a: com.a.b, com.a.d; com.a.b: ...)
        pkgs = ["com.a", "com.a.b", "com.a.d", "com.a.b.c", "com.a.b.e"][:rng.randint(3, 5)]
    if family == "key_clash":
        pkgs = ["x.ab", "cd", "x.a", "bcd"]
    n = rng.randint(2, 12)
    types = []
    for i in range(n):
        pkg = pkgs[i % len(pkgs)] if family in ("prefix_pkgs", "key_clash", "pkg_tree") else rng.choice(pkgs)
        name = rng.choice(["A", "B", "Svc", "Repo", "Ctl", "Impl", "Base"]) + str(i)
        if rng.random() < 0.08:
            name = "Main"
        # the same simple name in another package (types are identified by their qualified name)
        if types and rng.random() < 0.2:
            other = rng.choice(types)
            if other[0] != pkg and (pkg, other[1]) not in types:
                name = other[1]
        types.append((pkg, name))
    ext_types = [(rng.choice(pkgs), "Ext%d" % i) for i in range(2)] + [("java.util", "List"), ("org.lib", "Thing")]
    def target(include_self_idx=None):
        r = rng.random()
        if r < 0.7:
            return rng.choice(types)
        if r < 0.9:
            return rng.choice(ext_types)
        return types[include_self_idx] if include_self_idx is not None else rng.choice(types)
    model = []
    for i, (pkg, name) in enumerate(types):
        impls = []
        for _ in range(rng.randint(0, 2) if rng.random() < 0.5 else 0):
            t = target()
            impls.append(t[0] + "." + t[1] if rng.random() < 0.8 else t[1])
        extend = ""
        if rng.random() < 0.3:
            t = target()
            extend = t[0] + "." + t[1] if rng.random() < 0.7 else t[1]
        fcalls = []
        for _ in range(rng.randint(0, 3) if rng.random() < 0.6 else 0):
            t = target(i)
            fcalls.append(mk_call(t[0], t[1], ""))
        funcs = []
        for j in range(rng.randint(0, 4)):
            calls = []
            for _ in range(rng.randint(0, 4)):
                t = target(i)
                calls.append(mk_call(t[0], t[1], rng.choice(["f", "g", "run"])))
            fname = "main" if rng.random() < 0.1 else "m%d" % j
            funcs.append(mk_func(fname, calls))
        model.append(mk_ds(name, pkg, funcs, extend=extend, impls=impls, calls=fcalls))
    idents = []
    for (pkg, name) in types:
        if rng.random() < 0.92:
            idents.append(pkg + "." + name)
    if rng.random() < 0.3:
        t = rng.choice(ext_types)
        idents.append(t[0] + "." + t[1])
    return model, idents, pkgs

def cases(seed, tier):
    n_random = 300 if tier == "quick" else 10000
    out = []
    kinds = ["none", "header", "package", "both"]
    for fam in ["prefix_pkgs", "key_clash", "pkg_tree"]:
        for j in range(12 if tier == "quick" else 200):
            rng = vlib.rng_for(seed, ID, fam, j)
            m, idents, pkgs = gen_model(rng, fam)
            kind = "none" if j % 3 == 0 and fam != "pkg_tree" else "header"
            out.append({"name": "%s-%d" % (fam, j), "tags": [fam, "merge:" + kind],
                        "input": [m, idents, kind, [""]]})
    for i in range(n_random):
        rng = vlib.rng_for(seed, ID, "random", i)
        m, idents, pkgs = gen_model(rng)
        kind = rng.choice(kinds)
        r = rng.random()
        if r < 0.5:
            filters = [""]
        elif r < 0.8:
            filters = [rng.choice(pkgs)]
        else:
            filters = [rng.choice(pkgs), rng.choice(["Svc", "A", "com", "zzz"])]
        out.append({"name": "random-%d" % i, "tags": ["random", "merge:" + kind], "input": [m, idents, kind, filters]})
    return out

def shrink(inp):
    m, idents, kind, filters = inp
    for i in range(len(m)):
        yield [m[:i] + m[i+1:], idents, kind, filters]
    for i, d in enumerate(m):
        for idx in (6, 7, 9):
            for j in range(len(d[idx])):
                d2 = list(d); d2[idx] = d[idx][:j] + d[idx][j+1:]
                yield [m[:i] + [d2] + m[i+1:], idents, kind, filters]
        if d[5]:
            d2 = list(d); d2[5] = ""
            yield [m[:i] + [d2] + m[i+1:], idents, kind, filters]
    for i, d in enumerate(m):
        for j, f in enumerate(d[7]):
            for k in range(len(f[3])):
                f2 = list(f); f2[3] = f[3][:k] + f[3][k+1:]
                d2 = list(d); d2[7] = d[7][:j] + [f2] + d[7][j+1:]
                yield [m[:i] + [d2] + m[i+1:], idents, kind, filters]
    if filters != [""]:
        yield [m, idents, kind, [""]]

def pretty(c):
    m, idents, kind, filters = c["input"]
    lines = ["merge=%s filters=%r idents=%r" % (kind, filters, idents)]
    for d in m:
        lines.append("%s.%s implements %r extends %r fields->%r methods: %s" % (
            d[2], d[0], d[6], d[5], [cl[0] + "." + cl[2] for cl in d[9]],
            "; ".join("%s->%r" % (f[0], [cl[0] + "." + cl[2] for cl in f[3]]) for f in d[7])))
    return lines
