"""C10 -- bad-smell findings match the documented thresholds exactly."""
import os
import vlib
import javagen as J
import C01

ID = "C10"
MODEL_ENTRY = "C10.model"
SPEC_ENTRY = "C10.spec"
HARNESS_OP = "java.bs"
FRESH_PROCESS = True
CASE_TIMEOUT = "60s"
HARNESS_ENV = {"COCA_BIN": os.path.join(vlib.ROOT, "harness", "bin", "coca")}
RULE = ("classes / interfaces built around every threshold: method spans 29-33 lines (annotation on its own line or "
        "not), 4-7 parameters, 18-22 methods with getter/setter mixes, 6-10 top-level and nested ifs and switches, "
        "conditions spanning 2-6 lines, 0-2 methods; random classes elsewhere; x random subsets of ignored kinds; "
        "the -s type grouping through the coca binary; non-trivial = at least one finding; distinct = distinct input"
        '; classes with the bare accessors get / set; 15% of the units have Windows line ends'
        "; every other tree's finding list is observed through `coca bs -p DIR [-x KINDS]` (coca_reporter/bs.json)")
TRUSTED_BASE = C01.TRUSTED_BASE + ["refusedBequest and graphConnectedCall findings are dropped from both sides (outside C10)"]
ASSUMPTIONS = ["the line a declaration starts on = the line of its return type (modifiers and annotations belong to the "
               "enclosing body declaration)"]

KINDS = ["longMethod", "longParameterList", "largeClass", "dataClass", "lazyElement", "repeatedSwitches", "complexCondition"]

def simple_stmt(i):
    return J.ExprS(J.Call(J.Name("svc"), "step%d" % (i % 7), [J.Lit(str(i))]))

def cond(rng, height):
    e = J.Name("a0")
    for h in range(1, height):
        b = J.Bin("&&", e, J.Name("a%d" % h)); b.brk = True
        e = b
    return e

def gen_method(rng, idx, shape):
    name = shape.get("name") or (rng.choice(["run", "handle", "process", "compute"]) + str(idx))
    nparams = shape.get("nparams", rng.randint(0, 3))
    params = [(J.T(rng.choice(["int", "String", "Foo"])), "p%d" % j) for j in range(nparams)]
    body = []
    for i in range(shape.get("ifs", 0)):
        body.append(J.If(cond(rng, shape.get("cond_height", 1)), [simple_stmt(i)] if rng.random() < 0.5 else [],
                         [simple_stmt(i)] if rng.random() < 0.2 else None))
    for i in range(shape.get("nested_ifs", 0)):
        body.append(J.While(J.Name("x"), [J.If(J.Name("y"), [simple_stmt(i)])]))
    for i in range(shape.get("switches", 0)):
        body.append(J.Switch(J.Name("k"), [(["1"], [simple_stmt(i)]), (None, [simple_stmt(i + 1)])]))
    for i in range(shape.get("filler", 0)):
        body.append(simple_stmt(i))
    rng.shuffle(body)
    mods = []
    if shape.get("annotation"): mods.append(J.Annotation("Override"))
    mods.append(rng.choice(["public", "private", "protected"]))
    return J.Method(name, None if rng.random() < 0.5 else J.T("int"), params, body, mods)

def gen_class(rng, pkg, name, family):
    kind = "class"
    methods = []
    if family == "long_method":
        for i in range(rng.randint(1, 3)):
            methods.append(gen_method(rng, i, {"filler": rng.randint(27, 33), "annotation": rng.random() < 0.5}))
    elif family == "long_params":
        for i in range(rng.randint(1, 4)):
            methods.append(gen_method(rng, i, {"nparams": rng.randint(4, 7), "filler": 1}))
    elif family == "large_class":
        n = rng.randint(18, 22)
        for i in range(n):
            methods.append(gen_method(rng, i, {"filler": 0, "nparams": 0}))
        for i in range(rng.randint(0, 3)):
            methods.append(gen_method(rng, i, {"name": rng.choice(["get", "set"]) + "X%d" % i, "nparams": 0}))
        if rng.random() < 0.4:      # the bare accessor names of Supplier / AtomicReference / ThreadLocal style classes
            methods.append(gen_method(rng, 90, {"name": "get", "nparams": 0}))
            methods.append(gen_method(rng, 91, {"name": "set", "nparams": 1}))
        rng.shuffle(methods)
    elif family == "data_class":
        for i in range(rng.randint(0, 3)):
            methods.append(gen_method(rng, i, {"name": rng.choice(["get", "set", "getter", "settle"]) + "V%d" % i, "nparams": rng.randint(0, 1)}))
        if rng.random() < 0.3:
            methods.append(gen_method(rng, 9, {"name": rng.choice(["isOk", "gett", "target"]), "nparams": 0}))
        if rng.random() < 0.3:
            methods = [gen_method(rng, 0, {"name": "get", "nparams": 0})] + ([gen_method(rng, 1, {"name": "set", "nparams": 1})] if rng.random() < 0.6 else [])
        if rng.random() < 0.3: kind = "interface"
    elif family == "switches":
        for i in range(rng.randint(1, 2)):
            methods.append(gen_method(rng, i, {"ifs": rng.randint(6, 10) if rng.random() < 0.6 else 0,
                                               "switches": rng.randint(6, 10) if rng.random() < 0.6 else 0,
                                               "nested_ifs": rng.randint(0, 9)}))
    elif family == "complex_condition":
        for i in range(rng.randint(1, 2)):
            methods.append(gen_method(rng, i, {"ifs": rng.randint(1, 3), "cond_height": rng.randint(2, 6)}))
    elif family == "lazy":
        if rng.random() < 0.3: kind = "interface"
        if rng.random() < 0.3:
            methods.append(J.Method(name, None, [], [], ["public"], kind="ctor"))
    else:
        for i in range(rng.randint(0, 5)):
            methods.append(gen_method(rng, i, {"filler": rng.randint(0, 40) if rng.random() < 0.2 else rng.randint(0, 5),
                                               "ifs": rng.randint(0, 9) if rng.random() < 0.2 else 0,
                                               "nparams": rng.randint(0, 7), "cond_height": rng.randint(1, 5)}))
    if kind == "interface":
        methods = [J.Method(m.name, m.ret, m.params, None, [], kind="imethod") for m in methods if m.kind != "ctor"]
    members = ([J.Field(J.T("Svc"), ["svc"], ["private"])] if kind == "class" and rng.random() < 0.5 else []) + methods
    u = J.Unit(pkg.replace(".", "/") + "/" + name + ".java", pkg, [], kind, name, members,
               extends=(J.T("Base") if kind == "class" and rng.random() < 0.2 else None))
    lay = "std" if family != "random" or rng.random() < 0.7 else rng.choice(["sparse", "random"])
    J.render(u, rng, lay)
    return u

def bs_fact(u):
    ms = []
    for m in u.members:
        if isinstance(m, J.Field) or m.kind == "ctor": continue
        toks = u.toks
        sl = toks[m.first].line
        el = toks[m.last].line
        ifs = sw = 0
        conds = []
        for s in (m.body or []):
            if s.k == "if":
                ifs += 1; conds.append([str(toks[s.lpar].line), str(toks[s.rpar].line)])
            elif s.k == "switch":
                sw += 1
        ms.append([m.name, str(sl), str(el), str(len(m.params)), str(ifs), str(sw), conds])
    return [u.path, "Class" if u.kind == "class" else "Interface", ms]

FAMILIES = ["long_method", "long_params", "large_class", "data_class", "switches", "complex_condition", "lazy", "random"]

def gen(rng, family):
    n = rng.randint(1, 3)
    units = []
    for i in range(n):
        fam = family if i == 0 else rng.choice(FAMILIES)
        units.append(gen_class(rng, rng.choice(["com.a", "com.b"]), "K%d" % i + rng.choice(["", "Impl", "Dto"]), fam))
    order = C01.walk_order([u.path for u in units])
    facts, texts = [], []
    for p in order:
        u = next(x for x in units if x.path == p)
        facts.append(bs_fact(u)); texts.append([p, u.text])
    ignore = [k for k in KINDS if rng.random() < 0.15]
    return facts, texts, ignore

def harness_input(c):
    return [c["texts"], c["input"][1]]

def canon(out):
    if not isinstance(out, list) or len(out) != 2 or (out and isinstance(out[0], str)):
        return out
    groups = out[1]
    if groups and isinstance(groups[0], str):
        return [sorted(out[0]), groups]
    # inside a group, ties in Size may come in any order
    return [sorted(out[0]), sorted([[k, sorted(v, key=lambda s: (-int(s[4]), s))] for k, v in groups])]

def clauses(spec_out):
    return sorted(set(spec_out))

def finding_matches(f, clause, case):
    return clause.split(":")[0] == f.get("clause") and f.get("tag") in case.get("tags", [])

def nontrivial(c):
    mo = c.get("model_out")
    return isinstance(mo, list) and len(mo) == 2 and len(mo[0]) > 0

def cases(seed, tier):
    per = 30 if tier == "quick" else 600
    out = []
    for fam in FAMILIES:
        for i in range(per):
            rng = vlib.rng_for(seed, ID, fam, i)
            facts, texts, ignore = gen(rng, fam)
            out.append({"name": "%s-%d" % (fam, i), "tags": [fam], "input": [facts, ignore], "texts": texts})
    return out

def pretty(c):
    return ["ignore: %r" % (c["input"][1],)] + C01.pretty(c)
