"""the service summary of `coca evaluate` (lifecycle / return-type maps, related parameters): observed by C08 only"""
import vlib
import javagen as J
import C01

ID = "C18svc"
MODEL_ENTRY = None            # no Coq model of this part: C08 compares the executions with each other only
HARNESS_OP = "C18.svc"
FRESH_PROCESS = True

PREFIXES = ["do", "sync", "load", "apply", "flush", "render"]

def gen(rng):
    units = []
    names = rng.sample(["OrderService", "UserService", "PaymentServiceImpl", "Helper", "Repo", "MailService"], rng.randint(1, 4))
    for name in names:
        members = []
        pre = rng.choice(PREFIXES)
        k = rng.randint(0, 6)
        mnames = [pre + rng.choice(["Save", "Update", "Remove", "All", "One", "Batch", "Now"]) + str(i) for i in range(k)]
        mnames += [rng.choice(PREFIXES) + "Other%d" % i for i in range(rng.randint(0, 3))]
        rng.shuffle(mnames)
        for mn in mnames:
            nparams = rng.choice([0, 1, 2, 4, 4, 5])
            params = [(J.T(rng.choice(["String", "Long", "Order", "User", "Money"])), "p%d" % j) for j in range(nparams)]
            ret = rng.choice([None, J.T("String"), J.T(rng.choice(names)), J.T("Order")])
            members.append(J.Method(mn, ret, params, [], ["public"]))
        if name.endswith("Service") and rng.random() < 0.5:
            # five methods over the same four parameters; four of them add a fifth, four add a sixth, three both:
            # two different largest frequent parameter sets of the same size (support 80% each)
            base = [(J.T("String"), "firstname"), (J.T("String"), "lastname"), (J.T("int"), "age"), (J.T("String"), "address")]
            extra = [["email", "phone"], ["email", "phone"], ["email", "phone"], ["email"], ["phone"]]
            rng.shuffle(extra)
            members = []
            for j, ex in enumerate(extra):
                ps = base + [(J.T("String"), e) for e in ex]
                rng.shuffle(ps)
                members.append(J.Method("register%d" % j, None, ps, [], ["public"]))
        u = J.Unit("com/svc/" + name + ".java", "com.svc", [], "class", name, members)
        J.render(u, rng, "std")
        units.append(u)
    order = C01.walk_order([u.path for u in units])
    return [[p, next(x for x in units if x.path == p).text] for p in order]

def cases(seed, tier):
    out = []
    for i in range(40):
        rng = vlib.rng_for(seed, ID, "svc", i)
        texts = gen(rng)
        out.append({"name": "svc-%d" % i, "tags": ["svc"], "input": texts})
    return out

def canon(out):
    return out
