"""C06 -- unused-import removal deletes nothing but unused single-type imports.

Generator of directories of conventional Java units written line by line: every line is known to be
an import line (with the imports on it) or not, every reference to a simple name is placed by a
template whose ANTLR contexts are known, so the generator derives
  * the facts the refactor listener's callbacks read (role = ANTLR context, text) in source order,
  * independently, the abstract file of the specification (import table by line text, names referenced
    by syntactic role, names only mentioned in comments / strings)."""
import os, re
import vlib

ID = "C06"
SPEC_ENTRY = "C06.spec"
HARNESS_OP = "C06"
FRESH_PROCESS = True      # currentFile / the listener tables are package-level: one process per directory
CASE_TIMEOUT = "30s"

# Which model follows the sources: "C06.model" reads the five repair switches from the Go files
# (tools/gen_constants.py -> Generated.Constants.unused_fix_*).  C06_MODEL=prefix|fixed forces one.
MODEL_ENTRY = {"prefix": "C06.model_prefix", "fixed": "C06.model_fixed"}.get(os.environ.get("C06_MODEL", ""), "C06.model")

RULE = ("directories of 1-5 units (class / interface / enum / @interface) in filepath.Walk order, 0-8 imports per unit: "
        "single-type imports used in exactly one role (field type, generic argument, array, annotation, annotation "
        "argument, creation, static receiver of a call / of a constant, catch, multi-catch, throws, extends, implements, "
        "type bound, cast, instanceof, class literal, argument of this(...) / super(...), parameter annotation, nested "
        "generic, throw new, lambda body, method / constructor reference, parameter, return type, local, "
        "for-each, try-resource), unused, named only in a comment / string, wildcard, static method / constant "
        "(initialiser, argument, operand, return) / static wildcard, duplicates, same simple name from two packages, two "
        "imports on one line, trailing comments, blank and comment lines between imports, CRLF, no final newline, no "
        "package, no imports; each run followed by a second run in the same and in a new process. Dedicated sub-streams: "
        "single_clean, layout, multi_file, same_line, wildcard_nofields, enum_file, static_const, mixed. "
        "non-trivial = some import line is deleted by the model; distinct = distinct input")
TRUSTED_BASE = ["modelled, not verified: the ANTLR Java lexer/parser/tree walker (the listener callbacks are modelled over "
                "occurrence facts (context, text) the generator derives from its templates; validated by the exact "
                "comparison of every file's bytes), filepath.Walk order (supplied by the generator), strings.Split/Join "
                "on \"\\n\" (a file is its list of lines), os file I/O"]
ASSUMPTIONS = ["every import declaration sits on one line and an import line holds nothing but imports and comments",
               "units are main sources (GetJavaFiles skips *Test.java, *Tests.java and src/test/java/ by design)",
               "the second run is observed only when the first ended without panic and deleted nothing but import lines "
               "(otherwise the first run already violates the property and the files are no longer parseable units)",
               "names in comments / string literals only: the property is read as allowing both keeping and deleting"]

# ------------------------------------------------------------------ tiny Java syntax with listener facts
# type: (base, [args], dims) ; base may be a primitive; arg may be "?" or ("?extends", type)
PRIMS = {"int", "long", "boolean", "double", "char", "void"}

def ty(base, *args, dims=0):
    return (base, list(args), dims)

def ty_text(t):
    if t == "?": return "?"
    if t[0] == "?extends": return "?extends" + ty_text(t[1])
    s = t[0]
    if t[1]: s += "<" + ",".join(ty_text(a) for a in t[1]) + ">"
    return s + "[]" * t[2]

def ty_src(t):
    if t == "?": return "?"
    if t[0] == "?extends": return "? extends " + ty_src(t[1])
    s = t[0]
    if t[1]: s += "<" + ", ".join(ty_src(a) for a in t[1]) + ">"
    return s + "[]" * t[2]

def ty_occs(t):
    """EnterTypeType, then EnterClassOrInterfaceType (all identifiers), then the type arguments"""
    if t == "?": return []
    if t[0] == "?extends": return ty_occs(t[1])
    out = [["typeType", ty_text(t)]]
    if t[0] not in PRIMS:
        out.append(["classOrInterfaceType", t[0]])
        for a in t[1]: out += ty_occs(a)
    return out

def ty_refs(t, role):
    if t == "?": return []
    if t[0] == "?extends": return ty_refs(t[1], "bound")
    out = [] if t[0] in PRIMS else [[role if not t[2] else "array", t[0]]]
    for a in t[1]: out += ty_refs(a, "generic_arg")
    return out

# expressions: ("id", x) ("lit", s) ("field", e, name) ("call", target|None, name, [args]) ("new", type, [args])
#   ("newarr", type, e) ("cast", type, e) ("instanceof", e, type) ("bin", op, l, r) ("classlit", type)
#   ("mref", e, name) ("ctorref", type)
def ex_text(e):
    k = e[0]
    if k == "id": return e[1]
    if k == "this": return "this"
    if k == "lit": return e[1]
    if k == "field": return ex_text(e[1]) + "." + e[2]
    if k == "call": return (ex_text(e[1]) + "." if e[1] else "") + e[2] + "(" + ",".join(ex_text(a) for a in e[3]) + ")"
    if k == "ctorcall": return e[1] + "(" + ",".join(ex_text(a) for a in e[2]) + ")"
    if k == "lambda": return (e[1][0] if len(e[1]) == 1 else "(" + ",".join(e[1]) + ")") + "->" + ex_text(e[2])
    if k == "new": return "new" + ty_text(e[1]) + "(" + ",".join(ex_text(a) for a in e[2]) + ")"
    if k == "newarr": return "new" + e[1][0] + "[" + ex_text(e[2]) + "]"
    if k == "cast": return "(" + ty_text(e[1]) + ")" + ex_text(e[2])
    if k == "instanceof": return ex_text(e[1]) + "instanceof" + ty_text(e[2])
    if k == "bin": return ex_text(e[2]) + e[1] + ex_text(e[3])
    if k == "classlit": return ty_text(e[1]) + ".class"
    if k == "mref": return ex_text(e[1]) + "::" + e[2]
    if k == "ctorref": return ty_text(e[1]) + "::new"
    raise ValueError(k)

def ex_src(e):
    k = e[0]
    if k in ("id", "lit"): return e[1]
    if k == "this": return "this"
    if k == "field": return ex_src(e[1]) + "." + e[2]
    if k == "call": return (ex_src(e[1]) + "." if e[1] else "") + e[2] + "(" + ", ".join(ex_src(a) for a in e[3]) + ")"
    if k == "ctorcall": return e[1] + "(" + ", ".join(ex_src(a) for a in e[2]) + ")"
    if k == "lambda": return (e[1][0] if len(e[1]) == 1 else "(" + ", ".join(e[1]) + ")") + " -> " + ex_src(e[2])
    if k == "new": return "new " + ty_src(e[1]) + "(" + ", ".join(ex_src(a) for a in e[2]) + ")"
    if k == "newarr": return "new " + e[1][0] + "[" + ex_src(e[2]) + "]"
    if k == "cast": return "(" + ty_src(e[1]) + ") " + ex_src(e[2])
    if k == "instanceof": return ex_src(e[1]) + " instanceof " + ty_src(e[2])
    if k == "bin": return ex_src(e[2]) + " " + e[1] + " " + ex_src(e[3])
    if k == "classlit": return ty_src(e[1]) + ".class"
    if k == "mref": return ex_src(e[1]) + "::" + e[2]
    if k == "ctorref": return ty_src(e[1]) + "::new"
    raise ValueError(k)

def created_occs(t):
    """EnterCreatedName: the identifiers; then typeArgumentsOrDiamond (a diamond has no typeType)"""
    out = [["createdName", t[0]]]
    for a in t[1]: out += ty_occs(a)
    return out

def ex_occs(e):
    """callbacks in enter order; 'expression0' = text of ctx.Expression(0) read by EnterExpression"""
    k = e[0]
    if k == "id": return [["primary", e[1]]]
    if k in ("lit", "this"): return []          # primary: THIS | literal have no identifier
    if k == "field": return [["expression0", ex_text(e[1])]] + ex_occs(e[1])
    if k == "call":
        out = []
        if e[1] is not None:
            out += [["expression0", ex_text(e[1])]] + ex_occs(e[1])
        out.append(["methodCall", e[2]])
        out += [["expressionList", ex_text(a)] for a in e[3]]
        for a in e[3]: out += ex_occs(a)
        return out
    if k == "lambda":
        # lambdaExpression : lambdaParameters '->' lambdaBody ; EnterLambdaParameters records the identifiers
        return [["lambdaParameters", x] for x in e[1]] + ex_occs(e[2])
    if k == "ctorcall":
        # methodCall : THIS '(' expressionList? ')' | SUPER '(' expressionList? ')'  -- ctx.Identifier() == nil
        out = [["explicitConstructorCall", e[1]]]
        out += [["expressionList", ex_text(a)] for a in e[2]]
        for a in e[2]: out += ex_occs(a)
        return out
    if k == "new":
        out = created_occs(e[1])
        out += [["expressionList", ex_text(a)] for a in e[2]]
        for a in e[2]: out += ex_occs(a)
        return out
    if k == "newarr": return [["createdName", e[1][0]]] + ex_occs(e[2])
    if k == "cast": return [["expression0", ex_text(e[2])]] + ty_occs(e[1]) + ex_occs(e[2])
    if k == "instanceof": return [["expression0", ex_text(e[1])]] + ex_occs(e[1]) + ty_occs(e[2])
    if k == "bin": return [["expression0", ex_text(e[2])]] + ex_occs(e[2]) + ex_occs(e[3])
    if k == "classlit": return ty_occs(e[1])
    if k == "mref": return [["expression0", ex_text(e[1])]] + ex_occs(e[1])
    if k == "ctorref": return ty_occs(e[1])
    raise ValueError(k)

def is_upper_name(x):
    return bool(re.fullmatch(r"[A-Z][A-Za-z0-9]*", x)) and not x.isupper()

def ex_refs(e, locals_):
    """(role, simple name) referenced by an expression; lower-case identifiers are variables unless they are
    unqualified call names; ALL-CAPS bare identifiers are (statically imported) constants"""
    k = e[0]
    if k == "id":
        x = e[1]
        if x in locals_: return []
        if is_upper_name(x): return [["static_receiver", x]]
        return [["static_const", x]]
    if k in ("lit", "this"): return []
    if k == "field": return ex_refs(e[1], locals_)
    if k == "call":
        out = []
        if e[1] is not None: out += ex_refs(e[1], locals_)
        else: out.append(["static_call", e[2]])
        for a in e[3]: out += ex_refs(a, locals_)
        return out
    if k == "lambda": return ex_refs(e[2], locals_ | set(e[1]))
    if k == "ctorcall":
        out = []
        for a in e[2]: out += ex_refs(a, locals_)
        return out
    if k == "new":
        out = ty_refs(e[1], "creation")
        for a in e[2]: out += ex_refs(a, locals_)
        return out
    if k == "newarr": return [["creation", e[1][0]]] + ex_refs(e[2], locals_)
    if k == "cast": return ty_refs(e[1], "cast") + ex_refs(e[2], locals_)
    if k == "instanceof": return ex_refs(e[1], locals_) + ty_refs(e[2], "instanceof")
    if k == "bin": return ex_refs(e[2], locals_) + ex_refs(e[3], locals_)
    if k == "classlit": return ty_refs(e[1], "class_literal")
    if k == "mref": return ex_refs(e[1], locals_)
    if k == "ctorref": return ty_refs(e[1], "constructor_ref")
    raise ValueError(k)

def ex_qualified_call_names(e):
    """names of qualified calls: not a use of a static import, but the listener records them"""
    k = e[0]
    out = []
    if k == "call":
        if e[1] is not None: out += [e[2]] + ex_qualified_call_names(e[1])
        for a in e[3]: out += ex_qualified_call_names(a)
    elif k in ("field", "mref"): out += ex_qualified_call_names(e[1])
    elif k == "lambda": out += ex_qualified_call_names(e[2]) + list(e[1])
    elif k in ("cast", "newarr"): out += ex_qualified_call_names(e[2])
    elif k == "instanceof": out += ex_qualified_call_names(e[1])
    elif k == "bin": out += ex_qualified_call_names(e[2]) + ex_qualified_call_names(e[3])
    elif k in ("new", "ctorcall"):
        for a in e[2]: out += ex_qualified_call_names(a)
    return out

class Piece:
    """some lines of a class body with the facts of both views"""
    def __init__(self, lines, occs=(), refs=(), mentions=()):
        self.lines, self.occs, self.refs, self.mentions = list(lines), list(occs), list(refs), list(mentions)
    def __add__(self, o):
        return Piece(self.lines + o.lines, self.occs + o.occs, self.refs + o.refs, self.mentions + o.mentions)

LOCALS = {"o", "other", "items", "x", "y", "it", "e", "r", "v", "w", "this"}

def annot_piece(a, indent):
    """a: (name, None) | (name, expr) | (name, [(key, expr)])"""
    name, arg = a
    occs, refs, ment = [["annotation", name]], [["annotation", name]], []
    src = "@" + name
    if isinstance(arg, list):
        src += "(" + ", ".join(k + " = " + ex_src(v) for k, v in arg) + ")"
        for _, v in arg:
            occs += ex_occs(v); refs += [["annotation_arg", n] for _, n in ex_refs(v, LOCALS)]; ment += ex_qualified_call_names(v)
    elif arg is not None:
        src += "(" + ex_src(arg) + ")"
        occs += ex_occs(arg); refs += [["annotation_arg", n] for _, n in ex_refs(arg, LOCALS)]; ment += ex_qualified_call_names(arg)
    return Piece([indent + src], occs, refs, ment)

def field_piece(t, name, init=None, mods="private ", annots=(), const=False):
    p = Piece([])
    for a in annots: p += annot_piece(a, "    ")
    occs = ty_occs(t)
    refs = ty_refs(t, "field_type")
    ment = []
    src = "    " + mods + ty_src(t) + " " + name
    if init is not None:
        src += " = " + ex_src(init)
        occs += ex_occs(init); refs += ex_refs(init, LOCALS); ment += ex_qualified_call_names(init)
    return p + Piece([src + ";"], occs, refs, ment)

# statements: ("local", type, name, init|None) ("expr", e) ("return", e) ("throw", e) ("try", [stmts], [names], [stmts])
#   ("foreach", type, name, e, [stmts]) ("tryres", type, name, e, [stmts]) ("if", e, [stmts]) ("comment", text, [mentions])
def stmt_piece(s, ind):
    k = s[0]
    if k == "local":
        occs = ty_occs(s[1]); refs = ty_refs(s[1], "local_type"); ment = []
        src = ind + ty_src(s[1]) + " " + s[2]
        if s[3] is not None:
            src += " = " + ex_src(s[3]); occs += ex_occs(s[3]); refs += ex_refs(s[3], LOCALS); ment += ex_qualified_call_names(s[3])
        return Piece([src + ";"], occs, refs, ment)
    if k in ("expr", "return", "throw"):
        e = s[1]
        kw = {"expr": "", "return": "return ", "throw": "throw "}[k]
        return Piece([ind + kw + ex_src(e) + ";"], [["statement", ex_text(e)]] + ex_occs(e), ex_refs(e, LOCALS),
                     ex_qualified_call_names(e))
    if k == "try":
        p = Piece([ind + "try {"])
        for b in s[1]: p += stmt_piece(b, ind + "    ")
        p += Piece([ind + "} catch (" + " | ".join(s[2]) + " e) {"], [["catchType", n] for n in s[2]],
                   [["catch_type", n] for n in s[2]])
        for b in s[3]: p += stmt_piece(b, ind + "    ")
        return p + Piece([ind + "}"])
    if k == "foreach":
        p = Piece([ind + "for (" + ty_src(s[1]) + " " + s[2] + " : " + ex_src(s[3]) + ") {"],
                  ty_occs(s[1]) + ex_occs(s[3]), ty_refs(s[1], "local_type") + ex_refs(s[3], LOCALS))
        for b in s[4]: p += stmt_piece(b, ind + "    ")
        return p + Piece([ind + "}"])
    if k == "tryres":
        # resource: classOrInterfaceType variableDeclaratorId '=' expression  (no typeType context)
        p = Piece([ind + "try (" + s[1][0] + " " + s[2] + " = " + ex_src(s[3]) + ") {"],
                  [["classOrInterfaceType", s[1][0]]] + ex_occs(s[3]), [["resource_type", s[1][0]]] + ex_refs(s[3], LOCALS),
                  ex_qualified_call_names(s[3]))
        for b in s[4]: p += stmt_piece(b, ind + "    ")
        return p + Piece([ind + "}"])
    if k == "if":
        p = Piece([ind + "if (" + ex_src(s[1]) + ") {"], ex_occs(s[1]), ex_refs(s[1], LOCALS), ex_qualified_call_names(s[1]))
        for b in s[2]: p += stmt_piece(b, ind + "    ")
        return p + Piece([ind + "}"])
    if k == "comment":
        return Piece([ind + s[1]], [], [], s[2])
    raise ValueError(k)

def method_piece(name, ret, params, throws, body, mods="public ", annots=(), kind="method"):
    """kind: method | ctor | imethod (interface method without body) | amethod (annotation element)"""
    p = Piece([])
    for a in annots: p += annot_piece(a, "    ")
    occs, refs = [], []
    if kind == "imethod": occs.append(["interfaceMethodDeclaration", name])
    if kind != "ctor":
        if ret is None: head = "void " + name
        else:
            head = ty_src(ret) + " " + name; occs += ty_occs(ret); refs += ty_refs(ret, "return_type")
    else:
        head = name
    psrc = []
    for prm in params:
        pt, pn = prm[0], prm[1]
        pa = prm[2] if len(prm) > 2 else []
        for an in pa:                       # formalParameter : variableModifier* typeType variableDeclaratorId
            occs.append(["annotation", an]); refs.append(["annotation", an])
        occs += ty_occs(pt); refs += ty_refs(pt, "param_type")
        psrc.append("".join("@" + an + " " for an in pa) + ty_src(pt) + " " + pn)
    head += "(" + ", ".join(psrc) + ")"
    if throws:
        head += " throws " + ", ".join(throws)
        occs += [["qualifiedNameList", n] for n in throws]; refs += [["throws", n] for n in throws]
    if body is None:
        return p + Piece(["    " + mods + head + ";"], occs, refs)
    p += Piece(["    " + mods + head + " {"], occs, refs)
    for s in body: p += stmt_piece(s, "        ")
    return p + Piece(["    }"])

# ------------------------------------------------------------------ uses of an imported simple name
def use_single(rng, role, N, k):
    """a member (Piece) that refers to the type N in exactly one syntactic role"""
    f = "f%d" % k
    m = "m%d" % k
    if role == "field_type": return field_piece(ty(N), f)
    if role == "generic_arg": return field_piece(ty(rng.choice(["Holder", "Box"]), ty(N)), f)
    if role == "wildcard_bound": return field_piece(ty("Box", ("?extends", ty(N))), f)
    if role == "array": return field_piece(ty(N, dims=1), f, mods="")
    if role == "annotation_field": return field_piece(ty("int"), f, annots=[(N, None)])
    if role == "annotation_method": return method_piece(m, None, [], [], [], annots=[(N, rng.choice([None, ("lit", '"x"')]))])
    if role == "annotation_arg_class": return field_piece(ty("int"), f, annots=[("Meta", ("classlit", ty(N)))])
    if role == "annotation_arg_const": return field_piece(ty("int"), f, annots=[("Meta", [("value", ("field", ("id", N), "MAX"))])])
    if role == "creation": return field_piece(ty("Object"), f, ("new", ty(N), []))
    if role == "creation_diamond": return field_piece(ty("Object"), f, ("new", (N, [], 0), [("lit", "1")]))
    if role == "creation_array": return field_piece(ty("Object"), f, ("newarr", ty(N), ("lit", "2")))
    if role == "creation_stmt": return method_piece(m, None, [], [], [("expr", ("new", ty(N), []))])
    if role == "static_call": return field_piece(ty("int"), f, ("call", ("id", N), "size", []))
    if role == "static_call_stmt": return method_piece(m, None, [], [], [("expr", ("call", ("id", N), "reset", [("lit", "1")]))])
    if role == "static_call_chain": return method_piece(m, None, [], [], [("expr", ("call", ("call", ("id", N), "get", []), "go", []))])
    if role == "static_field": return field_piece(ty("int"), f, ("field", ("id", N), "MAX"))
    if role == "static_field_arg": return method_piece(m, None, [], [], [("expr", ("call", None, "use", [("field", ("id", N), "MAX")]))])
    if role == "catch": return method_piece(m, None, [], [], [("try", [("expr", ("call", None, "work", []))], [N], [])])
    if role == "multi_catch": return method_piece(m, None, [], [], [("try", [("expr", ("call", None, "work", []))], ["Oops", N], [])])
    if role == "throws": return method_piece(m, None, [], [N], [])
    if role == "ctor_throws": return None   # filled by the unit builder (needs the class name)
    if role == "cast": return method_piece(m, None, [(ty("Object"), "o")], [], [("local", ty("Object"), "x", ("cast", ty(N), ("id", "o")))])
    if role == "instanceof": return method_piece(m, ty("boolean"), [(ty("Object"), "o")], [], [("return", ("instanceof", ("id", "o"), ty(N)))])
    if role == "class_literal": return field_piece(ty("Class", "?"), f, ("classlit", ty(N)))
    if role == "method_ref": return field_piece(ty("Runnable"), f, ("mref", ("id", N), "run"))
    if role == "ctor_ref": return field_piece(ty("Maker"), f, ("ctorref", ty(N)))
    if role == "param_type": return method_piece(m, None, [(ty(N), "x")], [], [])
    if role == "annotation_param": return method_piece(m, None, [(ty("Object"), "o", [N])], [], [])
    if role == "nested_generic": return field_piece(ty("Holder", ty("String"), ty("Box", ty(N))), f)
    if role == "throw_new": return method_piece(m, None, [], [], [("throw", ("new", ty(N), [("lit", '"x"')]))])
    if role == "lambda_body": return field_piece(ty("Object"), f, ("lambda", ["x"], ("call", ("id", N), "of", [("id", "x")])))
    if role == "lambda_two": return field_piece(ty("Object"), f, ("lambda", ["x", "y"], ("new", ty(N), [("id", "x"), ("id", "y")])))
    if role == "return_type": return method_piece(m, ty(N), [], [], [("return", ("lit", "null"))])
    if role == "local_type": return method_piece(m, None, [], [], [("local", ty(N), "x", ("lit", "null"))])
    if role == "foreach_type": return method_piece(m, None, [(ty("Iterable", ty("Object")), "items")], [], [("foreach", ty(N), "it", ("id", "items"), [])])
    if role == "resource_type": return method_piece(m, None, [], [], [("tryres", ty(N), "r", ("call", None, "open", []), [])])
    raise ValueError(role)

MEMBER_ROLES = ["field_type", "generic_arg", "wildcard_bound", "array", "annotation_field", "annotation_method",
                "annotation_arg_class", "annotation_arg_const", "creation", "creation_diamond", "creation_array",
                "creation_stmt", "static_call", "static_call_stmt", "static_call_chain", "static_field", "static_field_arg",
                "catch", "multi_catch", "throws", "cast", "instanceof", "class_literal", "method_ref", "ctor_ref",
                "param_type", "return_type", "local_type", "foreach_type", "resource_type",
                "annotation_param", "nested_generic", "throw_new", "lambda_body", "lambda_two"]
HEADER_ROLES = ["extends", "implements", "type_bound", "class_annotation", "class_annotation_arg"]
CLASS_ONLY_ROLES = {"extends", "type_bound"}

def use_static(rng, role, member, k):
    f, m = "s%d" % k, "t%d" % k
    if role == "call": return method_piece(m, None, [], [], [("expr", ("call", None, member, [("lit", "1")]))])
    if role == "call_init": return field_piece(ty("int"), f, ("call", None, member, []))
    if role == "const_init": return field_piece(ty("int"), f, ("id", member))                       # int s = MAX;
    if role == "const_local_init": return method_piece(m, None, [], [], [("local", ty("int"), "x", ("id", member))])
    if role == "const_arg": return method_piece(m, None, [], [], [("expr", ("call", None, "use", [("id", member)]))])
    if role == "const_operand": return field_piece(ty("int"), f, ("bin", "+", ("id", member), ("lit", "1")))
    if role == "const_return": return method_piece(m, ty("int"), [], [], [("return", ("id", member))])
    raise ValueError(role)

STATIC_CALL_ROLES = ["call", "call_init"]
STATIC_CONST_SEEN = ["const_arg", "const_operand", "const_return"]      # contexts the listener reads before the repair
STATIC_CONST_PRIMARY = ["const_init", "const_local_init"]              # only a bare `primary`

TYPE_NAMES = ["Alpha", "Beta", "Gamma", "Delta", "Omega", "Sigma", "Kappa", "Theta", "Zeta", "Vega", "Rho", "Tau"]
STATIC_METHODS = ["assertThat", "checkNotNull", "emptyList", "verify"]
STATIC_CONSTS = ["MAX_VALUE", "DEFAULT", "LIMIT", "EPS"]
PKGS = ["com.acme", "org.demo.util", "java.util", "a.b", "net.x.y.z"]
UNIT_NAMES = ["App", "Main", "Core", "Data", "Node", "Repo", "Util", "View", "Zed",
              "Latest", "Contest", "Manifests"]      # ordinary classes whose names merely END like the test suffixes

def walk_order(paths):
    """filepath.Walk: depth first, directory entries in lexical (byte) order"""
    tree = {}
    for p in paths:
        node = tree
        parts = p.split("/")
        for x in parts[:-1]:
            node = node.setdefault(x, {})
        node[parts[-1]] = None
    out = []
    def rec(node, prefix):
        for name in sorted(node, key=lambda s: s.encode()):
            if node[name] is None: out.append(prefix + name)
            else: rec(node[name], prefix + name + "/")
    rec(tree, "")
    return out

class UnitOpts:
    def __init__(self, **kw):
        self.kind = "class"            # class | interface | enum | annotation
        self.n_imports = None
        self.same_line = False         # two imports on one line
        self.wildcard_nofields = False # wildcard import(s), body without any reference
        self.static_primary = False    # a static constant used only as a bare primary
        self.allow_wildcard = True
        self.allow_static = True
        self.allow_dups = True
        self.crlf = False
        self.final_newline = True
        self.noise = True              # blank / comment lines between imports, trailing comments, indentation
        self.__dict__.update(kw)

def gen_unit(rng, path, uname, o):
    """-> dict(text, jfile (model facts), afile (spec facts), feats)"""
    feats = set()
    pool = TYPE_NAMES[:]; rng.shuffle(pool)
    smeth = STATIC_METHODS[:]; rng.shuffle(smeth)
    sconst = STATIC_CONSTS[:]; rng.shuffle(sconst)
    pkg = rng.choice(["", "p", "com.acme.app", "org.demo"])
    imports = []     # dicts: qname star static simple status role
    members = []     # Pieces
    header = {"extends": None, "implements": [], "bound": None, "annots": []}
    mentions_pre = []
    body_empty = o.wildcard_nofields
    n = o.n_imports if o.n_imports is not None else rng.randint(0, 8)
    k = 0
    while len(imports) < n:
        k += 1
        r = rng.random()
        if body_empty:
            kind = "wildcard" if (not imports or r < 0.4) else rng.choice(["unused", "static_wildcard", "unused_static"])
        elif r < 0.45: kind = "used"
        elif r < 0.62: kind = "unused"
        elif r < 0.70: kind = "comment" if rng.random() < 0.5 else "string"
        elif r < 0.78 and o.allow_wildcard: kind = "wildcard"
        elif r < 0.82 and o.allow_wildcard and o.allow_static: kind = "static_wildcard"
        elif r < 0.90 and o.allow_static: kind = rng.choice(["static_call", "static_const"])
        elif r < 0.94 and o.allow_static: kind = "unused_static"
        elif o.allow_dups and imports and pool: kind = "dup"
        else: kind = "used"
        if kind in ("used", "unused", "comment", "string") and not pool: kind = "wildcard" if o.allow_wildcard else None
        if kind is None: break
        p = rng.choice(PKGS)
        if kind == "used":
            N = pool.pop()
            roles = MEMBER_ROLES + [h for h in HEADER_ROLES if o.kind in ("class",) or h not in CLASS_ONLY_ROLES]
            if o.kind == "annotation": roles = ["class_annotation", "class_annotation_arg", "array", "field_type"]
            if o.kind == "class": roles = roles + ["ctor_throws", "ctor_super_arg"]
            role = rng.choice(roles)
            imports.append(dict(qname=p + "." + N, star=False, static=False, role=role))
            if role == "extends":
                if o.kind == "interface": header["implements"].append(N)     # interface X extends N
                elif header["extends"] is None: header["extends"] = N
                else: members.append(use_single(rng, "field_type", N, k))
            elif role == "implements":
                if o.kind in ("class", "enum", "interface"): header["implements"].append(N)
                else: members.append(use_single(rng, "field_type", N, k))
            elif role == "type_bound":
                if header["bound"] is None: header["bound"] = N
                else: members.append(use_single(rng, "field_type", N, k))
            elif role == "class_annotation": header["annots"].append((N, None))
            elif role == "class_annotation_arg": header["annots"].append(("Meta", ("classlit", ty(N))))
            elif role == "ctor_throws":
                members.append(method_piece(uname, None, [], [N], [], kind="ctor"))
            elif role == "ctor_super_arg":
                members.append(method_piece(uname, None, [(ty("int"), "x"), (ty("int"), "k%d" % k)], [],
                                            [("expr", ("ctorcall", rng.choice(["super", "this"]),
                                                       [("id", "x"), ("field", ("id", N), "MAX")]))], kind="ctor"))
            elif o.kind == "annotation":
                members.append(method_piece("e%d" % k, ty(N, dims=1 if role == "array" else 0), [], [], None, mods="", kind="amethod"))
            elif o.kind == "interface":
                # interface members: constants and abstract methods
                if role in ("param_type", "return_type", "throws"):
                    members.append(method_piece("m%d" % k, ty(N) if role == "return_type" else None,
                                                [(ty(N), "x")] if role == "param_type" else [], [N] if role == "throws" else [],
                                                None, mods="", kind="imethod"))
                else:
                    # constDeclaration: typeType constantDeclarator
                    members.append(field_piece(ty(N), "C%d" % k, ("lit", "null"), mods=""))
            else:
                members.append(use_single(rng, role, N, k))
        elif kind == "unused":
            N = pool.pop()
            imports.append(dict(qname=p + "." + N, star=False, static=False, role="unused"))
        elif kind in ("comment", "string"):
            N = pool.pop()
            imports.append(dict(qname=p + "." + N, star=False, static=False, role=kind))
            if kind == "comment":
                c = rng.choice(["    // see %s", "    /* %s */", "    /** {@link %s} */"]) % N
                members.append(Piece([c], [], [], [N]))
            elif o.kind in ("class", "enum"):
                members.append(field_piece(ty("String"), "n%d" % k, ("lit", '"%s"' % N)) + Piece([], [], [], [N]))
            else:
                members.append(Piece(["    // " + N], [], [], [N]))
        elif kind == "wildcard":
            imports.append(dict(qname=p, star=True, static=False, role="wildcard"))
        elif kind == "static_wildcard":
            imports.append(dict(qname=p + ".Consts", star=True, static=True, role="wildcard"))
        elif kind == "static_call":
            if not smeth or o.kind not in ("class", "enum"): continue
            mname = smeth.pop()
            role = rng.choice(STATIC_CALL_ROLES)
            imports.append(dict(qname=p + ".Checks." + mname, star=False, static=True, role="static:" + role))
            members.append(use_static(rng, role, mname, k))
        elif kind == "static_const":
            if not sconst or o.kind not in ("class", "enum"): continue
            cname = sconst.pop()
            role = rng.choice(STATIC_CONST_PRIMARY if o.static_primary and not any(i["role"].startswith("static:const_") and
                              i["role"].split(":")[1] in STATIC_CONST_PRIMARY for i in imports) else STATIC_CONST_SEEN)
            if role in STATIC_CONST_PRIMARY: feats.add("static_const")
            imports.append(dict(qname=p + ".Consts." + cname, star=False, static=True, role="static:" + role))
            members.append(use_static(rng, role, cname, k))
        elif kind == "unused_static":
            if not smeth: continue
            imports.append(dict(qname=p + ".Checks." + smeth.pop(), star=False, static=True, role="unused"))
        elif kind == "dup":
            src = rng.choice(imports)
            d = dict(src)
            if not src["star"] and not src["static"] and rng.random() < 0.5:
                d["qname"] = "dup.other." + src["qname"].split(".")[-1]      # same simple name, other package
            imports.append(d)
    if o.static_primary and "static_const" not in feats and o.kind in ("class", "enum"):
        cname = sconst.pop()
        role = rng.choice(STATIC_CONST_PRIMARY)
        imports.append(dict(qname="com.acme.Consts." + cname, star=False, static=True, role="static:" + role))
        members.append(use_static(rng, role, cname, 90)); feats.add("static_const")
    if o.noise and not body_empty and rng.random() < 0.5: rng.shuffle(imports)
    if not body_empty and o.kind in ("class", "enum"):
        # filler members that use names nobody imports
        for j in range(rng.randint(0, 2)):
            members.append(rng.choice([
                field_piece(ty("int"), "z%d" % j),
                field_piece(ty("String"), "t%d" % j, ("lit", '"s"')),
                method_piece("g%d" % j, ty("int"), [(ty("int"), "x")], [], [("return", ("bin", "+", ("id", "x"), ("lit", "1")))]),
                method_piece("h%d" % j, None, [], [], [("if", ("call", None, "ready", []), [("expr", ("call", ("this",), "go", []))])]),
            ] + ([method_piece(uname, None, [(ty("long"), "q%d" % j)], [], [("expr", ("ctorcall", "super", []))], kind="ctor"),
                  method_piece(uname, None, [(ty("char"), "c%d" % j), (ty("int"), "x")], [], [("expr", ("ctorcall", "this", [("id", "x")]))], kind="ctor")]
                 if o.kind == "class" else [])))
    if not body_empty and any(i["star"] for i in imports):
        # a wildcard next to an empty reference table is the business of the wildcard_nofields stream
        members.append({"class": field_piece(ty("int"), "z9"), "enum": field_piece(ty("int"), "z9"),
                        "interface": field_piece(ty("int"), "Z9", ("lit", "1"), mods=""),
                        "annotation": method_piece("z9", ty("int"), [], [], None, mods="", kind="amethod")}[o.kind])
    if o.noise: rng.shuffle(members)
    # ---------------- lines
    L = []          # (text, [import dicts])
    def add(text, imps=()): L.append((text, list(imps)))
    if o.noise and rng.random() < 0.3:
        add("/*"); add(" * Copyright. import fake.Thing;"); add(" */")
    if pkg:
        add("package " + pkg + ";")
        if o.noise and rng.random() < 0.7: add("")
    def imp_src(i):
        return "import " + ("static " if i["static"] else "") + i["qname"] + (".*" if i["star"] else "") + ";"
    idx = 0
    pair_at = rng.randrange(max(1, len(imports) - 1)) if (o.same_line and len(imports) >= 2) else None
    while idx < len(imports):
        i = imports[idx]
        if o.noise:
            r = rng.random()
            if r < 0.12: add("")
            elif r < 0.18: add("// import commented.Out;")
        if pair_at is not None and idx == pair_at:
            j = imports[idx + 1]
            add(imp_src(i) + " " + imp_src(j), [i, j]); idx += 2; feats.add("same_line")
            continue
        src = imp_src(i)
        if o.noise:
            r = rng.random()
            if r < 0.08: src = "  " + src
            elif r < 0.16: src = src + " // keep"
            elif r < 0.20: src = src[:-1] + " ;"
            elif r < 0.24: src = "/* x */ " + src
        add(src, [i]); idx += 1
    if o.noise and rng.random() < 0.6: add("")
    occs, refs, ment = [], [], []
    for a in header["annots"]:
        q = annot_piece(a, "")
        for ln in q.lines: add(ln)
        occs += q.occs; refs += q.refs; ment += q.mentions
    kw = {"class": "class", "interface": "interface", "enum": "enum", "annotation": "@interface"}[o.kind]
    decl = "public " + kw + " " + uname
    occs.append([{"class": "classDeclaration", "interface": "interfaceDeclaration", "enum": "enumDeclaration",
                  "annotation": "annotationTypeDeclaration"}[o.kind], uname])
    if header["bound"] and o.kind in ("class", "interface"):
        decl += "<T extends " + header["bound"] + ">"
        occs += ty_occs(ty(header["bound"])); refs.append(["type_bound", header["bound"]])
    if o.kind == "class" and header["extends"]:
        decl += " extends " + header["extends"]
        occs += ty_occs(ty(header["extends"])); refs.append(["extends", header["extends"]])
    if header["implements"]:
        decl += (" extends " if o.kind == "interface" else " implements ") + ", ".join(header["implements"])
        for nme in header["implements"]:
            occs += ty_occs(ty(nme)); refs.append(["implements", nme])
    add(decl + " {")
    if o.kind == "enum": add("    ONE, TWO;")
    for q in members:
        for ln in q.lines: add(ln)
        occs += q.occs; refs += q.refs; ment += q.mentions
    add("}")
    eol = "\r\n" if o.crlf else "\n"
    text = eol.join(t for t, _ in L) + (eol if o.final_newline else "")
    # the lines as strings.Split(text, "\n") sees them
    split = text.split("\n")
    assert len(split) == len(L) + (1 if o.final_newline else 0)
    lines = []
    for n_, s in enumerate(split):
        lines.append((s, L[n_][1] if n_ < len(L) else []))
    if any(i["star"] for i in imports) and body_empty: feats.add("wildcard_nofields")
    if o.kind in ("enum", "annotation"): feats.add("enum_file")
    if o.crlf: feats.add("crlf")
    jfile = [path, pkg, [[s, [[i["qname"], "1" if i["star"] else "0", "1" if i["static"] else "0"] for i in imps]]
                         for s, imps in lines], occs]
    table = {}
    for s, imps in lines:
        if imps:
            table[s] = [["wildcard" if i["star"] else ("static" if i["static"] else "single"),
                         "*" if i["star"] else i["qname"].split(".")[-1]] for i in imps]
    afile = [path, [s for s, _ in lines], [[s, v] for s, v in table.items()], refs, sorted(set(ment))]
    flags = ["1" if imps else "0" for _, imps in lines]
    return dict(path=path, text=text, jfile=jfile, afile=afile, flags=flags, feats=feats, imports=imports)

def gen_dir(rng, n_files, mk_opts):
    names = rng.sample(UNIT_NAMES, n_files)
    paths = []
    for nm in names:
        d = rng.choice(["", "", "com/acme/", "src/main/java/p/", "lib/"])
        paths.append(d + nm + ".java")
    order = walk_order(paths)
    units = []
    for p in order:
        uname = p.split("/")[-1][:-5]
        units.append(gen_unit(rng, p, uname, mk_opts(rng)))
    return units

def mk_case(name, tags, units):
    feats = set()
    for u in units: feats |= u["feats"]
    if len(units) > 1: feats.add("multi_file")
    return {"name": name, "tags": list(tags) + sorted(feats - set(tags)),
            "input": [[u["jfile"] for u in units], [u["afile"] for u in units]],
            "hin": [[u["path"], u["text"], u["flags"]] for u in units]}

def harness_input(c):
    if "hin" in c: return c["hin"]
    # replay: rebuild the harness input from the model facts
    out = []
    for f in c["input"][0]:
        out.append([f[0], "\n".join(l[0] for l in f[2]), ["1" if l[1] else "0" for l in f[2]]])
    return out

def clean_opts(rng, kinds=("class", "class", "class", "interface")):
    return UnitOpts(kind=rng.choice(kinds), allow_dups=rng.random() < 0.3)

def cases(seed, tier):
    q = tier == "quick"
    out = []
    def stream(tag, n, n_files, mk):
        for i in range(n):
            rng = vlib.rng_for(seed, ID, tag, i)
            nf = n_files(rng) if callable(n_files) else n_files
            out.append(mk_case("%s-%d" % (tag, i), [tag], gen_dir(rng, nf, mk)))
    stream("single_clean", 120 if q else 3000, 1, clean_opts)
    stream("layout", 40 if q else 600, 1,
           lambda r: UnitOpts(kind=r.choice(["class", "interface"]), crlf=r.random() < 0.5, final_newline=r.random() < 0.5,
                              allow_dups=False))
    stream("multi_file", 60 if q else 1500, lambda r: r.randint(2, 5), clean_opts)
    stream("same_line", 30 if q else 500, 1, lambda r: UnitOpts(kind="class", same_line=True, n_imports=r.randint(2, 6), allow_dups=False))
    stream("wildcard_nofields", 15 if q else 200, 1, lambda r: UnitOpts(kind="class", wildcard_nofields=True, n_imports=r.randint(1, 4), noise=r.random() < 0.5))
    stream("enum_file", 25 if q else 400, 1, lambda r: UnitOpts(kind=r.choice(["enum", "enum", "annotation"]), allow_dups=False))
    stream("static_const", 25 if q else 400, 1, lambda r: UnitOpts(kind="class", static_primary=True, n_imports=r.randint(0, 5), allow_dups=False))
    stream("mixed", 50 if q else 2000, lambda r: r.randint(1, 5),
           lambda r: UnitOpts(kind=r.choice(["class", "class", "interface", "enum", "annotation"]), same_line=r.random() < 0.2,
                              wildcard_nofields=r.random() < 0.1, static_primary=r.random() < 0.2,
                              crlf=r.random() < 0.1, final_newline=r.random() < 0.8))
    return out

def canon(out):
    return out

def clauses(spec_out):
    return list(spec_out)

def finding_matches(f, clause, case):
    return clause.split(":")[0] == f.get("clause") and f.get("tag") in case.get("tags", [])

def nontrivial(c):
    mo = c.get("model_out")
    if not mo or isinstance(mo[0], str): return False
    before = ["\n".join(l[0] for l in f[2]) for f in c["input"][0]]
    return list(mo[0][1]) != before

def shrink(inp):
    files, afiles = inp
    # drop a whole file
    if len(files) > 1:
        for i in range(len(files)):
            yield [files[:i] + files[i+1:], afiles[:i] + afiles[i+1:]]
    # drop a line without imports that is not structural, or an import line together with nothing else
    for i, f in enumerate(files):
        for j, l in enumerate(f[2]):
            if l[1] and len(l[1]) == 1:
                f2 = [f[0], f[1], f[2][:j] + f[2][j+1:], f[3]]
                a = afiles[i]
                a2 = [a[0], a[1][:j] + a[1][j+1:], a[2], a[3], a[4]]
                yield [files[:i] + [f2] + files[i+1:], afiles[:i] + [a2] + afiles[i+1:]]

def pretty(c):
    lines = []
    for f in c["input"][0]:
        lines.append("== " + f[0])
        lines += ["   %2d| %s" % (k + 1, l[0]) for k, l in enumerate(f[2])]
    return lines
