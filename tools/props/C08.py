"""C08 -- identical input yields identical output on every run."""
import importlib, os
import vlib

ID = "C08"
MODEL_ENTRY = "C08.model"
SPEC_ENTRY = "C08.spec"
HARNESS_OP = "C08"
FRESH_PROCESS = False          # the C08 operation itself starts one OS process per repetition
CASE_TIMEOUT = "300s"
HARNESS_ENV = {"COCA_BIN": os.path.join(vlib.ROOT, "harness", "bin", "coca")}
REPORTS = ["C01", "C03", "C04", "C07", "C10", "C11", "C11dup", "C12", "C13", "C13fan", "C15", "C16", "C18", "C18svc", "C20"]
# reports computed from a code model or a commit list (no parsing): an execution costs a process start, so they are repeated more often
CHEAP = {"C03", "C04", "C13", "C13fan", "C15"}
RULE = ("for each report (code model C01, the pass histories of C07 (projects that declare one simple class name in several packages and use it without a single-type import), call graph C03, reverse call graph C04, bad smells + `bs -s type` C10, test "
        "smells C11, API list C12, architecture graph C13 and its fan table (SortedByFan, an API-only report), git summaries C15, cloc tables C16, counts / evaluation / "
        "concepts C18 and the service summary of `coca evaluate` (no model: executions compared with each other only), Go and Python front-ends C20) the inputs of that report's own generator; the same operation is "
        "executed N times (4 quick, 8 thorough; three times as often, on three times as many cases, for the reports computed from a model or a commit list), one case of every family of the report's generator first, each in its own OS process, so that every execution draws fresh "
        "map-iteration seeds; the decider compares the normal forms of the N outputs (collections unordered, promised "
        "orders exact up to ties in the sort key); non-trivial = non-empty output; distinct = distinct input")
TRUSTED_BASE = ["the reports' models are tied to the code by the checks of their own properties; here each run is "
                "additionally compared with the model output through that property's canonicalisation",
                "the Go runtime randomises map iteration per range statement: N executions sample N interleavings, "
                "they do not enumerate them (the unbounded claim is the Coq order-freeness theorems over the models)"]
ASSUMPTIONS = []

_mods = {}
def mod(r):
    if r not in _mods:
        _mods[r] = importlib.import_module(r)
    return _mods[r]

def cases(seed, tier):
    per = 6 if tier == "quick" else 60
    n = 4 if tier == "quick" else 8
    out = []
    for r in REPORTS:
        m = mod(r)
        got, first, fams = [], [], set()
        s = seed
        while len(got) < per:
            batch = [c for c in m.cases(s, "quick") if "impl_out" not in c]
            # one case of every family (distinct tag set) of the report's generator first ...
            for c in batch:
                key = tuple(c.get("tags", []))
                if key not in fams and len(first) < 2 * per:
                    fams.add(key); first.append(c)
            # ... then cases at a regular stride
            want = per * 3 if r in CHEAP else per          # the cheap reports are also sampled three times as densely
            step = max(1, len(batch) // want) if tier == "quick" else 1
            got += [c for c in batch[::step] if not any(c is f for f in first)]
            s += 1000003
        chosen = first + got[:per * 3 if r in CHEAP else per]
        for c in chosen:
            reps = n * 3 if r in CHEAP else n
            hop = c.get("harness_op", m.HARNESS_OP)
            hin = m.harness_input(c) if hasattr(m, "harness_input") else c["input"]
            out.append({"name": "%s:%s" % (r, c["name"]), "tags": [r] + list(c.get("tags", [])),
                        "input": [getattr(m, "MODEL_REPORT", r), c["input"]], "hop": hop, "hin": hin, "n": reps, "inner": c})
    return out

def harness_input(c):
    return [c["hop"], c["hin"], str(c["n"])]

def clauses(spec_out):
    return sorted(set(spec_out))

def agree(c):
    """every execution agrees with the report's model under that report's own canonicalisation"""
    m = mod(c["input"][0])
    if getattr(m, "MODEL_ENTRY", "x") is None:
        return True                              # a report without a Coq model: executions are compared with each other only
    canon = getattr(m, "canon", lambda x: x)
    runs = c["impl_out"]
    if not isinstance(runs, list) or not runs or isinstance(runs[0], str):
        return False
    if hasattr(m, "agree") and c.get("inner") is not None:
        # the report's own notion of agreement (C16: with --sort the order of the language sections is the user's)
        return all(m.agree(dict(c["inner"], model_out=c["model_out"], impl_out=r)) for r in runs)
    want = canon(c["model_out"])
    return all(canon(r) == want for r in runs)

def finding_matches(f, clause, case):
    return clause.split(":")[0] == f.get("clause") and f.get("tag") in case.get("tags", [])

def nontrivial(c):
    mo = c.get("model_out")
    return isinstance(mo, list) and len(vlib.sx_dump(mo)) > 8

def pretty(c):
    m = mod(c["input"][0])
    inner = c.get("inner")
    if inner is not None and hasattr(m, "pretty"):
        try:
            return m.pretty(inner)
        except Exception:
            pass
    return [vlib.sx_dump(c["input"])[:4000]]
