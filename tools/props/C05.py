"""C05 -- method rename rewrites only the renamed identifier tokens."""
import copy, random
import vlib
import javagen as J
import C01

ID = "C05"
HARNESS_ENV = {"COCA_BIN": __import__("os").path.join(vlib.ROOT, "harness", "bin", "coca")}
MODEL_ENTRY = "C05.model"
SPEC_ENTRY = "C05.spec"
HARNESS_OP = "C05"
FRESH_PROCESS = True       # listener and rename state are package-level; updateSelfRefs may call log.Fatalln
CASE_TIMEOUT = "60s"
RULE = ("projects of 1-4 conventional classes/interfaces in 1-3 packages (plus, sometimes, a *Test.java file the analysis "
        "skips); the renamed method declared once, overloaded, abstract or in an interface; unrelated methods of the same "
        "name in other classes; call sites receiver-less, through fields / parameters / locals of the class type, static "
        "style, nested as arguments of other calls, via this., on the result of another call (a.makeB().m()); classes in the "
        "default package; identifiers and string literals equal to the old name that "
        "are not sites; old/new names of 1-20 bytes (equal length, shorter, longer); layouts from one statement per line to "
        "the whole class on one line and random line breaks (also inside a declaration); comments and string literals "
        "with multi-byte characters before sites; LF / CRLF line ends, with and without a final newline; rename files "
        "with one or two requests, blank lines, trailing newline, surrounding blanks, CRLF; Functions ordered ascending "
        "or descending; dedicated tagged sub-streams per defect class; non-trivial = at least one site; distinct = distinct input"
        "; every third project is renamed by `coca refactor -R rename.conf -d coca_reporter/deps.json -p DIR` (built binary); method names hold multi-byte letters and '$' in a fifth of the cases; comments hold ISO-8859-1 bytes")
TRUSTED_BASE = C01.TRUSTED_BASE + [
    "the code model handed to the refactoring is computed by the Coq model of the two analysis passes from the generator's "
    "facts (and compared with the real passes' result in every case); the order of CodeDataStruct.Functions (a Go map order "
    "in coca) is fixed by the harness and by the model with the same stable sort",
    "the re-analysis is done by the real passes in a fresh process over the bytes the refactoring left behind"]
ASSUMPTIONS = ["strings.TrimSpace is modelled on the ASCII blanks (\\t \\n \\v \\f \\r and the blank): the rename file holds no other Unicode space around a name",
               "class and package names are ASCII (method names, old and new, hold multi-byte letters and '$' in a fifth of the cases); type names are unique across packages; no nested types, no "
               "inheritance between generated types, no calls in field initialisers",
               "a call is attributed to the renamed method when it is receiver-less in the declaring class, or its receiver is "
               "the class name or a field / parameter / local whose declared type is the plain class name (imported or same "
               "package); this.m() is counted as a site too (Java semantics; this_receiver sub-stream only) and the callee of "
               "a.make().m() belongs to the declared return type of make (chain_call sub-stream only)",
               "all overloads of the old name in the class are renamed (a request names package.Class.method only)"]

KEYWORDS = set("""abstract assert boolean break byte case catch char class const continue default do double else enum extends
final finally float for goto if implements import instanceof int interface long native new package private protected public
return short static strictfp super switch synchronized this throw throws transient try void volatile while true false null
var record yield sealed permits non module open requires exports opens to uses provides with transitive""".split())
CLASS_NAMES = ["Account", "Ledger", "Mailer", "Report", "Widget", "Parser", "Basket", "Tariff"]
PKGS = ["com.acme", "com.acme.core", "org.demo"]
OTHER_METHODS = ["run", "save", "find", "load", "check", "apply", "send", "reset", "of"]
ASCII_STRS = ['"s"', '"a.b()"', '"x -> y"', '""']
NONASCII_STRS = ['"é"', '"中文"', '"naïve café"', '"ß→∑"', '"😀"', '"ü.old()"']

MB_LETTERS = "\u00f6\u00df\u00e9\u00fc\u53d6\u5f97\u03bb"      # legal Java letters of 2 and 3 bytes

def rand_ident(rng, n, taken, multibyte=False):
    first = "abcdefghijklmnopqrstuvwxyz"
    rest = first + first.upper() + "0123456789_$"
    while True:
        s = rng.choice(first) + "".join(rng.choice(rest) for _ in range(n - 1))
        if multibyte:
            # some of the characters become multi-byte letters (the name keeps its number of CHARACTERS)
            cs = list(s)
            for i in rng.sample(range(len(cs)), rng.randint(1, max(1, len(cs) // 2))):
                cs[i] = rng.choice(MB_LETTERS)
            s = "".join(cs)
        if s not in KEYWORDS and s not in taken and s != "_":
            return s

def name_pair(rng, mode, taken):
    """(old, new) with 1..20 characters"""
    lo = rng.choice([1, 1, 2, 3, 3, 4, 5, 6, 8, 10, 13, 17, 20]) if rng.random() < 0.6 else rng.randint(1, 20)
    if mode == "equal": ln = lo
    elif mode == "shorter": lo = max(lo, 2); ln = rng.randint(1, lo - 1)
    elif mode == "longer": lo = min(lo, 19); ln = rng.randint(lo + 1, 20)
    else: ln = rng.randint(1, 20)
    old = rand_ident(rng, lo, taken, multibyte=rng.random() < 0.2)
    new = rand_ident(rng, ln, taken | {old}, multibyte=rng.random() < 0.2)
    return old, new

class Opts:
    def __init__(self, **kw):
        self.layouts = ["std"]; self.comments = 0.0; self.nonascii = False; self.len_mode = "any"
        self.this_calls = False; self.iface = False; self.overloads = False; self.nested = 0.0
        self.static_calls = 0.05; self.two_relates = False; self.eol = "lf"; self.final_nl = True
        self.conf_style = "plain"; self.testfile = 0.15; self.noise = 0.3; self.chain = 0.0; self.nopkg = False
        self.__dict__.update(kw)

def lit_arg(rng, o, old):
    r = rng.random()
    if r < 0.4: return J.Lit(rng.choice(["1", "42", "true", "null", "'c'"]))
    if o.nonascii and r < 0.8: return J.Lit(rng.choice(NONASCII_STRS))
    if r < 0.9: return J.Lit(rng.choice(ASCII_STRS))
    return J.Lit('"%s()"' % old)

def gen_project(rng, o):
    n = rng.randint(2, 4) if (o.iface or rng.random() < 0.85) else 1
    names = rng.sample(CLASS_NAMES, n)
    npk = rng.randint(1, 3)
    pkgs = [rng.choice(PKGS[:npk]) for _ in range(n)]
    if o.nopkg: pkgs = [""] * n
    taken = set(names) | set(OTHER_METHODS) | {"f%d" % i for i in range(9)} | {"p%d" % i for i in range(9)} | \
        {"v%d" % i for i in range(99)} | {"log", "r", "String", "Object"}
    # relates: (class index, old, new)
    old0, new0 = name_pair(rng, o.len_mode, taken)
    relates = [(0, old0, new0)]
    taken |= {old0, new0}
    if o.two_relates and n >= 2:
        old1, new1 = name_pair(rng, o.len_mode, taken)
        relates.append((rng.randrange(n), old1, new1)); taken |= {old1, new1}
    kinds = ["class"] * n
    if o.iface: kinds[0] = "interface"
    elif n > 2 and rng.random() < 0.2: kinds[rng.randrange(1, n)] = "interface"
    # method names per class; which of them are renamed
    meths = []     # per class: list of (name, relate index or None)
    for i in range(n):
        ms = []
        for k, (ci, old, new) in enumerate(relates):
            if ci == i:
                ms.append((old, k))
                if o.overloads: ms += [(old, k)] * rng.randint(1, 2)
            elif rng.random() < 0.35:
                ms.append((old, None))              # an unrelated method of the same name
        for _ in range(rng.randint(0, 3)):
            ms.append((rng.choice(OTHER_METHODS) + (str(rng.randint(0, 9)) if rng.random() < 0.5 else ""), None))
        rng.shuffle(ms)
        meths.append(ms)
    # factory methods: class j declares make<K>() returning class k (for chained calls f.makeK().m())
    factories = {j: [] for j in range(n)}
    if o.chain > 0:
        for j in range(n):
            for k in range(n):
                if rng.random() < 0.6:
                    factories[j].append(("make" + names[k], k))
    old_of_class = {}          # class index -> {old name: relate index}
    for k, (ci, old, new) in enumerate(relates):
        old_of_class.setdefault(ci, {})[old] = k
    all_olds = [r[1] for r in relates]

    units = []
    vcount = [0]
    for i in range(n):
        imports, members, recv = [], [], []      # recv: (variable name, class index)
        for j in range(n):
            if j == i: continue
            if rng.random() < (0.95 if j in old_of_class else 0.6):
                if pkgs[j] != pkgs[i]: imports.append(J.Import(pkgs[j] + "." + names[j]))
                if kinds[i] == "class":
                    fn = "f%d" % j
                    members.append(J.Field(J.T(names[j]), [fn], [rng.choice(["private", "protected", "public"])]))
                    recv.append((fn, j))
        for (_, k) in factories[i]:
            if pkgs[k] != pkgs[i] and not any(imp.qname == pkgs[k] + "." + names[k] for imp in imports):
                imports.append(J.Import(pkgs[k] + "." + names[k]))
        if rng.random() < 0.3: imports.append(J.Import("java.util.List"))
        rng.shuffle(imports)
        imported = {imp.qname.split(".")[-1] for imp in imports}

        def mark(e, j, name):
            """j: class index the call is attributed to (None: not attributed)"""
            e.site_of = old_of_class.get(j, {}).get(name) if j is not None else None
            return e

        def callee_for(j):
            if j in old_of_class and rng.random() < 0.65: return rng.choice(list(old_of_class[j]))
            if rng.random() < 0.2: return rng.choice(all_olds)
            if meths[j] and rng.random() < 0.7: return rng.choice(meths[j])[0]
            return rng.choice(OTHER_METHODS)

        def args_for(scope, allow_nested=True):
            out = []
            for _ in range(rng.choice([0, 0, 0, 1, 1, 2])):
                if allow_nested and scope and rng.random() < o.nested:
                    out.append(call_on(scope, allow_nested=False))
                else:
                    out.append(lit_arg(rng, o, all_olds[0]))
            return out

        def call_on(scope, allow_nested=True):
            r = rng.random()
            chainable = [(v, j) for (v, j) in scope if factories[j]]
            if chainable and rng.random() < o.chain:
                # v.makeK().m(): by the declared return type the callee belongs to class k
                v, j = rng.choice(chainable); fname, k = rng.choice(factories[j])
                nm = callee_for(k) if rng.random() < 0.5 else callee_for(j)
                head = mark(J.Call(J.Name(v), fname, []), None, fname)
                e = mark(J.Call(head, nm, args_for(scope, False)), k, nm)
                e.via_chain = True
                return e
            if scope and r < 0.62:
                v, j = rng.choice(scope); nm = callee_for(j)
                return mark(J.Call(J.Name(v), nm, args_for(scope, allow_nested)), j, nm)
            if r < 0.8:
                nm = callee_for(i)
                return mark(J.Call(None, nm, args_for(scope, allow_nested)), i, nm)
            if r < 0.8 + o.static_calls:
                j = rng.randrange(n)
                if j == i or pkgs[j] == pkgs[i] or names[j] in imported:
                    nm = callee_for(j)
                    return mark(J.Call(J.Name(names[j]), nm, args_for(scope, allow_nested)), j, nm)
            if o.this_calls and r < 0.97:
                nm = callee_for(i)
                e = mark(J.Call(J.This(), nm, args_for(scope, allow_nested)), i, nm)
                e.via_this = True
                return e
            nm = rng.choice(all_olds + OTHER_METHODS)
            return mark(J.Call(J.Name("log"), nm, args_for(scope, allow_nested)), None, nm)

        def stmts_for(scope, k, depth=0):
            out = []
            for _ in range(k):
                r = rng.random()
                if r < 0.12:
                    j = rng.randrange(n)
                    if kinds[j] == "class" and (j == i or pkgs[j] == pkgs[i] or names[j] in imported):
                        vcount[0] += 1; v = "v%d" % vcount[0]
                        out.append(J.Local(J.T(names[j]), v, J.New(J.T(names[j]), [])))
                        scope = scope + [(v, j)]
                        nm = callee_for(j)
                        out.append(J.ExprS(mark(J.Call(J.Name(v), nm, args_for(scope)), j, nm)))
                        continue
                if r < 0.2 and depth < 2:
                    out.append(J.If(J.Name(rng.choice(["flag", "ok"])), stmts_for(scope, rng.randint(1, 2), depth + 1),
                                    stmts_for(scope, 1, depth + 1) if rng.random() < 0.3 else None))
                elif r < 0.26 and depth < 2:
                    out.append(J.While(call_on(scope), stmts_for(scope, 1, depth + 1)))
                elif r < 0.34:
                    vcount[0] += 1
                    out.append(J.Local(J.T("Object"), "v%d" % vcount[0], call_on(scope)))
                elif r < 0.34 + o.noise * 0.3:
                    # tokens equal to the old name that are not sites: a local variable, a string literal
                    nm = rng.choice(all_olds)
                    if rng.random() < 0.5 and not any(isinstance(s, J.S) and s.k == "local" and s.name == nm for s in out) \
                            and nm not in [v for v, _ in scope]:
                        out.append(J.Local(J.T("int"), nm, J.Lit("1")))
                    else:
                        out.append(J.ExprS(mark(J.Call(J.Name("log"), "info", [J.Lit('"%s"' % nm)]), None, "info")))
                else:
                    out.append(J.ExprS(call_on(scope)))
            return out

        if kinds[i] == "class":
            declared_locals = set()
            for (mname, k) in meths[i]:
                params, scope = [], list(recv)
                for j in range(n):
                    if rng.random() < 0.3 and (j == i or pkgs[j] == pkgs[i] or names[j] in imported):
                        params.append((J.T(names[j]), "p%d" % j)); scope.append(("p%d" % j, j))
                if rng.random() < 0.3: params.append((J.T(rng.choice(["int", "String"])), "p9"))
                mods = []
                if rng.random() < 0.25: mods.append(J.Annotation(rng.choice(["Override", "Deprecated"])))
                if rng.random() < 0.8: mods.append(rng.choice(["public", "private", "protected"]))
                if rng.random() < 0.15: mods.append("static")
                abstract = k is not None and not o.overloads and "private" not in mods and "static" not in mods and rng.random() < 0.1
                if abstract: mods.append("abstract")
                ret = None if rng.random() < 0.6 else J.T(rng.choice(["Object", "String", "int"]))
                body = None
                if not abstract:
                    body = stmts_for(scope, rng.randint(0, 5))
                    # no two locals of one name in a method
                    seen, body2 = set(), []
                    for s in body:
                        if isinstance(s, J.S) and s.k == "local":
                            if s.name in seen: continue
                            seen.add(s.name)
                        body2.append(s)
                    body = body2
                    if ret is not None:
                        body.append(J.Return(call_on(scope) if rng.random() < 0.5 else J.Lit("null")))
                m = J.Method(mname, ret, params, body, mods)
                m.site_of = k
                members.append(m)
            for (fname, k) in factories[i]:
                fm = J.Method(fname, J.T(names[k]), [], [J.Return(J.Lit("null"))], ["public"]); fm.site_of = None
                members.append(fm)
            umods = ["public"] + (["abstract"] if any(isinstance(m, J.Method) and "abstract" in m.mods for m in members) else [])
        else:
            for (mname, k) in meths[i]:
                params = [(J.T("int"), "p9")] if rng.random() < 0.3 else []
                ret = None if rng.random() < 0.6 else J.T(rng.choice(["Object", "String"]))
                m = J.Method(mname, ret, params, None, ["public"] if rng.random() < 0.3 else [], kind="imethod")
                m.site_of = k
                members.append(m)
            for (fname, k) in factories[i]:
                fm = J.Method(fname, J.T(names[k]), [], None, [], kind="imethod"); fm.site_of = None
                members.append(fm)
            umods = ["public"]
        u = J.Unit((pkgs[i].replace(".", "/") + "/" if pkgs[i] else "") + names[i] + ".java", pkgs[i], imports, kinds[i], names[i], members, mods=umods)
        units.append(u)
    # a test file: the analysis skips it, so nothing in it may change
    if rng.random() < o.testfile:
        tname = names[0] + "Test"
        body = [J.ExprS(J.Call(J.Name("f0"), relates[0][1], []))]
        body[0].e.site_of = None
        tm = J.Method("test" + relates[0][1], None, [], body, ["public"]); tm.site_of = None
        units.append(J.Unit((pkgs[0].replace(".", "/") + "/" if pkgs[0] else "") + tname + ".java", pkgs[0], [], "class", tname,
                            [J.Field(J.T(names[0]), ["f0"], ["private"]), tm], mods=["public"]))
    def q(ci, m): return (pkgs[ci] + "." if pkgs[ci] else "") + names[ci] + "." + m
    conf_lines = ["%s -> %s" % (q(ci, old), q(ci, new)) for ci, old, new in relates]
    return units, relates, conf_lines

def rename_unit(u, relates):
    """a deep copy of the unit with every site renamed"""
    u2 = copy.deepcopy(u)
    def fix(n):
        if isinstance(n, J.Node):
            k = getattr(n, "site_of", None)
            if k is not None and hasattr(n, "name"):
                n.name = relates[k][2]
            for key, v in list(vars(n).items()):
                if key not in ("toks",): fix(v)
        elif isinstance(n, (list, tuple)):
            for v in n: fix(v)
        elif isinstance(n, dict):
            for v in n.values(): fix(v)
    fix(u2)
    return u2

def site_tokens(u):
    """token index -> relate index, for declarations and attributed calls"""
    out = {}
    def visit(n):
        if isinstance(n, J.Node):
            k = getattr(n, "site_of", None)
            if k is not None and getattr(n, "name_tok", None) is not None:
                out[n.name_tok] = (k, n)
            for key, v in vars(n).items():
                if key not in ("toks",): visit(v)
        elif isinstance(n, (list, tuple)):
            for v in n: visit(v)
    visit(u.members)
    return out

def chain_tokens(u):
    """callee tokens of calls whose receiver is itself a call"""
    out = set()
    def visit(n):
        if isinstance(n, J.Node):
            if getattr(n, "via_chain", False): out.add(n.name_tok)
            for key, v in vars(n).items():
                if key not in ("toks",): visit(v)
        elif isinstance(n, (list, tuple)):
            for v in n: visit(v)
    visit(u.members)
    return out

def eol_transform(text, eol, final_nl):
    if not final_nl and text.endswith("\n"): text = text[:-1]
    if eol == "crlf": text = text.replace("\n", "\r\n")
    return text

def conf_text(rng, lines, style):
    if style == "plain": return "\n".join(lines)
    if style == "trailing_nl": return "\n".join(lines) + "\n"
    if style == "blank_lines": return "\n" + "\n\n".join(lines) + "\n\n"
    if style == "noise_lines": return "# renames\n" + "\n".join(lines) + "\nnothing to see\n"
    if style == "blanks": return "\n".join(rng.choice([" %s", "%s ", "  %s  ", "\t%s"]) % l for l in lines)
    if style == "wide_arrow": return "\n".join(l.replace(" -> ", "  ->  ") for l in lines)
    if style == "crlf": return "\r\n".join(lines) + "\r\n"
    raise ValueError(style)

def build_case(rng, o):
    units, relates, conf_lines = gen_project(rng, o)
    layout_seed = rng.getrandbits(60)
    layout = rng.choice(o.layouts)
    comments = o.comments
    units2 = [rename_unit(u, relates) for u in units]
    for u, u2 in zip(units, units2):
        J.render(u, random.Random(layout_seed), layout, comments=comments, nonascii=o.nonascii)
        J.render(u2, random.Random(layout_seed), layout, comments=comments, nonascii=o.nonascii)
    order = C01.walk_order([u.path for u in units])
    facts, facts2, texts, cands, tags = [], [], [], [], set()
    nsites = 0
    expected = {}
    for p in order:
        u = next(x for x in units if x.path == p)
        u2 = next(x for x in units2 if x.path == p)
        facts.append([p, "0", "1", J.unit_fact(u)])
        facts2.append([p, "0", "1", J.unit_fact(u2)])
        text = eol_transform(u.text, o.eol, o.final_nl)
        texts.append([p, text])
        expected[p] = eol_transform(u2.text, o.eol, o.final_nl)
        sites = site_tokens(u) if not p.endswith("Test.java") else {}
        chain_toks = chain_tokens(u)
        olds = {r[1]: k for k, r in enumerate(relates)}
        cl = []
        per_line = {}
        for ti, t in enumerate(u.toks):
            if t.kind == "lit" or t.text not in olds: continue
            line = u.lines[t.line - 1]
            bcol = len(line[:t.col].encode("utf-8", "surrogateescape"))
            k, node = sites.get(ti, (None, None))
            rk = k if k is not None else olds[t.text]
            old, new = relates[rk][1], relates[rk][2]
            cl.append([str(t.line), str(bcol), str(len(old.encode("utf-8", "surrogateescape"))), new, "1" if k is not None else "0"])
            if ti in chain_toks: tags.add("chain_call")
            if k is None: continue
            nsites += 1
            per_line.setdefault(t.line, []).append(len(new) - len(old))
            if bcol != t.col: tags.add("nonascii_prefix")
            if isinstance(node, J.Method):
                if node.kind == "imethod": tags.add("iface_decl")
                elif u.toks[node.first].line != t.line: tags.add("decl_split")
            elif getattr(node, "via_this", False): tags.add("this_receiver")
        for ln, ds in per_line.items():
            if len(ds) >= 2 and any(d != 0 for d in ds): tags.add("multi_site_line")
        cands.append([p, cl])
        # the two independent computations of the expected bytes agree
        lines = u.text.split("\n")
        for c in sorted(cl, key=lambda c: (int(c[0]), -int(c[1]))):
            if c[4] != "1": continue
            li = int(c[0]) - 1
            b = lines[li].encode("utf-8", "surrogateescape")
            lines[li] = (b[:int(c[1])] + c[3].encode("utf-8", "surrogateescape") + b[int(c[1]) + int(c[2]):]).decode("utf-8", "surrogateescape")
        assert eol_transform("\n".join(lines), o.eol, o.final_nl) == expected[p], "generator: renderings disagree for " + p
    conf = conf_text(rng, conf_lines, o.conf_style)
    if o.conf_style in ("blanks", "wide_arrow"): tags.add("conf_blanks")
    if o.conf_style == "crlf": tags.add("conf_crlf")
    fn_order = rng.choice(["asc", "desc"])
    inp = [facts, texts, conf, fn_order, cands, facts2]
    return inp, sorted(tags), nsites, expected

STREAMS = {
    # every site alone on its line, ASCII only: must pass
    "clean":      (60, lambda rng: Opts(layouts=["std"], static_calls=0.08)),
    "clean_cmt":  (25, lambda rng: Opts(layouts=["std"], comments=0.05)),
    "overload":   (25, lambda rng: Opts(layouts=["std"], overloads=True)),
    "eol":        (25, lambda rng: Opts(layouts=["std"], eol=rng.choice(["lf", "crlf"]), final_nl=rng.random() < 0.5)),
    "conf_ok":    (20, lambda rng: Opts(layouts=["std"], conf_style=rng.choice(["trailing_nl", "blank_lines", "noise_lines"]))),
    "two":        (25, lambda rng: Opts(layouts=["std"], two_relates=True)),
    # several sites per line
    "equal_len":  (40, lambda rng: Opts(layouts=["oneline", "std"], len_mode="equal", nested=0.5, comments=0.03)),
    "multi":      (50, lambda rng: Opts(layouts=["oneline", "std", "std"], len_mode=rng.choice(["shorter", "longer"]), nested=0.5)),
    "two_multi":  (15, lambda rng: Opts(layouts=["oneline"], two_relates=True)),
    # multi-byte text before a site
    "nonascii":   (50, lambda rng: Opts(layouts=["std"], nonascii=True, comments=rng.choice([0.0, 0.1, 0.2]), nested=0.4,
                                         len_mode="equal" if rng.random() < 0.3 else "any")),
    # the declaration is not on the line the model records / is an interface method
    "split":      (40, lambda rng: Opts(layouts=["random", "sparse"], len_mode="equal" if rng.random() < 0.5 else "any")),
    "iface":      (30, lambda rng: Opts(layouts=["std", "std", "oneline"], iface=True)),
    "this":       (25, lambda rng: Opts(layouts=["std"], this_calls=True)),
    "chain":      (30, lambda rng: Opts(layouts=["std"], chain=0.35)),
    "nopkg":      (15, lambda rng: Opts(layouts=["std"], nopkg=True)),
    "conf_fmt":   (20, lambda rng: Opts(layouts=["std"], conf_style=rng.choice(["blanks", "wide_arrow", "crlf"]))),
    "mixed":      (60, lambda rng: Opts(layouts=["std", "oneline", "random", "sparse"], nonascii=rng.random() < 0.4,
                                         comments=rng.choice([0.0, 0.05]), nested=0.3, this_calls=rng.random() < 0.2,
                                         overloads=rng.random() < 0.2, two_relates=rng.random() < 0.2,
                                         eol=rng.choice(["lf", "lf", "crlf"]), final_nl=rng.random() < 0.8,
                                         iface=rng.random() < 0.1)),
}

def cases(seed, tier):
    mult = 1 if tier == "quick" else 15
    out = []
    for stream, (n, mk) in STREAMS.items():
        for i in range(n * mult):
            rng = vlib.rng_for(seed, ID, stream, i)
            o = mk(rng)
            inp, tags, nsites, expected = build_case(rng, o)
            out.append({"name": "%s-%d" % (stream, i), "tags": [stream] + tags, "input": inp, "nsites": nsites})
    return out

def canon(out):
    # (status files deps [re-analysis]): the re-analysis is an observable of the implementation only
    if not isinstance(out, list) or len(out) < 3 or (out and isinstance(out[0], str)):
        return out
    return out[:3]

def clauses(spec_out):
    return sorted(set(spec_out))

def finding_matches(f, clause, case):
    cls = f.get("clauses") or [f.get("clause")]
    return clause.split(":")[0] in cls and f.get("tag") in case.get("tags", [])

def nontrivial(c):
    if "nsites" in c: return c["nsites"] > 0
    return any(x[4] == "1" for f in c["input"][4] for x in f[1])

def shrink(inp):
    facts, texts, conf, order, cands, facts2 = inp
    targets = set()
    for l in conf.split("\n"):
        parts = l.split(" -> ")[0].strip().split(".")
        if len(parts) >= 3: targets.add("/".join(parts[:-1]) + ".java")
    # drop a file that holds no site and does not declare a renamed method
    for i in range(len(facts)):
        p = facts[i][0]
        if p in targets or any(x[4] == "1" for c in cands if c[0] == p for x in c[1]): continue
        yield [facts[:i] + facts[i + 1:], [t for t in texts if t[0] != p], conf, order,
               [c for c in cands if c[0] != p], [f for f in facts2 if f[0] != p]]
    if order == "desc":
        yield [facts, texts, conf, "asc", cands, facts2]

def pretty(c):
    inp = c["input"]
    lines = ["rename file: %r   functions ordered %s" % (inp[2], inp[3])]
    for p, t in inp[1]:
        lines.append("== " + p)
        lines += ["   | " + l for l in t.split("\n")]
    for p, cl in inp[4]:
        for x in cl:
            lines.append("candidate %s line %s byte %s len %s -> %s %s" % (p, x[0], x[1], x[2], x[3], "SITE" if x[4] == "1" else "not a site"))
    return lines
