"""C01 -- every declared Java type and method appears exactly once in the code model."""
import vlib
import javagen as J

ID = "C01"
MODEL_ENTRY = "C01.model"
SPEC_ENTRY = "C01.spec"
HARNESS_OP = "java.passes"
FRESH_PROCESS = True       # listener state is process-global: one process per tree
CASE_TIMEOUT = "60s"
RULE = ("directory trees of 1-8 conventional compilation units (classes and interfaces with fields, constructors, "
        "methods with bodies, annotations with arguments, generic and array types), Maven and flat layouts, "
        "main / test / ignored / testData / non-Java files, random layouts from one token per line to a whole class "
        "on one line; non-trivial = at least one selected unit with a method; distinct = distinct input"
        "; every other tree is analysed under the name DIR/. (the walk root is then called '.'), 15% of the units have Windows line ends, trees hold a testData-named source file and sources under dot-directories"
        '; every third project is analysed after ANOTHER tree (same simple class names, own package) in the same process; two trees in five from inside the project (`-p .`)')
TRUSTED_BASE = ["modelled, not verified: the ANTLR Java lexer/parser/tree walker (the listener callbacks are modelled over "
                "facts the generator derives from its abstract syntax), filepath.Walk order and go-gitignore matching "
                "(supplied by the generator), Go map iteration"]
ASSUMPTIONS = ["units are conventional: one top-level type, no nested/anonymous types, no type parameters on methods"]

def walk_order(paths):
    """filepath.Walk: depth first, directory entries in lexical order"""
    tree = {}
    for p in paths:
        node = tree
        parts = p.split("/")
        for x in parts[:-1]:
            node = node.setdefault(x, {})
        node[parts[-1]] = None
    out = []
    def rec(node, prefix):
        for name in sorted(node):
            if node[name] is None: out.append(prefix + name)
            else: rec(node[name], prefix + name + "/")
    rec(tree, "")
    return out

def gen_tree(rng):
    project = J.rand_project(rng, rng.randint(1, 6))
    maven = rng.random() < 0.6
    files = {}   # relpath -> (ignored, unit or None, text)
    for i in range(len(project)):
        u = J.rand_unit(rng, i, project, path_dir="src/main/java" if maven else "")
        if not maven:
            u.path = u.path.lstrip("/")
        files[u.path] = (False, u, u.text)
    # test files, ignored files, testData, non-java
    extra = rng.randint(0, 4)
    for k in range(extra):
        r = rng.random()
        proj2 = [(rng.choice(J.PKG_POOL), "X%d" % k)]
        u = J.rand_unit(rng, 0, proj2)
        if r < 0.3:
            name = "X%dTest" % k if rng.random() < 0.5 else "X%dTests" % k
            u2 = J.rand_unit(rng, 0, [(proj2[0][0], name)], path_dir="src/main/java" if maven else "")
            u2.path = u2.path.lstrip("/")
            files[u2.path] = (False, u2, u2.text)
        elif r < 0.5:
            u.path = "src/test/java/" + proj2[0][0].replace(".", "/") + "/X%d.java" % k
            files[u.path] = (False, u, u.text)
        elif r < 0.7:
            u.path = "generated/X%d.java" % k
            files[u.path] = (True, u, u.text)
        elif r < 0.85:
            u.path = "testData/X%d.java" % k
            files[u.path] = (False, u, u.text)
        else:
            files["docs/notes%d.txt" % k] = (False, None, "class Fake {}\n")
    # a FILE whose name contains "testData" (LatestData.java) next to the sources: skipped itself by the path rule,
    # its later siblings must still be analysed; and sources under a dot-directory, which are ordinary sources
    if rng.random() < 0.25:
        pk = rng.choice([q for q, (ig, u, _) in files.items() if u is not None and u != "EMPTY"]).rsplit("/", 1)
        u = J.rand_unit(rng, 0, [(rng.choice(J.PKG_POOL), "LatestData")])
        u.path = (pk[0] + "/" if len(pk) == 2 else "") + "LatestData.java"
        if u.path not in files: files[u.path] = (False, u, u.text)
    if rng.random() < 0.25:
        u = J.rand_unit(rng, 0, [(rng.choice(J.PKG_POOL), "Hidden%d" % extra)])
        u.path = rng.choice([".config", ".mvn/wrapper", "src/.internal"]) + "/Hidden%d.java" % extra
        files[u.path] = (False, u, u.text)
    if rng.random() < 0.12:
        cu = J.colliding_unit(rng, "com.coll", "Tally", path_dir="src/main/java" if maven else "")
        if cu is not None and cu.path not in files: files[cu.path] = (False, cu, cu.text)
    # zero-byte files before their siblings: an empty .java file (a valid compilation unit that declares nothing)
    # and a .gitkeep; neither contributes anything nor hides what follows
    if rng.random() < 0.25:
        pk = rng.choice([q for q, (ig, u, _) in files.items() if u is not None]).rsplit("/", 1)
        d0 = pk[0] + "/" if len(pk) == 2 else ""
        if d0 + "A0Blank.java" not in files: files[d0 + "A0Blank.java"] = (False, "EMPTY", "")
        files[d0 + ".gitkeep"] = (False, None, "")
    gitignore = "generated/\n" if any(ig for ig, _, _ in files.values()) or rng.random() < 0.3 else ""
    # a pattern that matches a FILE (not a directory): its siblings listed after it must still be analysed
    cands = [p for p, (ig, u, _) in files.items() if u is not None and u != "EMPTY" and not ig]
    if len(cands) >= 2 and rng.random() < 0.3:
        p = rng.choice(sorted(cands)[:-1])
        base = p.rsplit("/", 1)[-1]
        if sum(1 for q in files if q.rsplit("/", 1)[-1] == base) == 1:
            gitignore += (base if rng.random() < 0.5 else base[:2] + "*.java" if sum(1 for q in files if q.rsplit("/", 1)[-1].startswith(base[:2])) == 1 else base) + "\n"
            files[p] = (True, files[p][1], files[p][2])
    if gitignore:
        files[".gitignore"] = (False, None, gitignore)
    order = walk_order(list(files))
    facts, texts = [], []
    for p in order:
        ig, u, text = files[p]
        if u == "EMPTY":
            facts.append([p, "1" if ig else "0", "0", ["", "", "0", [], "class", "", [], [], [], []]])
        elif u is not None:
            u.path = p
            facts.append([p, "1" if ig else "0", "1", J.unit_fact(u)])
        else:
            facts.append([p, "1" if ig else "0", "0", ["", "", "0", [], "class", "", [], [], [], []]])
        texts.append([p, text])
    return facts, texts

def harness_input(c):
    return c["texts"]

def _sort_model(nodes):
    out = []
    for d in nodes:
        d = list(d)
        d[7] = sorted(d[7], key=lambda f: vlib.sx_dump(f))
        out.append(d)
    return sorted(out, key=lambda d: vlib.sx_dump([d[2], d[0], d[3]]))

def canon(out):
    if not isinstance(out, list) or len(out) != 2 or (out and isinstance(out[0], str)):
        return out
    return [_sort_model(out[0]), _sort_model(out[1])]

def clauses(spec_out):
    return list(spec_out)

def finding_matches(f, clause, case):
    return clause.split(":")[0] == f.get("clause") and f.get("tag") in case.get("tags", [])

def nontrivial(c):
    return any(f[2] == "1" and any(m[0] != "field" for m in f[3][9]) for f in c["input"])

def cases(seed, tier):
    n = 150 if tier == "quick" else 3000
    out = []
    for i in range(n):
        rng = vlib.rng_for(seed, ID, "tree", i)
        facts, texts = gen_tree(rng)
        out.append({"name": "tree-%d" % i, "tags": ["tree"], "input": facts, "texts": texts})
    return out

def pretty(c):
    lines = []
    for p, t in c["texts"]:
        lines.append("== " + p)
        lines += ["   | " + l for l in t.split("\n")]
    return lines
