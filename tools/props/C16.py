"""C16 -- per-directory line counts add up and agree with the whole-tree count (coca cloc)."""
import hashlib, os, random
import vlib

ID = "C16"
MODEL_ENTRY = "C16.model"
SPEC_ENTRY = "C16.spec"
HARNESS_OP = "C16"
FRESH_PROCESS = False          # every case is one run of the coca binary in its own scratch directories
CASE_TIMEOUT = "60s"
HARNESS_ENV = {"COCA_BIN": os.path.join(vlib.ROOT, "harness", "bin", "coca")}
RULE = ("directory trees materialised on disk with ground truth: 0-6 immediate subdirectories (plain, dotted, "
        "VCS/IDE/report names .git .svn .hg .idea coca_reporter, empty ones), 0-8 files each (nested up to two "
        "levels) plus 0-3 files in the root, in Java/Go/Python/JavaScript/Shell, every file made of a known "
        "number of code lines, full-line comments and blank lines (incl. empty and comment-only files); "
        "DIR given as t, ../t, ./t, t/, proj/src, a/b or .; --include-ext subsets (incl. an unused extension); "
        "--top-size 0/1/2/30, --sort default/name/lines/code/complexity; both reports produced by the `coca cloc` binary and read back from "
        "coca_reporter/cloc.csv, coca_reporter/sort_cloc.json and the stdout tables; tagged sub-streams for a "
        "language found only in an IDE/report directory (named in the header with an all-zero column: accepted), "
        "subdirectories named like *.git (fixed by 5353339: must pass), DIR whose characters "
        "start a relative path (cutset trim), ties; non-trivial = at least two rows and two languages "
        "(by-directory) or at least two files (top-file); distinct = distinct input")
TRUSTED_BASE = ["NOT modelled: github.com/boyter/scc (tokenizer, language detection, goroutine pipeline, JSON "
                "formatter): the model takes each file's language, extension and (code, comment, blank) counts "
                "as given (oracle hypothesis), validated only on the generated files by this check",
                "modelled, not verified: scc's directory walk rules used by the glue (path deny list matched by "
                "strings.HasSuffix, --include-ext allow list), its language order (files desc, name asc), "
                "filepath.Base/Ext/Clean/Join on the generated shapes, sort.Slice by a stable sort "
                "(tie groups compared as sets), tablewriter's cell layout (parsed back by the harness)"]
ASSUMPTIONS = ["file and directory names are ASCII without blanks, '|' or ','; no .gitignore/.ignore files, symlinks, "
               "binary or minified files; nested directories are never named like a VCS directory",
               "code lines contain no comment markers, quotes or string literals, comment lines start with the "
               "language's line-comment marker, blank lines are empty or whitespace only",
               "top-file: files of one language have distinct code counts whenever --top-size could cut inside a "
               "tie group (sort.Slice is not stable and scc's file order is scheduling dependent)",
               "at most five languages (processTopFile prints no table at all for more than five)"]

LANGS = {  # language -> (extension, line comment, code line pool)
    # branching lines give files of the same length different complexity figures (scc counts them; the top-file
    # order must not depend on them)
    "Go": ("go", "//", ["package a", "func F() {", "}", "var x = 1", "x := y + 1", "return x", "if x > 1 {", "for i := 0; i < 3; i++ {"]),
    "Java": ("java", "//", ["class A {", "int x = 1;", "}", "return x;", "void f() {", "if (x > 1) {", "while (x < 9) {", "if (a && b || c) {"]),
    "Python": ("py", "#", ["x = 1", "def f(a):", "    return a", "pass", "y = x + 2", "if a and b:", "for i in a:"]),
    "JavaScript": ("js", "//", ["var a = 1;", "function f() {", "}", "let b = a + 2;", "if (a > 1) {", "for (;;) {"]),
    "Shell": ("sh", "#", ["echo hi", "x=1", "ls -l", "cd ..", "exit 0", "if [ -f x ]; then", "fi"]),
}
LANG_NAMES = list(LANGS)
PLAIN_DIRS = ["a", "b", "src", "lib", "ab", "a.b", "docs", "pkg", "x_y", "t", "tt", "main", "v1.2", "proj", "java", "resources"]
SKIP_DIRS = [".git", ".svn", ".hg", ".idea", "coca_reporter"]
IDE_REPORT_DIRS = [".idea", "coca_reporter"]
VCS_SUFFIX_DIRS = ["repo.git", "old.svn", "x.hg"]
DENY = [".git", ".hg", ".svn"]
NESTED = ["", "", "", "sub", "sub/deep", "ab", "t", ".idea", "src"]
DIRARGS = ["t", "../t", "./t", "t/", "proj/src", "a/b", ".", "../zz"]

def norm(dirarg):
    return os.path.normpath(dirarg)

# ------------------------------------------------------------------ file contents (a function of the input)
def content_of(f):
    comps, lang, ext, code, comment, blank = f
    code, comment, blank = int(code), int(comment), int(blank)
    h = hashlib.sha256(("/".join(comps) + "|%s|%d|%d|%d" % (lang, code, comment, blank)).encode()).digest()
    rng = random.Random(int.from_bytes(h[:8], "big"))
    _, marker, pool = LANGS[lang]
    lines = [("  " if rng.random() < 0.2 else "") + rng.choice(pool) for _ in range(code)]
    lines += [("\t" if rng.random() < 0.2 else "") + marker + rng.choice(["", " note", " TODO later", " x = 1"]) for _ in range(comment)]
    lines += [rng.choice(["", "", "  ", "\t"]) for _ in range(blank)]
    rng.shuffle(lines)
    if not lines:
        return ""
    text = "\n".join(lines)
    if lines[-1].strip() == "" or rng.random() < 0.8:
        text += "\n"
    return text

def harness_input(case):
    inp = case["input"]
    return [inp, [["/".join(f[0]), content_of(f)] for f in inp[6]], case.get("sort", "")]

# ------------------------------------------------------------------ trees
def mk_file(comps, lang, code, comment, blank):
    return [list(comps), lang, LANGS[lang][0], str(code), str(comment), str(blank)]

def gen_files(rng, prefix, n, langs, counter):
    out = []
    for _ in range(n):
        lang = rng.choice(langs)
        sub = rng.choice(NESTED)
        counter[0] += 1
        stem = rng.choice(["f", "Main", "util", "x", "t", "ab", "src_", "A"]) + str(counter[0])
        comps = list(prefix) + ([s for s in sub.split("/") if s] if prefix else []) + [stem + "." + LANGS[lang][0]]
        r = rng.random()
        if r < 0.06:
            c, m, b = 0, 0, 0
        elif r < 0.12:
            c, m, b = 0, rng.randint(1, 3), rng.randint(0, 2)
        else:
            c, m, b = rng.randint(1, 12), rng.randint(0, 4), rng.randint(0, 4)
        out.append(mk_file(comps, lang, c, m, b))
    return out

def gen_tree(rng, n_sub=None, skip_prob=0.3, allow_files_in_skipped=True):
    langs = rng.sample(LANG_NAMES, rng.randint(1, 5))
    n_sub = rng.randint(0, 6) if n_sub is None else n_sub
    names = []
    pool = list(PLAIN_DIRS)
    skips = list(SKIP_DIRS)
    for _ in range(n_sub):
        if skips and rng.random() < skip_prob:
            d = skips.pop(rng.randrange(len(skips)))
        else:
            d = pool.pop(rng.randrange(len(pool)))
        names.append(d)
    names.sort()
    counter = [0]
    files = gen_files(rng, [], rng.choice([0, 0, 1, 2, 3]), langs, counter)
    for d in names:
        if d in SKIP_DIRS and not allow_files_in_skipped:
            continue
        dl = [l for l in langs if rng.random() < 0.7] or [rng.choice(langs)]
        files += gen_files(rng, [d], rng.choice([0, 1, 2, 3, 4, 5, 6, 8]), dl, counter)
    return names, files

def distinct_codes(files):
    used = {}
    for f in files:
        s = used.setdefault(f[1], set())
        c = int(f[3])
        while c in s:
            c += 1
        s.add(c)
        f[3] = str(c)

def mk_input(mode, dirarg, include, top, dirs, files):
    return [mode, dirarg, norm(dirarg), list(include), str(top), list(dirs), files]

def pick_include(rng):
    r = rng.random()
    if r < 0.6:
        return []
    if r < 0.66:
        return ["rb"]
    exts = [v[0] for v in LANGS.values()]
    return rng.sample(exts, rng.randint(1, 3))

# ------------------------------------------------------------------ shape predicates -> tags
def in_scope(inp, f):
    return not inp[3] or f[2] in inp[3]

def shape_tags(inp):
    mode, dirarg, root, include, top, dirs, files = inp
    tags = []
    scoped = [f for f in files if in_scope(inp, f)]
    def top_dir(f):
        return f[0][0] if len(f[0]) > 1 else None
    if mode == "bydir":
        counted = {f[1] for f in scoped if top_dir(f) not in SKIP_DIRS}
        ide = {f[1] for f in scoped if top_dir(f) in IDE_REPORT_DIRS}
        if ide - counted:
            tags.append("ignored_only_language")
        if any(top_dir(f) is not None and top_dir(f) not in SKIP_DIRS and top_dir(f).endswith(tuple(DENY)) for f in scoped):
            tags.append("vcs_suffix_dir")
    else:
        for f in scoped:
            rel = "/".join(f[0])
            loc = rel if root == "." else root + "/" + rel
            shown = loc.lstrip(dirarg)
            if shown.startswith("/"):
                shown = shown[1:]
            if shown != rel:
                tags.append("cutset_trim")
                break
        codes = {}
        for f in scoped:
            codes.setdefault(f[1], []).append(f[3])
        if any(len(v) != len(set(v)) for v in codes.values()):
            tags.append("ties")
    return tags

def case(name, stream, inp):
    return {"name": name, "tags": [stream, inp[0]] + shape_tags(inp), "input": inp}

# ------------------------------------------------------------------ streams
def cases(seed, tier):
    q = tier == "quick"
    out = []
    # by-directory, random
    for i in range(110 if q else 3000):
        rng = vlib.rng_for(seed, ID, "bydir", i)
        dirs, files = gen_tree(rng)
        out.append(case("bydir-%d" % i, "random", mk_input("bydir", rng.choice(DIRARGS), pick_include(rng), 30, dirs, files)))
    # by-directory, a language that lives only in an IDE / report directory: it is found in the whole tree, so the
    # header may name it (all-zero column); these cases must pass
    for i in range(12 if q else 200):
        rng = vlib.rng_for(seed, ID, "ignored_only", i)
        dirs, files = gen_tree(rng, n_sub=rng.randint(1, 4), skip_prob=0.0)
        have = {f[1] for f in files}
        missing = [l for l in LANG_NAMES if l not in have] or [LANG_NAMES[0]]
        if not [l for l in LANG_NAMES if l not in have]:
            files = [f for f in files if f[1] != missing[0]]
        d = rng.choice(IDE_REPORT_DIRS)
        dirs = sorted(set(dirs + [d]))
        files += [mk_file([d, "w%d.%s" % (k, LANGS[missing[0]][0])], missing[0], rng.randint(1, 5), 0, 0) for k in range(rng.randint(1, 2))]
        out.append(case("ignored-only-%d" % i, "ignored_only", mk_input("bydir", rng.choice(DIRARGS), [], 30, dirs, files)))
    # by-directory, subdirectories named like a VCS directory (suffix match of scc's deny list): the whole-tree
    # count skips them, MergeDirKeys (fix 5353339) names their languages; these cases must pass
    for i in range(12 if q else 200):
        rng = vlib.rng_for(seed, ID, "vcs_suffix", i)
        dirs, files = gen_tree(rng, n_sub=rng.randint(0, 3), skip_prob=0.1)
        d = rng.choice(VCS_SUFFIX_DIRS)
        dirs = sorted(set(dirs + [d]))
        langs = rng.sample(LANG_NAMES, rng.randint(1, 2))
        files += [mk_file([d, "g%d.%s" % (k, LANGS[l][0])], l, rng.randint(1, 6), rng.randint(0, 2), 0)
                  for k, l in enumerate(langs)]
        out.append(case("vcs-suffix-%d" % i, "vcs_suffix", mk_input("bydir", rng.choice(DIRARGS), [], 30, dirs, files)))
    # by-directory, degenerate trees
    for i in range(10 if q else 100):
        rng = vlib.rng_for(seed, ID, "degenerate", i)
        k = i % 5
        if k == 0:
            dirs, files = [], []
        elif k == 1:
            dirs, files = sorted(rng.sample(PLAIN_DIRS, 3)), []
        elif k == 2:
            dirs, files = [], gen_files(rng, [], 3, LANG_NAMES, [0])
        elif k == 3:
            dirs = sorted(rng.sample(SKIP_DIRS, 3))
            files = gen_files(rng, [], 2, LANG_NAMES[:2], [0])
        else:
            dirs = sorted(rng.sample(PLAIN_DIRS, 2))
            files = gen_files(rng, [dirs[0]], 4, LANG_NAMES, [0])
        out.append(case("degenerate-%d" % i, "degenerate", mk_input("bydir", rng.choice(DIRARGS), pick_include(rng), 30, dirs, files)))
    # top-file, random (distinct code counts per language)
    for i in range(90 if q else 3000):
        rng = vlib.rng_for(seed, ID, "top", i)
        dirs, files = gen_tree(rng)
        distinct_codes(files)
        out.append(case("top-%d" % i, "random", mk_input("top", rng.choice(["../zz", "../zz", "./q", "q/", "."] + DIRARGS),
                                                          pick_include(rng), rng.choice([0, 1, 2, 30]), dirs, files)))
        # the order in which the languages are printed is the user's choice (--sort); what each table holds is not
        out[-1]["sort"] = rng.choice(["", "", "name", "lines", "code", "complexity"])
    # top-file, DIR whose characters start a relative path
    for i in range(14 if q else 200):
        rng = vlib.rng_for(seed, ID, "cutset", i)
        dirs, files = gen_tree(rng, n_sub=rng.randint(1, 3), skip_prob=0.0)
        dirarg = rng.choice(["a/b", "src/main", "t", "./t", "proj/src"])
        first = rng.choice([c for c in dirarg if c.isalpha()])
        d = first + rng.choice(["", "b", "x", first])
        dirs = sorted(set(dirs + [d]))
        files += gen_files(rng, [d], rng.randint(1, 3), LANG_NAMES[:2], [100])
        distinct_codes(files)
        out.append(case("cutset-%d" % i, "cutset", mk_input("top", dirarg, [], rng.choice([2, 30]), dirs, files)))
    # top-file, ties (everything is displayed, so a tie group is never cut)
    for i in range(12 if q else 200):
        rng = vlib.rng_for(seed, ID, "ties", i)
        dirs, files = gen_tree(rng, n_sub=rng.randint(1, 3))
        files = files[:25]
        for f in files:
            f[3] = str(rng.choice([0, 1, 2, 2, 3]))
        out.append(case("ties-%d" % i, "ties", mk_input("top", rng.choice(["../zz", "."]), [], 30, dirs, files)))
    return out

# ------------------------------------------------------------------ glue
def canon(out):
    if not isinstance(out, list) or not out or not isinstance(out[0], str) or out[0].startswith("!"):
        return out
    if out[0] == "bydir":
        return ["bydir", out[1], sorted(out[2])]
    if out[0] == "top":
        secs = [[s[0], sorted(s[1], key=lambda f: (-int(f[1]), f[0]))] for s in out[1]]
        tabs = [[s[0], sorted(s[1], key=lambda f: (-int(f[0]), f[1]))] for s in out[2]]
        return ["top", secs, tabs]
    return out

def agree(c):
    a, b = canon(c["model_out"]), canon(c["impl_out"])
    if c.get("sort") and isinstance(a, list) and isinstance(b, list) and a[:1] == ["top"] and b[:1] == ["top"]:
        # --sort COLUMN: the languages come in the order asked for (the model prints scc's default order)
        a = ["top", sorted(a[1]), sorted(a[2])]; b = ["top", sorted(b[1]), sorted(b[2])]
    return a == b

def clauses(spec_out):
    return list(spec_out)

def finding_matches(f, clause, case):
    return clause.split(":")[0] == f.get("clause") and f.get("tag") in case.get("tags", [])

def nontrivial(c):
    inp = c["input"]
    files = [f for f in inp[6] if in_scope(inp, f)]
    if inp[0] == "bydir":
        rows = [d for d in inp[5] if d not in SKIP_DIRS]
        return len(rows) >= 2 and len({f[1] for f in files}) >= 2
    return len(files) >= 2

def shrink(inp):
    mode, dirarg, root, include, top, dirs, files = inp
    for i in range(len(dirs)):
        d = dirs[i]
        yield [mode, dirarg, root, include, top, dirs[:i] + dirs[i+1:], [f for f in files if not (len(f[0]) > 1 and f[0][0] == d)]]
    for i in range(len(files)):
        yield [mode, dirarg, root, include, top, dirs, files[:i] + files[i+1:]]
    if include:
        yield [mode, dirarg, root, [], top, dirs, files]
    for i, f in enumerate(files):
        if int(f[4]) or int(f[5]):
            g = list(f); g[4] = "0"; g[5] = "0"
            yield [mode, dirarg, root, include, top, dirs, files[:i] + [g] + files[i+1:]]

def pretty(c):
    mode, dirarg, root, include, top, dirs, files = c["input"]
    lines = ["coca cloc %s %s%s" % (dirarg, "--by-directory" if mode == "bydir" else "--top-file --top-size %s" % top,
                                    ((" --include-ext " + ",".join(include)) if include else "") + ((" --sort " + c["sort"]) if c.get("sort") else "")),
             "immediate subdirectories: %r" % (dirs,)]
    for f in files:
        lines.append("  %-28s %-10s code=%s comment=%s blank=%s" % ("/".join(f[0]), f[1], f[3], f[4], f[5]))
    return lines
