"""C15 -- git summaries are consistent with the parsed history."""
import vlib

ID = "C15"
MODEL_ENTRY = "C15.model"
SPEC_ENTRY = "C15.spec"
HARNESS_OP = "C15"
FRESH_PROCESS = False
CASE_TIMEOUT = "10s"
RULE = ("synthesised histories (0-40 commits, 1-5 authors, 1-12 live files) of add/modify/delete/rename "
        "operations over file identities, renames printed in git's brace and full-path notations (incl. "
        "moves into / out of a directory, to the root, out of / into a directory whose name contains braces, chains of renames), delete-then-recreate, repeated "
        "touches, commits that list no file, ties in the sort keys, conventional and plain commit messages; non-trivial = at least one "
        "rename or delete; distinct = distinct input"
        '; a wide_repo stream: histories with 17-27 files and authors materialised as real repositories and read through the tables of `coca git -b`, `-t`, `-o` (no -f), every other one through the three tables of ONE invocation `coca git -b -t -o`')
TRUSTED_BASE = ["modelled, not verified: Go regexp (hand-compiled scanners in Lib/Scan.v), sort.Slice (stable "
                "insertion sort in the model; rows compared as sequences of keys and multisets inside tie groups), "
                "time.Parse on YYYY-MM-DD dates"]
ASSUMPTIONS = ["paths contain no '{', '}', ' => ', tab or newline; dates are valid YYYY-MM-DD",
               "the generator prints renames with a re-implementation of git's pprint_rename (validated against real git in C14)"]

def pprint_rename(a, b):
    la, lb = len(a), len(b)
    pfx = 0
    i = 0
    while i < la and i < lb and a[i] == b[i]:
        if a[i] == "/":
            pfx = i + 1
        i += 1
    sfx = 0
    adj = 1 if pfx else 0
    oa, ob = la - 1, lb - 1
    # the C code starts at the terminating NUL (equal on both sides)
    oa, ob = la, lb
    while pfx - adj <= oa and pfx - adj <= ob and (a[oa:oa+1] == b[ob:ob+1]):
        if a[oa:oa+1] == "/":
            sfx = la - oa
        oa -= 1; ob -= 1
        if oa < 0 or ob < 0:
            break
    amid = max(0, la - pfx - sfx)
    bmid = max(0, lb - pfx - sfx)
    if pfx + sfx:
        return a[:pfx] + "{" + a[pfx:pfx+amid] + " => " + b[pfx:pfx+bmid] + "}" + a[la-sfx:]
    return a + " => " + b

TYPES = ["feat", "fix", "docs", "refactor", "test", "chore"]
DIRS = ["", "src/", "src/main/", "src/main/java/", "docs/", "cmd/", "pkg/a/", "pkg/a/b/", "pkg/b/"]
NAMES = ["a.txt", "b.go", "Main.java", "README.md", "x y.txt", "util.go", "c.py"]

def gen_history(rng, ncommits=None):
    n = rng.randint(0, 40) if ncommits is None else ncommits
    authors = ["Alice", "Bob B", "carol3", "D.E.", "eve"][:rng.randint(1, 5)]
    live = []
    dead = []
    commits = []
    day = 0
    used = set()
    for k in range(n):
        day += rng.choice([0, 0, 1, 1, 2, 7, 30])
        date = "20%02d-%02d-%02d" % (19 + day // 336, 1 + (day // 28) % 12, 1 + day % 28)
        rev = "%07x" % rng.getrandbits(28)
        while rev in used:
            rev = "%07x" % rng.getrandbits(28)
        used.add(rev)
        author = rng.choice(authors)
        changes = []
        touched = set()
        for _ in range(rng.randint(1, 4) if rng.random() > 0.07 else 0):      # 7%: a commit that lists no file
            r = rng.random()
            if r < 0.35 or not live:
                if dead and rng.random() < 0.4:
                    p = rng.choice(dead); dead.remove(p)
                else:
                    p = rng.choice(DIRS) + rng.choice(NAMES)
                    if rng.random() < 0.5:
                        p = rng.choice(DIRS) + "f%d_" % rng.randint(0, 30) + rng.choice(NAMES)
                if p in live or p in touched:
                    continue
                live.append(p); touched.add(p)
                changes.append([rng.randint(1, 50), 0, p, p, "0", p, "create"])
            elif r < 0.65:
                p = rng.choice(live)
                if p in touched: continue
                touched.add(p)
                changes.append([rng.randint(0, 30), rng.randint(0, 30), p, p, "0", p, ""])
            elif r < 0.8:
                if rng.random() < 0.15:
                    # the listed history begins after the file was created (range-limited log, merge-introduced
                    # file): its first mention is its deletion
                    p = rng.choice(DIRS) + "gone%d_" % rng.randint(0, 50) + rng.choice(NAMES)
                    if p in live or p in touched or p in dead: continue
                    touched.add(p); dead.append(p)
                    changes.append([0, rng.randint(1, 40), p, p, "1", p, "delete"])
                    continue
                p = rng.choice(live)
                if p in touched: continue
                touched.add(p); live.remove(p); dead.append(p)
                changes.append([0, rng.randint(1, 40), p, p, "1", p, "delete"])
            else:
                p = rng.choice(live)
                if p in touched: continue
                base = p.split("/")[-1]
                q = rng.choice(DIRS) + (base if rng.random() < 0.6 else "r%d_" % rng.randint(0, 30) + base)
                if q == p or q in live or q in touched:
                    continue
                touched.add(p); touched.add(q)
                live.remove(p); live.append(q)
                changes.append([rng.randint(0, 5), rng.randint(0, 5), p, q, "0", pprint_rename(p, q), ""])
        if not changes and rng.random() < 0.5:
            continue                 # otherwise: a commit that lists no file (synthesised directly; an --allow-empty commit is one)
        r = rng.random()
        if r < 0.6:
            ty = rng.choice(TYPES)
            scope = "(%s)" % rng.choice(["core", "api", "a b", "x)y"]) if rng.random() < 0.4 else ""
            msg = "%s%s: %s" % (ty, scope, rng.choice(["do it", "update: more", "x", "fix(a): b"]))
        else:
            ty = ""
            msg = rng.choice(["initial commit", "wip", "Merge stuff", "update readme:now", "no type :here", ":", "fix (x): y"])
        commits.append([rev, author, date, msg, ty, changes])
    return commits

def family(rng, kind):
    if kind == "rename_into_parent":
        return [["a000001", "A", "2020-01-01", "feat: add", "feat", [[3, 0, "x/d/a.txt", "x/d/a.txt", "0", "x/d/a.txt", "create"]]],
                ["a000002", "B", "2020-01-02", "refactor: move up", "refactor", [[0, 0, "x/d/a.txt", "x/a.txt", "0", pprint_rename("x/d/a.txt", "x/a.txt"), ""]]],
                ["a000003", "A", "2020-01-03", "fix: touch", "fix", [[1, 1, "x/a.txt", "x/a.txt", "0", "x/a.txt", ""]]]]
    if kind == "rename_into_child":
        return [["b000001", "A", "2020-01-01", "feat: add", "feat", [[3, 0, "x/a.txt", "x/a.txt", "0", "x/a.txt", "create"]]],
                ["b000002", "B", "2020-01-02", "move down", "", [[0, 0, "x/a.txt", "x/d/a.txt", "0", pprint_rename("x/a.txt", "x/d/a.txt"), ""]]]]
    if kind == "full_path_rename":
        return [["c000001", "A", "2020-01-01", "feat: add", "feat", [[3, 0, "d/a.txt", "d/a.txt", "0", "d/a.txt", "create"]]],
                ["c000002", "B", "2020-02-02", "fix: to root", "fix", [[1, 0, "d/a.txt", "a.txt", "0", pprint_rename("d/a.txt", "a.txt"), ""]]],
                ["c000003", "B", "2020-02-03", "fix: again", "fix", [[1, 0, "a.txt", "a.txt", "0", "a.txt", ""]]]]
    if kind == "delete_recreate":
        return [["d000001", "A", "2020-01-01", "feat: add", "feat", [[3, 0, "a.txt", "a.txt", "0", "a.txt", "create"]]],
                ["d000002", "B", "2020-01-05", "chore: rm", "chore", [[0, 3, "a.txt", "a.txt", "1", "a.txt", "delete"]]],
                ["d000003", "C", "2020-03-01", "feat: again", "feat", [[2, 0, "a.txt", "a.txt", "0", "a.txt", "create"]]]]
    if kind == "rename_chain":
        cs = [["e000000", "A", "2020-01-01", "feat: add", "feat", [[3, 0, "p0/a.txt", "p0/a.txt", "0", "p0/a.txt", "create"]]]]
        for i in range(rng.randint(1, 4)):
            o, n = "p%d/a.txt" % i, "p%d/a.txt" % (i + 1)
            cs.append(["e00000%d" % (i + 1), rng.choice(["A", "B"]), "2020-01-%02d" % (i + 2), "refactor: mv", "refactor",
                       [[0, 0, o, n, "0", pprint_rename(o, n), ""]]])
        return cs
    if kind == "brace_dir_rename":
        # a directory whose NAME contains braces (template trees: {{cookiecutter.name}}/...): a move out of it or into it
        # is printed in the full-path form `old => new` (no common prefix, no common suffix)
        tpl = rng.choice(["{{cookiecutter.name}}", "{{tpl}}", "{x}"])
        old, new = tpl + "/setup.py", "templates/setup.py.j2"
        if rng.random() < 0.5:
            old, new = "templates/setup.py.j2", tpl + "/setup.py"
        cs = [["f000001", "A", "2019-01-05", "feat: add", "feat", [[3, 0, old, old, "0", old, "create"]]],
              ["f000002", "B", "2019-02-01", "fix: touch", "fix", [[1, 1, old, old, "0", old, ""]]],
              ["f000003", "C", "2019-04-20", "refactor: move", "refactor", [[0, 0, old, new, "0", old + " => " + new, ""]]],
              ["f000004", "A", "2019-05-02", "fix: after", "fix", [[2, 0, new, new, "0", new, ""]]]]
        return cs[:rng.randint(3, 4)]
    raise ValueError(kind)

FAMILIES = ["brace_dir_rename", "rename_into_parent", "rename_into_child", "full_path_rename", "delete_recreate", "rename_chain"]

def gen_wide_repo(rng):
    """a history with more files and more authors than a table page (18-27 of each): one file created per commit,
    then appends; materialised as a REAL repository by the harness and read through `coca git -b -t -o` (no -f):
    every existing file and every author must be in the tables"""
    nfiles, nauthors = rng.randint(17, 27), rng.randint(17, 27)
    authors = ["Dev %02d" % i for i in range(nauthors)]
    commits, files = [], []
    day = 0
    for i in range(max(nfiles, nauthors) + rng.randint(0, 5)):
        day += rng.choice([1, 1, 2, 9])
        date = "20%02d-%02d-%02d" % (19 + day // 336, 1 + (day // 28) % 12, 1 + day % 28)
        author = authors[i % nauthors]
        if i < nfiles:
            p = "w%d/file%02d.txt" % (i % 3, i); files.append(p)
            ch = [rng.randint(1, 9), 0, p, p, "0", p, "create"]
        else:
            p = rng.choice(files)
            ch = [rng.randint(1, 5), 0, p, p, "0", p, ""]
        ty = rng.choice(TYPES)
        commits.append(["%07x" % (0xabc0000 + i), author, date, "%s: step %d" % (ty, i), ty, [ch]])
    return commits

HARNESS_ENV = {"COCA_BIN": __import__("os").path.join(vlib.ROOT, "harness", "bin", "coca")}

def canon(out):
    if not isinstance(out, list) or len(out) != 5:
        return out
    team = sorted(out[0], key=lambda r: (-int(r[2]), r[0]))
    age = sorted(out[1], key=lambda r: (r[1], r[0]))
    top = sorted(out[2], key=lambda r: (-int(r[1]), r[0]))
    cl = sorted([[k, sorted(v)] for k, v in out[4]])
    return [team, age, top, out[3], cl]

def clauses(spec_out):
    return list(spec_out)

def finding_matches(f, clause, case):
    return clause.split(":")[0] == f.get("clause") and f.get("tag") in case.get("tags", [])

def nontrivial(c):
    return any(ch[2] != ch[3] or ch[4] == "1" for cm in c["input"] for ch in cm[5])

def cases(seed, tier):
    n_random = 500 if tier == "quick" else 20000
    out = []
    for kind in FAMILIES:
        for j in range(3 if tier == "quick" else 20):
            rng = vlib.rng_for(seed, ID, kind, j)
            out.append({"name": "%s-%d" % (kind, j), "tags": [kind], "input": family(rng, kind)})
    for i in range(n_random):
        rng = vlib.rng_for(seed, ID, "random", i)
        out.append({"name": "random-%d" % i, "tags": ["random"], "input": gen_history(rng)})
    for j in range(6 if tier == "quick" else 60):
        rng = vlib.rng_for(seed, ID, "wide_repo", j)
        out.append({"name": "wide_repo-%d" % j, "tags": ["wide_repo"], "input": gen_wide_repo(rng), "harness_op": "C15.cli"})
    # which cases satisfy the (executable) hypothesis of the refinement theorem
    wf = vlib.run_driver([("C15.wf", c["input"]) for c in out])
    for c, w in zip(out, wf):
        c["tags"].append("wf" if w == "1" else "outside_wf")
    return out

def shrink(inp):
    for i in range(len(inp)):
        yield inp[:i] + inp[i+1:]
    for i, c in enumerate(inp):
        if len(c[5]) > 1:
            for j in range(len(c[5])):
                c2 = list(c); c2[5] = c[5][:j] + c[5][j+1:]
                yield inp[:i] + [c2] + inp[i+1:]

def pretty(c):
    lines = []
    for cm in c["input"]:
        lines.append("%s %s %s %r type=%r" % (cm[0], cm[1], cm[2], cm[3], cm[4]))
        for ch in cm[5]:
            lines.append("    +%s -%s %s%s file=%r mode=%r" % (ch[0], ch[1], ch[2], "" if ch[2] == ch[3] else " -> " + ch[3], ch[5], ch[6]))
    return lines
