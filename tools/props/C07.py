"""C07 -- a file's analysis result is independent of other files, order and repetition."""
import vlib
import javagen as J
import C01, C10, C12
import javawide as W

ID = "C07"
MODEL_ENTRY = "C07.model"
SPEC_ENTRY = "C07.spec"
HARNESS_OP = "C07"
FRESH_PROCESS = True
CASE_TIMEOUT = "120s"
RULE = ("one OS process per case runs a history of passes over one tree: an identifier pass over all main files "
        "(its result is the identifier set of every full-pass run), then 10-16 runs in random order: identifier pass and "
        "full pass over all main files, a random permutation, a random subset, and all again; bad-smell pass over all "
        "threshold-family files, a subset, all again; API scan over all controller files, a subset, all again; the same "
        "call-graph and reverse-call-graph query twice. Main files reuse simple class names across packages and "
        "variable names across methods with different types. The decider compares, on the implementation's output, the "
        "entries of every file across all runs of the same pass; non-trivial = at least two runs with entries; "
        "distinct = distinct input")
TRUSTED_BASE = C01.TRUSTED_BASE + [
    "the API scan is run with empty identifier / dependency maps (its listener only reads them for interface-declared APIs, "
    "outside the generated projects); refusedBequest and graphConnectedCall findings are dropped",
    "call-graph and reverse-call-graph repetitions are decided on the implementation's output only (their models are "
    "tied to the code by the multi-query streams of C03 and C04)"]
ASSUMPTIONS = ["files are conventional units (C01); every class has a distinct package-qualified name"]

def gen(rng):
    files = []   # (path, kind, key, fact, text)
    # ---- main files, simple names reused across packages
    project = J.rand_project(rng, rng.randint(2, 5))
    for (p, n) in list(project):
        if rng.random() < 0.5:
            others = [q for q in J.PKG_POOL if (q, n) not in project]
            if others: project.append((rng.choice(others), n))
    methods = []
    for i in range(len(project)):
        u = J.rand_unit(rng, i, project, path_dir="main")
        files.append((u.path, "main", u.pkg + "." + u.name, J.unit_fact(u), u.text))
        for m in u.members:
            if isinstance(m, J.Method) and m.kind == "method": methods.append(u.pkg + "." + u.name + "." + m.name)
    # ---- a fixed-shape group: a three-step caller chain (graph queries with reverse look-up, repeated) and a
    # file whose field initialiser calls through a field named like the last parameter of another file
    def unit(name, members, imports=()):
        u = J.Unit("main/com/chain/%s.java" % name, "com.chain", list(imports), "class", name, members)
        J.render(u, rng, rng.choice(["std", "std", "sparse"]))
        files.append((u.path, "main", "com.chain." + name, J.unit_fact(u), u.text))
        return u
    v = rng.choice(["r", "src", "unit"])
    unit("Vault", [J.Method("save", None, [], [], ["public"])])
    unit("Keeper", [J.Field(J.T("Vault"), ["vault"], ["private"]),
                    J.Method("keep", None, [], [J.ExprS(J.Call(J.Name("vault"), "save", []))], ["public"])])
    unit("Portal", [J.Field(J.T("Keeper"), ["keeper"], ["private"]),
                    J.Method("handle", None, [], [J.ExprS(J.Call(J.Name("keeper"), "keep", []))], ["public"])])
    unit("Depot", [J.Method("size", J.T("int"), [], [J.Return(J.Lit("1"))], ["public"])])
    unit("Gauge", [J.Method("size", J.T("int"), [], [J.Return(J.Lit("2"))], ["public"])])
    unit("Ledger", [J.Field(J.T("Gauge"), [v], ["private"], {v: J.New(J.T("Gauge"), [])}),
                    J.Field(J.T("int"), ["rows"], ["private"], {"rows": J.Call(J.Name(v), "size", [])}),
                    J.Method("show", None, [], [], ["public"])])
    unit("Loader", [J.Method("first", None, [], [], ["public"]),
                    J.Method("run", None, [(J.T("Depot"), v)], [J.ExprS(J.Call(J.Name(v), "size", []))], ["public"])])
    chain_keys = ["com.chain.Loader", "com.chain.Ledger"]
    # ---- bad-smell files
    if rng.random() < 0.7:
        facts, texts, _ = C10.gen(rng, rng.choice(C10.FAMILIES))
        for f, (p, t) in zip(facts, texts):
            files.append((p, "bs", p, f, t))
    # ---- API files
    if rng.random() < 0.7:
        facts, texts, _, _ = C12.gen(rng)
        for f, (p, t) in zip(facts, texts):
            files.append((p, "api", f[0] + "." + f[4], f, t))
    # ---- unconventional files (nested / anonymous / enum / record types ...): full-pass runs without a model
    for i in range(rng.choice([0, 2, 2, 3])):
        g = W.G(rng, nonascii=False, depth=3)
        p = "wide/W%d.java" % i
        text = g.unit(pkg="wide.p%d" % i)
        # an anonymous class with a method of its own, created inside a method body
        text += "class Holder%d { void make%d() { Runnable r = new Runnable() { public void run%d() { } }; r.run%d(); } }\n" % (i, i, i, i)
        files.append((p, "wide", p, [], text))
    order = C01.walk_order([f[0] for f in files])
    files = [next(f for f in files if f[0] == p) for p in order]
    idx = {k: [i for i, f in enumerate(files) if f[1] == k] for k in ("main", "bs", "api", "wide")}
    def subset(l):
        if len(l) <= 1: return list(l)
        k = rng.randint(1, len(l) - 1)
        return sorted(rng.sample(l, k))
    def perm(l):
        l = list(l); rng.shuffle(l); return l
    M = idx["main"]
    first = ["full", M]
    runs = [["ident", M], ["ident", perm(M)], ["ident", perm(subset(M))], ["ident", M],
            ["full", perm(M)], ["full", perm(subset(M))], ["full", M]]
    if idx["bs"]:
        runs += [["bs", idx["bs"]], ["bs", subset(idx["bs"])], ["bs", idx["bs"]]]
    if idx["api"]:
        runs += [["api", idx["api"]], ["api", subset(idx["api"])], ["api", idx["api"]]]
    if idx["wide"]:
        Wd = idx["wide"]
        runs += [["fullw", Wd], ["fullw", perm(Wd)], ["fullw", perm(subset(Wd))], ["fullw", Wd]]
    ix = {f[2]: i for i, f in enumerate(files)}
    runs += [["full", [ix[k] for k in chain_keys]], ["full", [ix[chain_keys[1]]]], ["full", [ix[k] for k in chain_keys]]]
    runs += [["call", "com.chain.Vault.save", "1"]] * 3 + [["rcall", "com.chain.Vault.save"]] * 2
    if methods:
        root = rng.choice(methods)
        runs += [["call", root, "1" if rng.random() < 0.3 else "0"]] * 2
        tgt = rng.choice(methods)
        runs += [["rcall", tgt]] * 2
    rng.shuffle(runs)
    # the first full pass over all main files provides the dependencies of the graph queries
    pos = min([i for i, r in enumerate(runs) if r[0] in ("call", "rcall")] or [len(runs)])
    runs.insert(rng.randint(0, pos), first)
    runs = [[r[0], [str(i) for i in r[1]]] if r[0] in ("ident", "full", "fullw", "bs", "api") else r for r in runs]
    return files, runs

def harness_input(c):
    return [[[f[0], f[1], f[2], t] for f, t in zip(c["input"][0], c["texts"])], c["input"][1]]

def _canon_entry(e):
    if isinstance(e, list) and len(e) == 11 and isinstance(e[7], list):
        e = list(e); e[7] = sorted(e[7], key=lambda f: vlib.sx_dump(f))
    return e

def canon(out):
    if not isinstance(out, list) or (out and isinstance(out[0], str) and out[0].startswith("!")):
        return out
    res = []
    for o in out:
        if isinstance(o, str) or (isinstance(o, list) and len(o) == 1 and isinstance(o[0], str)):
            res.append("skip")
        elif isinstance(o, list) and o and isinstance(o[0], str):
            res.append(o)                       # crash marker
        elif isinstance(o, list) and o and all(isinstance(p, list) and len(p) == 2 and isinstance(p[1], str) for p in o):
            res.append("skip")                  # serialised entries of unconventional files: no model
        else:
            res.append([[p[0], _canon_entry(p[1])] if isinstance(p, list) and len(p) == 2 else p for p in o])
    return res

def clauses(spec_out):
    return sorted(set(spec_out))

def finding_matches(f, clause, case):
    return clause.split(":")[0] == f.get("clause") and f.get("tag") in case.get("tags", [])

def nontrivial(c):
    mo = c.get("model_out")
    return isinstance(mo, list) and sum(1 for o in mo if isinstance(o, list) and len(o) > 0) >= 2

def cases(seed, tier):
    n = 120 if tier == "quick" else 2500
    out = []
    for i in range(n):
        rng = vlib.rng_for(seed, ID, "history", i)
        files, runs = gen(rng)
        out.append({"name": "history-%d" % i, "tags": ["history"],
                    "input": [[[f[0], f[1], f[2], f[3]] for f in files], runs], "texts": [f[4] for f in files]})
    return out

def shrink(inp):
    files, runs = inp
    firstfull = next((i for i, r in enumerate(runs) if r[0] == "full"), None)
    for i in range(len(runs)):
        if i != firstfull:
            yield [files, runs[:i] + runs[i + 1:]]

def pretty(c):
    lines = ["runs: %r" % (c["input"][1],)]
    for f, t in zip(c["input"][0], c["texts"]):
        lines.append("== [%s] %s (%s)" % (f[1], f[0], f[2]))
        lines += ["   | " + l for l in t.split("\n")]
    return lines
