"""C17 -- every TODO/FIXME comment is reported once with its line; nothing else is."""
import vlib

ID = "C17"
MODEL_ENTRY = "C17.model"
SPEC_ENTRY = "C17.spec"
HARNESS_OP = "C17"
FRESH_PROCESS = False
CASE_TIMEOUT = "10s"
RULE = ("source trees of 1-5 paths (nested directories, 9 selected and 6 other extensions, extension lists "
        "from empty to coca's default, extensions of several parts such as .d.ts / .gradle.kts, lists with an empty element) whose files are sequences of 0-60 abstract items: code tokens (incl. the "
        "words TODO/FIXME, division, backslash), double-quoted / back-quoted / character literals containing "
        "//, /*, */, # and TODO with every escape of the grammar, and line, block and hash comments with any "
        "text (empty, one character, marker only, TODO / todo: / FIXME(al): / TODO (a.b+c@d) x, keyword glued "
        "to the marker, keyword mentioned later, assignee-like text outside the name alphabet, multi-line with "
        "and without star decoration, stars in the text, LF and CRLF); a stream inside the hypotheses of the "
        "theorems; one dedicated sub-stream per suspected defect shape (hash comment that is blank / glued to "
        "its keyword / one character before the keyword, star in the message, block comment unterminated at "
        "end of file, single-quoted strings, non-Java escapes, a directory named like a source file); "
        "non-trivial = a selected file holds at least one TODO/FIXME comment; distinct = distinct input"
        '; every other tree is scanned as DIR/.; every third tree is observed through two executions of the `todo` command in one process (a decoy run with another extension list first; coca_reporter/simple-todos.json of the second run)')
TRUSTED_BASE = ["modelled, not verified: the ANTLR runtime (longest match, rule order, error recovery that drops "
                "the scanned text and the offending character), reduced to the rules that can contain / # or a quote; "
                "Go regexp (hand-compiled scanner for the assignee expression, tied to its source text), "
                "strings.TrimSpace / ToUpper on ASCII, filepath.Walk"]
ASSUMPTIONS = ["ASCII sources; extensions are non-empty and start with a dot; no .gitignore and no path containing "
               "'testData' in the scanned tree",
               "messages are compared as the documented reading (DESIGN 7/C17) says: the closing marker of a block "
               "comment, every star and every line end count as blanks, and blank runs are not significant "
               "(so 'a*b' reported as 'a b' is not a finding)",
               "behind a block comment that is never closed the property only asks for 'no crash': the comments "
               "before it are judged exactly, rows from the open tail are tolerated",
               "the harness turns a panic of AnalysisPath into the status field of the observation"]

SQ, BT, DQ, BS = "'", "`", '"', "\\"

def render(kind, body):
    return {"code": body, "str": DQ + body + DQ, "tpl": BT + body + BT, "chr": SQ + body + SQ,
            "sq": SQ + body + SQ, "line": "//" + body, "block": "/*" + body + "*/",
            "ublock": "/*" + body, "hash": "#" + body}[kind]

def render_items(items):
    return "".join(render(k, b) for k, b in items)

def valid(items):
    """the segmentation is what it claims to be (mirror of the informal contract of the item kinds)"""
    for i, (k, b) in enumerate(items):
        nxt = render(*items[i + 1]) if i + 1 < len(items) else None
        if k in ("line", "hash"):
            if "\n" in b or "\r" in b or (k == "hash" and "\f" in b):
                return False
            if nxt is not None and not (nxt[:1] in ("\n", "\r")):
                return False
        if k == "block" and "*/" in b:
            return False
        if k == "ublock" and (i + 1 < len(items) or "*/" in b):
            return False
        if k == "code":
            if any(c in b for c in "\"'`#") or "//" in b or "/*" in b or b.endswith("/"):
                return False
    return True

# ------------------------------------------------------------------ text pools
KEYWORDS = ["TODO", "todo", "FIXME", "fixme", "Todo", "ToDo", "FixMe", "tOdO", "fIXME", "TODOS", "todoist", "FIXMEs"]
NAMES_OK = ["al", "a.b+c@d", "Bob B", "x_1", "a-b", "phodal", "A", "9", " ", "a b.c", "@me", "-", "_"]
NAMES_BAD = ["", "a,b", "a/b", "a(b", "x:y", "#1", "a'b", "[x]"]
WORDS = ["fix", "this", "later", "x", "a1", "refactor", "see", "TODO", "todo", "FIXME", "http", "q?", "(now)", "[1]",
         "a,b", "it's", '"quoted"', "100%", "a/b", "x//y", "#3", "p:q", ":", "-", "`tick`", "(al)", "\\n", "e",
         "a*b", "*", "**bold**", "*/"]
PLAIN_WORDS = ["fix", "this", "later", "x", "a1", "refactor", "see", "soon", "q", "cleanup"]
CODE = ["x", "foo", "bar_1", "42", "3.14", "0x1F", "1e+5", "(", ")", "{", "}", "[", "]", ";", ",", "=", "==", "+", "-", "*",
        "/ ", "a / b", "/=", "<<=", ">>>=", "->", "::", "@", "...", ".", " ", "  ", "\t", "$v", "~", "?", ":", "%", "^", "&&",
        "TODO", "todo", "FIXME", "return", "null", "true", "0", "07", "0b1", "*/ ", "* "]
EOLS = ["\n", "\n", "\n", "\r\n", "\n\n", "\n  ", "\n\t"]

def message(rng, words=WORDS, lo=0, hi=5):
    return " ".join(rng.choice(words) for _ in range(rng.randint(lo, hi)))

def todo_body(rng, words=WORDS, block=False):
    """text after the comment marker of a comment that must be reported"""
    lead = rng.choice(["", " ", " ", "  ", "\t"])
    kw = rng.choice(KEYWORDS[:9]) if rng.random() < 0.85 else rng.choice(KEYWORDS)
    sep1 = rng.choice(["", ":", " ", ": ", " : ", "::", " :: ", " "])
    r = rng.random()
    if r < 0.35:
        asg = "(" + rng.choice(NAMES_OK) + ")"
    elif r < 0.45:
        asg = "(" + rng.choice(NAMES_BAD) + ")"
    elif r < 0.5:
        asg = "(" + rng.choice(NAMES_OK)          # never closed
    else:
        asg = ""
    sep2 = rng.choice(["", ":", " ", ": ", ":: ", " : "]) if asg else ""
    msg = message(rng, words)
    if block and rng.random() < 0.4:
        # continuation lines, with or without star decoration
        eol = rng.choice(["\n", "\r\n"])
        if msg.strip() == "":
            msg = "x"       # keyword, separator and assignee stay on the first line
        for _ in range(rng.randint(1, 3)):
            msg += eol + rng.choice([" * ", "   ", " *", "", "\t* ", " ** "]) + message(rng, words, 0, 3)
        msg += rng.choice(["", eol + " ", eol])
    trail = rng.choice(["", " ", "  ", "\t"])
    return lead + kw + sep1 + asg + sep2 + msg + trail

def plain_body(rng, words=WORDS, block=False):
    """text of a comment that must NOT be reported"""
    r = rng.random()
    if r < 0.12:
        return ""
    if r < 0.2:
        return rng.choice([" ", "  ", "\t", "x", "-", "!", "/", "T", "TOD", "FIXM", " TO DO", "TO-DO"])
    if r < 0.5:
        return rng.choice([" see ", " not a ", " x", " -", " XX", " (al) ", " :", " @"]) + rng.choice(KEYWORDS) + " " + message(rng, words)
    b = " " + rng.choice(["note", "nothing", "plain", "done", "x", "see below", "list"]) + " " + message(rng, words)
    if block and rng.random() < 0.3:
        b += "\n * " + rng.choice(["TODO inside later line", "more", "FIXME(al): not at the start"]) + "\n "
    return b

def comment_item(rng, todo_p=0.6, kinds=("line", "block", "hash"), words=WORDS, wf=False):
    """every comment text is inside the comment theorem; wf only restricts the literals (see literal_item)"""
    kind = rng.choice(kinds)
    block = kind == "block"
    body = todo_body(rng, words, block) if rng.random() < todo_p else plain_body(rng, words, block)
    if block:
        body = body.replace("*/", "* /")
    return [kind, body]

STR_PIECES = ["a", "b c", "//", "/*", "*/", "#", "TODO", " TODO: x", "// FIXME(al) y", "'", "`", "%s", "\\\"", "\\\\", "\\n",
              "\\t", "\\'", "\\0", "\\12", "\\377", "\\u0041", "\\uu00e9", " ", "/* TODO */", "# todo"]
TPL_PIECES = ["a", "b c", "//", "/*", "*/", "#", "TODO", "// TODO: x", "\n", "\r\n", "'", '"', "${x}", "\\n", "# FIXME y", " "]
CHR_BODIES = ["a", "/", "#", "*", '"', "`", " ", "\\n", "\\'", "\\\\", "\\\"", "\\0", "\\12", "\\u0041", "T"]

STR_PIECES_WF = [p for p in STR_PIECES if "\\uu" not in p]      # a unicode escape with several u is outside items_ok
CHR_BODIES_WF = CHR_BODIES

def literal_item(rng, wf=False):
    """wf: only literal shapes inside the hypotheses of the lexer theorem (items_ok)"""
    r = rng.random()
    if r < 0.5:
        return ["str", "".join(rng.choice(STR_PIECES_WF if wf else STR_PIECES) for _ in range(rng.randint(0, 5)))]
    if r < 0.75:
        b = "".join(rng.choice(TPL_PIECES) for _ in range(rng.randint(0, 5)))
        if wf and b.endswith("\\"):
            b += " "
        return ["tpl", b]
    return ["chr", rng.choice(CHR_BODIES_WF if wf else CHR_BODIES)]

def code_item(rng):
    parts = []
    for _ in range(rng.randint(1, 4)):
        parts.append(rng.choice(CODE))
        if rng.random() < 0.5:
            parts.append(" ")
    s = "".join(parts)
    if s.endswith("/"):
        s += " "
    return ["code", s.replace("//", "/ /").replace("/*", "/ *")]

def eol_item(rng):
    return ["code", rng.choice(EOLS)]

def finish(items, rng):
    """make the sequence a valid segmentation: ends of line after line/hash comments, no code item ending in '/'"""
    out = []
    for i, it in enumerate(items):
        out.append(it)
        if it[0] in ("line", "hash") and i + 1 < len(items):
            nxt = render(*items[i + 1])
            if not nxt[:1] in ("\n", "\r"):
                out.append(eol_item(rng))
    assert valid(out), out
    return out

def gen_items(rng, n=None, todo_p=0.6, p_comment=0.3, p_literal=0.2, kinds=("line", "block", "hash"), words=WORDS, wf=False):
    n = rng.randint(0, 60) if n is None else n
    items = []
    for _ in range(n):
        r = rng.random()
        if r < p_comment:
            items.append(comment_item(rng, todo_p, kinds, words, wf))
        elif r < p_comment + p_literal:
            items.append(literal_item(rng, wf))
        elif r < p_comment + p_literal + 0.2:
            items.append(eol_item(rng))
        else:
            items.append(code_item(rng))
    return finish(items, rng)

SEL_NAMES = ["a.go", "b.py", "C.java", "d.js", "e.ts", "f.kt", "g.groovy", "build.gradle", "sub/i.go", "sub/deep/j.py",
             "x.y.go", ".go", "sub/k.java", "types.d.ts", "sub/api.spec.ts", "build.gradle.kts", "sub/app.min.js"]
OTHER_NAMES = ["notes.txt", "h.go.bak", "README.md", "noext", "k.GO", "sub/m.gox", "goo",
               # names that END with the letters of a selected extension but not with the extension
               "cargo", "logo.svgo", "build.mjs", "x.mts", "w.ipy", "sub/mango", "dejava", "sub/api.cjs"]
DEFAULT_EXTS = [".java", ".py", ".go", ".ts", ".js", ".kt", ".groovy", ".gradle"]

def walk_key(name):
    return name.split("/")

def gen_exts(rng):
    r = rng.random()
    if r < 0.3:
        return list(DEFAULT_EXTS)
    if r < 0.35:
        return []
    if r < 0.45:
        return [rng.choice([".txt", ".md", ".bak", ".GO", ".gox"])]
    if r < 0.6:
        # extensions of more than one part (TypeScript declaration files, Kotlin build scripts, minified bundles)
        return rng.sample([".d.ts", ".spec.ts", ".gradle.kts", ".min.js"], rng.randint(1, 3)) + rng.sample(DEFAULT_EXTS, rng.randint(0, 2))
    if r < 0.66:
        # a list with an empty element, `-e ".go,,.java"`: the empty suffix selects every file, the elements after it still count
        es = rng.sample(DEFAULT_EXTS, 2)
        return [es[0], "", es[1]] if rng.random() < 0.7 else ["", es[0]]
    k = rng.randint(1, 4)
    return rng.sample(DEFAULT_EXTS, k)

def mk_case(exts, files):
    """files: list of (name, 'f'|'d', items) -> wire input, paths in filepath.Walk order"""
    ents = []
    for name, kind, items in sorted(files, key=lambda f: walk_key(f[0])):
        ents.append([name, kind, [list(it) for it in items], "" if kind == "d" else render_items(items)])
    return [list(exts), ents]

def gen_tree(rng, gen, nfiles=None, exts=None):
    nfiles = rng.randint(1, 4) if nfiles is None else nfiles
    names = rng.sample(SEL_NAMES, min(nfiles, len(SEL_NAMES)))
    if rng.random() < 0.5:
        names.append(rng.choice(OTHER_NAMES))
    exts = gen_exts(rng) if exts is None else exts
    return mk_case(exts, [(nm, "f", gen(rng)) for nm in names])

# ------------------------------------------------------------------ sub-streams for the suspected defect shapes
def with_special(rng, special, words=PLAIN_WORDS, at_end=False, n=None):
    """a valid item sequence in which [special] (a list of items) occurs once, on lines of its own"""
    before = gen_items(rng, rng.randint(0, 8) if n is None else n, words=words)
    after = [] if at_end else gen_items(rng, rng.randint(0, 8) if n is None else n, words=words)
    mid = [["code", "\n"]] + special + ([] if at_end else [["code", "\n"]])
    items = finish(before + mid + after, rng)
    return items

def s_hash_alone(rng):
    return with_special(rng, [["hash", rng.choice(["", " ", "  ", "\t", " \t "])]])

def s_hash_glued(rng):
    kw = rng.choice(KEYWORDS[:9])
    rest = rng.choice(["", " x", ": x", "(al): fix", " (a.b) later", ":"])
    return with_special(rng, [["hash", kw + rest]])

def s_hash_eats(rng):
    c = rng.choice(["!", "#", "x", "-", ":", "T", "/"])
    kw = rng.choice(KEYWORDS[:9])
    return with_special(rng, [["hash", c + rng.choice(["", " ", "  "]) + kw + rng.choice(["", " x", ": y", "(al) z"])]])

def s_star(rng):
    kind = rng.choice(["line", "block", "hash"])
    lead = " "
    kw = rng.choice(KEYWORDS[:9])
    msg = rng.choice(["a*b", "x * y", "*", "**bold**", "p *q", "see a*", "(al) a*b", "* x", "2*3 = 6"])
    body = lead + kw + rng.choice([" ", ": ", "(al) ", " (a.b): "]) + msg
    if kind == "block":
        body = body.replace("*/", "* /") + rng.choice([" ", "", " *"])
        if rng.random() < 0.4:
            body = lead + kw + ": first\n * second " + msg.replace("*/", "* /") + "\n "
    return with_special(rng, [[kind, body]])

INNER = ["inner", "inner note", "inner thing here"]

def s_unterminated(rng):
    first = rng.choice(["", " ", " plain words", " TODO outer", " todo: outer text", "FIXME(al): outer", " TODO", "TODO(x)"])
    body = first
    for _ in range(rng.randint(0, 4)):
        body += "\n" + rng.choice(["", " more text", " // TODO " + rng.choice(INNER), " # FIXME(in) " + rng.choice(INNER),
                                   " // plain inner", "   x = 1;", " * decorated", " // todo: " + rng.choice(INNER)])
    return with_special(rng, [["ublock", body]], at_end=True)

def s_sq_string(rng):
    if rng.random() < 0.5:
        # (a) a quoted word, then a genuine comment on the same line
        body = rng.choice(["ab", "abc", "it", "hello world", "utf-8", "a b", "key"])
        sp = rng.choice([" ", "", " ", "  ", "; "])
        kind = rng.choice(["line", "hash"])
        c = [kind, " " + rng.choice(KEYWORDS[:4]) + rng.choice([" ", ": ", "(al): "]) + message(rng, PLAIN_WORDS, 1, 3)]
        special = [["code", "x = "], ["sq", body]] + ([["code", sp]] if sp else []) + [c]
    else:
        # (b) comment markers inside the quotes, nothing else on the line
        body = rng.choice(["a // TODO inner", "ab # TODO inner", "see // todo: inner", "x//FIXME(in) inner", "q # fixme inner",
                           "a // plain", "http://example.com", "ab#cd", "// TODO inner", "# TODO inner"])
        special = [["code", "s = "], ["sq", body], ["code", ";"]]
    return with_special(rng, special)

def s_str_escape(rng):
    esc = rng.choice(["\\x41", "\\a", "\\v", "\\e", "\\.", "\\d+", "\\s", "\\8", "\\ ", "\\u12", "\\U0001F600"])
    if rng.random() < 0.5:
        body = rng.choice(["", "a", "ab "]) + esc + rng.choice(["", "b", " c"])
        kind = rng.choice(["line", "hash"])
        c = [kind, " " + rng.choice(KEYWORDS[:4]) + rng.choice([" ", ": ", "(al): "]) + message(rng, PLAIN_WORDS, 1, 3)]
        special = [["code", "x = "], ["str", body], ["code", rng.choice([" ", "; ", "  "])], c]
    else:
        body = rng.choice(["", "a"]) + esc + rng.choice([" // TODO inner", " # TODO inner", "// fixme: inner", " // plain", " #x"])
        special = [["code", "s = "], ["str", body], ["code", ";"]]
    return with_special(rng, special)

STREAMS = [("hash_alone", s_hash_alone), ("hash_glued", s_hash_glued), ("hash_eats", s_hash_eats),
           ("star_in_message", s_star), ("unterminated_block", s_unterminated), ("sq_string", s_sq_string),
           ("str_escape", s_str_escape)]

# ------------------------------------------------------------------ fixed shapes (good behaviour, one feature each)
def shapes():
    out = []
    def one(name, text_items, exts=(".go",), fname="a.go"):
        out.append({"name": "shape-" + name, "tags": ["shape"], "input": mk_case(list(exts), [(fname, "f", text_items)])})
    one("empty-file", [])
    one("line-empty", [["line", ""]])
    one("line-blank", [["line", " "]])
    one("line-onechar", [["line", "x"]])
    one("line-marker-only", [["line", "TODO"]])
    one("line-marker-colon", [["line", " todo:"]])
    one("line-assignee", [["line", " FIXME(al): fix it"]])
    one("line-assignee-blank", [["line", " TODO (a.b+c@d) x"]])
    one("line-mention-later", [["line", " see TODO later"], ["code", "\n"], ["line", " not a FIXME(al): x"]])
    one("block-empty", [["block", ""]])
    one("block-onechar", [["block", "*"]])
    one("block-slash", [["block", "/"]])
    one("block-marker-only", [["block", "TODO"]])
    one("block-todo", [["block", " TODO x "]])
    one("block-multiline", [["code", "a\n\n"], ["block", " todo(al): x\n * more\n "], ["code", "\n"], ["line", " TODO y"]])
    one("block-javadoc", [["block", "* TODO x "], ["code", "\n"], ["block", "\n * TODO y\n "]])
    one("block-two-on-a-line", [["block", " TODO a "], ["code", " "], ["block", " FIXME b "], ["code", " "], ["line", "todo c"]])
    one("hash-todo", [["hash", " TODO x"]], exts=(".py",), fname="b.py")
    one("hash-plain", [["hash", "!/usr/bin/python"], ["code", "\n"], ["hash", " todo: y"]], exts=(".py",), fname="b.py")
    one("string-with-markers", [["code", "s = "], ["str", "// TODO x"], ["code", " + "], ["str", "a\\\"/* TODO */ # TODO"], ["code", ";\n"], ["line", " TODO real"]])
    one("template-multiline", [["tpl", "// TODO x\n# TODO y\n/* FIXME */"], ["code", "\n"], ["hash", " FIXME z"]])
    one("char-literals", [["chr", "#"], ["code", " "], ["chr", "/"], ["code", " "], ["chr", "\\'"], ["code", " "], ["line", " TODO q"]])
    one("crlf", [["line", ""], ["code", "\r\n"], ["line", " TODO x"], ["code", "\r\n"], ["block", " TODO a\r\n b "], ["code", "\r\n"], ["line", " TODO y"]])
    one("other-extension", [["line", " TODO x"]], exts=(".go",), fname="notes.txt")
    one("no-extensions", [["line", " TODO x"]], exts=(), fname="a.go")
    one("backslash-in-code", [["code", "a \\ "], ["line", " TODO x"]])
    one("division", [["code", "a / b / c "], ["line", " TODO x"], ["code", "\n1 /= 2 */ 3\n"], ["block", "FIXME y"]])
    return out

def dir_case(rng):
    dname = rng.choice(["chart.js", "highlight.js", "lib.go", "sub/pkg.py", "x.java"])
    ext = "." + dname.rsplit(".", 1)[1]
    files = [(dname, "d", []), (dname + "/index" + ext, "f", gen_items(rng, rng.randint(0, 6), words=PLAIN_WORDS))]
    if rng.random() < 0.5:
        files.append(("main" + ext, "f", gen_items(rng, rng.randint(0, 6), words=PLAIN_WORDS)))
    return mk_case([ext] if rng.random() < 0.5 else list(DEFAULT_EXTS), files)

# ------------------------------------------------------------------ glue
def canon(out):
    if not isinstance(out, list) or len(out) != 2 or not isinstance(out[1], list):
        return out
    rows = sorted(enumerate(out[1]), key=lambda ir: (ir[1][0], ir[0]))
    return [out[0], [r for _, r in rows]]

def clauses(spec_out):
    return list(spec_out)

def finding_matches(f, clause, case):
    return clause.split(":")[0] == f.get("clause") and f.get("tag") in case.get("tags", [])

def is_todo_body(b):
    return b.strip().lower().startswith(("todo", "fixme"))

def nontrivial(c):
    exts, ents = c["input"]
    for name, kind, items, _ in ents:
        if kind == "f" and any(name.endswith(e) for e in exts):
            if any(k in ("line", "block", "hash", "ublock") and is_todo_body(b) for k, b in items):
                return True
    return False

def cases(seed, tier):
    quick = tier == "quick"
    out = list(shapes())
    for j in range(120 if quick else 6000):
        rng = vlib.rng_for(seed, ID, "random", j)
        out.append({"name": "random-%d" % j, "tags": ["random"], "input": gen_tree(rng, gen_items)})
    for j in range(40 if quick else 2000):
        rng = vlib.rng_for(seed, ID, "literals", j)
        g = lambda r: gen_items(r, r.randint(5, 40), p_comment=0.2, p_literal=0.5)
        out.append({"name": "literals-%d" % j, "tags": ["literals"], "input": gen_tree(rng, g, nfiles=1, exts=DEFAULT_EXTS)})
    for j in range(40 if quick else 2000):
        rng = vlib.rng_for(seed, ID, "comments", j)
        g = lambda r: gen_items(r, r.randint(1, 30), todo_p=0.7, p_comment=0.6, p_literal=0.1)
        out.append({"name": "comments-%d" % j, "tags": ["comments"], "input": gen_tree(rng, g, nfiles=1, exts=DEFAULT_EXTS)})
    for j in range(30 if quick else 1500):
        rng = vlib.rng_for(seed, ID, "multiline", j)
        g = lambda r: gen_items(r, r.randint(1, 20), todo_p=0.8, p_comment=0.6, p_literal=0.1, kinds=("block",))
        out.append({"name": "multiline-%d" % j, "tags": ["multiline"], "input": gen_tree(rng, g, nfiles=1, exts=DEFAULT_EXTS)})
    for j in range(30 if quick else 1500):
        rng = vlib.rng_for(seed, ID, "filters", j)
        g = lambda r: gen_items(r, r.randint(0, 6), todo_p=0.9, p_comment=0.6, words=PLAIN_WORDS)
        out.append({"name": "filters-%d" % j, "tags": ["filters"], "input": gen_tree(rng, g, nfiles=rng.randint(2, 5))})
    for j in range(60 if quick else 3000):
        # inside the hypotheses of the theorems (items_ok, comment_ok, case_ok): every case must pass
        rng = vlib.rng_for(seed, ID, "hypotheses", j)
        g = lambda r: gen_items(r, r.randint(0, 40), todo_p=0.7, p_comment=0.4, p_literal=0.3, wf=True)
        out.append({"name": "hypotheses-%d" % j, "tags": ["hypotheses"], "input": gen_tree(rng, g, nfiles=rng.randint(1, 3))})
    for tag, fn in STREAMS:
        for j in range(12 if quick else 400):
            rng = vlib.rng_for(seed, ID, tag, j)
            name = rng.choice(SEL_NAMES[:8])
            files = [(name, "f", fn(rng))]
            if rng.random() < 0.3:
                files.append(("zz/other.go", "f", gen_items(rng, rng.randint(0, 5), words=PLAIN_WORDS)))
            out.append({"name": "%s-%d" % (tag, j), "tags": [tag], "input": mk_case(DEFAULT_EXTS, files)})
    for j in range(8 if quick else 200):
        rng = vlib.rng_for(seed, ID, "dir", j)
        out.append({"name": "dir-%d" % j, "tags": ["dir_named_like_source"], "input": dir_case(rng)})
    # which cases satisfy the (executable) hypotheses of the theorems
    wf = vlib.run_driver([("C17.wf", c["input"]) for c in out])
    for c, w in zip(out, wf):
        c["tags"].append("wf" if w == "1" else "outside_wf")
    return out

def shrink(inp):
    exts, ents = inp
    def rebuilt(i, items):
        e = list(ents[i]); e[2] = items; e[3] = render_items(items)
        return [exts, ents[:i] + [e] + ents[i + 1:]]
    if len(ents) > 1:
        for i in range(len(ents)):
            yield [exts, ents[:i] + ents[i + 1:]]
    for i, e in enumerate(ents):
        items = e[2]
        if e[1] != "f":
            continue
        n = len(items)
        # halves, then single items, keeping the segmentation valid
        for lo, hi in ((0, n // 2), (n // 2, n)):
            cand = items[:lo] + items[hi:]
            if hi > lo and valid(cand):
                yield rebuilt(i, cand)
        for j in range(n):
            cand = items[:j] + items[j + 1:]
            if valid(cand):
                yield rebuilt(i, cand)
    if len(exts) > 1:
        for i in range(len(exts)):
            yield [exts[:i] + exts[i + 1:], ents]

def pretty(c):
    exts, ents = c["input"]
    lines = ["extensions: %r" % (exts,)]
    for name, kind, items, text in ents:
        lines.append("%s %s" % ("dir " if kind == "d" else "file", name))
        ln = 1
        for k, b in items:
            lines.append("    line %-3d %-6s %r" % (ln, k, b))
            ln += render(k, b).count("\n")
    return lines
