"""C20 -- Go and Python front-ends list every declaration under its own name.

A case is an ABSTRACT file (("go" gfile) or ("py" pmodule), codecs in coq/Entry/C20.v); the model
runs on the abstract value, the real front-end on the source text rendered from it here."""
import vlib

ID = "C20"
MODEL_ENTRY = "C20.model"
SPEC_ENTRY = "C20.spec"
HARNESS_OP = "C20"          # dispatches to C20.go / C20.py on the first element of the input
FRESH_PROCESS = True        # the Python lexer/listener keep package-level state (token ring buffer,
                            # currentDataStruct): every case starts from the process-initial state
CASE_TIMEOUT = "20s"
RULE = ("Go files: imports (plain, aliased, module-internal), 1-6 struct/interface/other type declarations in "
        "every order relative to their value/pointer-receiver methods, free functions with (grouped, unnamed) "
        "parameters and results, struct and interface types written in place as field / parameter / result types, bodies of call statements (package-qualified, receiver, parameter, local "
        "variable, local function), defer, assignments, returns, call statements taking a function literal (nested to depth 3), if / else / else-if / block statements nested to depth 3, "
        "body-less declarations, methods whose receiver type is declared elsewhere; Python "
        "modules: import a / a as b / a, b / from m import x, y (parenthesised, with a trailing comma, aliased), decorated classes with "
        "methods, decorated functions, nested defs and classes, classes inside defs; one tagged sub-stream per (repaired "
        "or open) defect shape and the witnesses of coq/Proofs/FrontProofs.v; "
        "non-trivial = at least one class/struct/interface/function in the model's output or a crash; "
        "distinct = distinct abstract input")
TRUSTED_BASE = ["not modelled: go/parser and the ANTLR Python lexer/parser (the abstract file is rendered to text "
                "by tools/props/C20.py and parsed by the real front-ends); radix sort of the data structures "
                "(compared as a multiset)",
                "the projection compared: names, kinds, membership, parameters, fields, returns, calls "
                "(package, type, node, function), imports; positions and member ids are not compared"]
ASSUMPTIONS = ["the file name is demo.go / demo.py (package name of the path is empty), no go.mod, no extensions; in the "
               "directory runs every other tree also holds a .gitignore and an ignored generated file next to the source",
               "Go: no top-level var/const specs, function literals only as the last argument of a call statement, no local type declarations; identifiers "
               "called as f(...) are not parameters or local variables",
               "Python: no size limit on modules (the lexer's 32-slot token ring used to corrupt modules above about "
               "30 logical lines; repaired by f146bde, the py_long stream now generates modules of a few hundred lines)"]

# ------------------------------------------------------------------ rendering: Go
def r_type(t):
    k = t[0]
    if k == "id": return t[1]
    if k == "star": return "*" + t[1]
    if k == "sel": return t[1] + "." + t[2]
    if k == "starsel": return "*" + t[1] + "." + t[2]
    if k == "arr": return "[]" + t[1]
    if k == "arrsel": return "[]" + t[1] + "." + t[2]
    if k == "inline": return "struct { X int; Y string }"             # a struct type written in place
    if k == "ifacem": return "interface{ Close() error }"              # an interface type with methods written in place
    return "interface{}"

def r_group(p):
    names, t = p
    return (", ".join(names) + " " if names else "") + r_type(t)

def r_atom(a):
    k = a[0]
    if k == "id": return a[1]
    if k == "str": return '"' + a[1] + '"'
    if k == "int": return a[1]
    return a[1] + "." + a[2]

def r_call(c):
    x, f, args = c
    return (x + "." if x else "") + f + "(" + ", ".join(r_atom(a) for a in args) + ")"

def r_expr(e):
    if e[0] == "call":
        return r_call(e[1:])
    return r_atom(e)

def r_stmt(s, depth=1):
    ind = "\t" * depth
    k = s[0]
    if k == "expr": return [ind + r_call(s[1])]
    if k == "defer": return [ind + "defer " + r_call(s[1])]
    if k == "assign":
        op = " := " if all(l[0] == "id" for l in s[1]) else " = "
        return [ind + ", ".join(l[1] if l[0] == "id" else l[1] + "." + l[2] for l in s[1]) + op +
                ", ".join(r_expr(e) for e in s[2])]
    if k == "return":
        return [ind + "return" + (" " + ", ".join(r_expr(e) for e in s[1]) if s[1] else "")]
    if k == "block":
        return [ind + "{"] + [l for x in s[1] for l in r_stmt(x, depth + 1)] + [ind + "}"]
    if k == "calllit":
        # ("calllit" call (stmt ...)): the call takes a function literal as its last argument
        x, f, args = s[1]
        head = (x + "." if x else "") + f + "(" + "".join(r_atom(a) + ", " for a in args) + "func() {"
        return [ind + head] + [l for y in s[2] for l in r_stmt(y, depth + 1)] + [ind + "})"]
    # ("if" body els hint)
    _, body, els, hint = s
    lines = [ind + "if true {"] + [l for x in body for l in r_stmt(x, depth + 1)]
    if hint == "elseif" and len(els) == 1 and els[0][0] == "if":
        rest = r_stmt(els[0], depth)
        return lines + [ind + "} else " + rest[0].lstrip("\t")] + rest[1:]
    if hint != "none":
        return lines + [ind + "} else {"] + [l for x in els for l in r_stmt(x, depth + 1)] + [ind + "}"]
    return lines + [ind + "}"]

def r_results(rs):
    if not rs: return ""
    if len(rs) == 1 and not rs[0][0]: return " " + r_group(rs[0])
    return " (" + ", ".join(r_group(p) for p in rs) + ")"

def r_decl(d):
    k = d[0]
    if k == "struct":
        if not d[2]:
            return ["type %s struct{}" % d[1]]
        return ["type %s struct {" % d[1]] + ["\t" + r_group(p) for p in d[2]] + ["}"]
    if k == "iface":
        if not d[2]:
            return ["type %s interface{}" % d[1]]
        return ["type %s interface {" % d[1]] + \
               ["\t%s(%s)%s" % (m[0], ", ".join(r_group(p) for p in m[1]), r_results(m[2])) for m in d[2]] + ["}"]
    if k == "type":
        return ["type %s %s" % (d[1], r_type(d[2]))]
    _, recv, name, params, results, hasbody, body = d
    head = "func "
    if recv:
        v, t, ptr = recv
        head += "(" + (v + " " if v else "") + ("*" if ptr == "1" else "") + t + ") "
    head += name + "(" + ", ".join(r_group(p) for p in params) + ")" + r_results(results)
    if hasbody != "1":
        return [head]
    lines = [head + " {"]
    for s in body:
        lines += r_stmt(s)
    return lines + ["}"]

def render_go(f):
    pkg, imports, decls = f
    lines = ["package " + pkg, ""]
    if len(imports) == 1:
        a, p = imports[0]
        lines += ["import " + (a + " " if a else "") + '"' + p + '"', ""]
    elif imports:
        lines += ["import ("] + ["\t" + (a + " " if a else "") + '"' + p + '"' for a, p in imports] + [")", ""]
    for d in decls:
        lines += r_decl(d) + [""]
    return "\n".join(lines)

# ------------------------------------------------------------------ rendering: Python
def r_node(n, depth, in_class, blank=False, tabs=False, first=False):
    is_class, decos, name, kids = n
    # tabs: Python 2 style tab indentation; the FIRST member of a class is indented with four blanks followed by a tab,
    # which is the same column under the tab-stop rule (the next multiple of 8) as the tab of its siblings
    ind = ("\t" * depth if depth else "") if tabs else "    " * depth
    if tabs and first and depth == 1:
        ind = "    \t"
    lines = []
    for dn, args in decos:
        lines.append(ind + "@" + dn + ("(" + ", ".join(args) + ")" if args else ""))
    head = ("class %s" % name) if is_class == "1" else ("def %s(%s)" % (name, "self" if in_class else ""))
    if not kids:
        return lines + [ind + head + ": pass"]
    lines.append(ind + head + ":")
    for i, k in enumerate(kids):
        if blank and i > 0:
            lines.append("")                 # the usual blank line between two members of a block
        lines += r_node(k, depth + 1, is_class == "1", blank, tabs, first=(i == 0 and is_class == "1" and len(kids) > 1))
    return lines

def r_as(na):
    return na[0] + (" as " + na[1] if na[1] else "")

def py_style(m):
    """layout of the rendered module, a function of the abstract module (so that a case always renders the same):
    0 compact, 1 blank lines between the members of every block and between declarations, 2 compact with Windows
    line ends, 3 both, 4 tab indentation (the first member of a class: blanks then a tab)"""
    import zlib
    return zlib.crc32(vlib.sx_dump(m).encode()) % 5

def render_py(m):
    style = py_style(m)
    blank = style in (1, 3)
    lines = []
    for it in m:
        if it[0] == "import":
            lines.append("import " + ", ".join(r_as(na) for na in it[1]))
        elif it[0] == "from":
            body = ", ".join(r_as(na) for na in it[2])
            # "2": parenthesised with a trailing comma (one name per line in real code)
            lines.append("from %s import %s" % (it[1], "(" + body + ("," if it[3] == "2" else "") + ")" if it[3] in ("1", "2") else body))
        else:
            if blank and lines: lines.append("")
            lines += r_node(it[1], 0, False, blank, tabs=(style == 4))
    text = "\n".join(lines) + "\n"
    return text.replace("\n", "\r\n") if style in (2, 3) else text

def lexer_load(text):
    """tokens coca's Python lexer leaves queued in its 32-slot ring buffer: one per logical line plus
    one per INDENT/DEDENT. The buffer's growth path was broken (modules above ~30 lines were mis-tokenised);
    repaired in /repo by f146bde, so the generators no longer stay below it (see the py_long stream)"""
    load, stack = 1, [0]
    for ln in text.replace("\r", "").split("\n"):
        if not ln.strip():
            continue
        ind = len(ln) - len(ln.lstrip(" "))
        load += 1
        if ind > stack[-1]:
            stack.append(ind); load += 1
        else:
            while stack[-1] > ind:
                stack.pop(); load += 1
    return load + len(stack)

MAX_LOAD = 10 ** 9

def render(inp):
    return render_go(inp[1]) if inp[0].startswith("go") else render_py(inp[1])

def harness_input(case):
    inp = case["input"]
    return [inp[0], render(inp)]

# ------------------------------------------------------------------ shapes -> tags
def _nested_sel_call(s, inside):
    if s[0] in ("expr", "defer"):
        return inside and bool(s[1][0])
    if s[0] == "if":
        return any(_nested_sel_call(x, True) for x in s[1] + s[2])
    if s[0] == "block":
        return any(_nested_sel_call(x, True) for x in s[1])
    if s[0] == "calllit":
        return (inside and bool(s[1][0])) or any(_nested_sel_call(x, True) for x in s[2])
    return False

def go_tags(f):
    pkg, imports, decls = f
    tags = []
    types = [d[1] for d in decls if d[0] in ("struct", "iface", "type")]
    if len(types) >= 2:
        tags.append("two_structs")
    seen = set()
    grouped = bodyless = before = in_if = False
    for d in decls:
        if d[0] in ("struct", "iface", "type"):
            seen.add(d[1])
            if d[0] == "struct":
                grouped |= any(len(p[0]) > 1 for p in d[2])
        else:
            _, recv, name, params, results, hasbody, body = d
            if recv and recv[1] not in seen:
                before = True
            grouped |= any(len(p[0]) > 1 for p in params)
            if hasbody != "1":
                bodyless = True
            in_if |= any(_nested_sel_call(s, False) for s in body)
    def lit_defer(s):
        # a selector call deferred directly inside a function literal
        if s[0] == "calllit":
            return any(x[0] == "defer" and x[1][0] for x in s[2]) or any(lit_defer(x) for x in s[2])
        if s[0] == "if": return any(lit_defer(x) for x in s[1] + s[2])
        if s[0] == "block": return any(lit_defer(x) for x in s[1])
        return False
    if any(d[0] == "func" and any(lit_defer(s) for s in d[6]) for d in decls): tags.append("lit_defer")
    if before: tags.append("method_before_type")
    if bodyless: tags.append("bodyless_func")
    if grouped: tags.append("grouped_names")
    if in_if: tags.append("call_in_if")
    return tags

def py_tags(m):
    tags = set()
    def walk(n, parent):
        is_class, decos, name, kids = n
        if parent is not None:
            if is_class == "1" and parent == "1":
                tags.add("py_nested_class")
            elif is_class == "1":
                tags.add("py_local_class")
            elif parent != "1":
                tags.add("py_nested_def")
        for k in kids:
            walk(k, is_class)
    for it in m:
        if it[0] == "import" and len(it[1]) > 1:
            tags.add("py_import_list")
        if it[0] == "from" and any(na[1] for na in it[2]):
            tags.add("py_from_as")
        if it[0] == "node":
            walk(it[1], None)
    return sorted(tags)

# ------------------------------------------------------------------ generators: Go
IMPORTS = [("", "fmt"), ("", "strings"), ("str", "strings"), ("", "net/http"), ("", "a/b/c"), ("u", "x/y/util"),
           ("", "github.com/modernizing/coca/pkg/domain/core_domain"),
           ("cd", "github.com/modernizing/coca/pkg/domain/core_domain"), ("_", "embed"), (".", "math"),
           ("", "os"), ("", "io/ioutil")]
TYPE_NAMES = ["Alpha", "Beta", "Gamma", "Delta", "Eps", "Zeta", "Eta", "Theta"]
METHOD_NAMES = ["Run", "Stop", "get", "Set", "Close", "helper", "String", "Len"]
FUNC_NAMES = ["NewThing", "main", "doIt", "Helper", "init", "process", "Build", "walk"]
BASIC = ["int", "string", "bool", "error", "byte"]
VARS = ["a", "b", "c", "n", "s", "v", "w", "x"]

def pkg_ident(imp):
    a, p = imp
    return a if a and a not in ("_", ".") else p.split("/")[-1]

def gen_type(rng, types, imports, embedded=False):
    pk = [pkg_ident(i) for i in imports] or ["ext"]
    r = rng.random()
    if r < 0.35: return ["id", rng.choice(BASIC + types)]
    if r < 0.5 and types: return ["star", rng.choice(types)]
    if r < 0.65: return ["sel", rng.choice(pk), rng.choice(["T", "Client", "Builder"])]
    if r < 0.75: return ["starsel", rng.choice(pk), rng.choice(["T", "Client"])]
    if embedded: return ["id", rng.choice(types + ["Base"])]
    if r < 0.85: return ["arr", rng.choice(BASIC + types)]
    if r < 0.92: return ["arrsel", rng.choice(pk), "T"]
    if r < 0.95: return ["empty"]
    # types written in place: they declare nothing (no data structure, no member of their own)
    return ["inline"] if r < 0.975 else ["ifacem"]

def gen_groups(rng, n, types, imports, grouped, allow_unnamed, field=False):
    """n parameter / field groups; a parameter list is all-named or all-unnamed"""
    unnamed = allow_unnamed and rng.random() < 0.2
    pool = list(VARS) + ["p", "q", "r", "t", "k", "m"]
    rng.shuffle(pool)
    out = []
    for i in range(n):
        if field and rng.random() < 0.15:
            out.append([[], gen_type(rng, types, imports, embedded=True)]); continue
        if unnamed and not field:
            out.append([[], gen_type(rng, types, imports)]); continue
        k = 2 if grouped and rng.random() < 0.6 and len(pool) >= 2 else 1
        names = [pool.pop() for _ in range(k)] if len(pool) >= k else ["z%d" % i]
        out.append([names, gen_type(rng, types, imports)])
    return out

def gen_atoms(rng, idents):
    out = []
    for _ in range(rng.randint(0, 2)):
        r = rng.random()
        if r < 0.3: out.append(["str", rng.choice(["x", "hello", "a b"])])
        elif r < 0.5: out.append(["int", str(rng.randint(0, 99))])
        elif r < 0.8 and idents: out.append(["id", rng.choice(idents)])
        else: out.append(["sel", rng.choice(idents or ["cfg"]), rng.choice(["Name", "id"])])
    return out

def gen_body(rng, recv, params, imports, funcs, types, in_if=False):
    pk = [pkg_ident(i) for i in imports]
    pnames = [n for g in params for n in g[0]]
    locals_ = []
    body = []
    def callee_x():
        cands = list(pk) + pnames + locals_ + ([recv[0]] if recv and recv[0] else []) + ["other"]
        return rng.choice(cands)
    def call():
        idents = pnames + locals_
        if rng.random() < 0.25:
            return ["", rng.choice(funcs + ["undeclared", "println"] + types[:1]), gen_atoms(rng, idents)]
        return [callee_x(), rng.choice(METHOD_NAMES + ["Println", "New", "Do"]), gen_atoms(rng, idents)]
    def lit_body(depth):
        out = []
        for _ in range(rng.randint(0, 3)):
            r7 = rng.random()
            if r7 < 0.4: out.append(["expr", call()])
            elif r7 < 0.65: out.append(["defer", call()])
            elif r7 < 0.8: out.append(["assign", [["id", rng.choice(["u", "y", "z"])]], [["call"] + call()]])
            elif r7 < 0.9 and depth < 2: out.append(["calllit", call(), lit_body(depth + 1)])
            else:
                out.append(["return", []]); break
        return out
    for _ in range(rng.randint(0, 5)):
        r = rng.random()
        if r < 0.06:
            # a function literal as the last argument (go func, callbacks, t.Run): its statements are statements of the function
            body.append(["calllit", call(), lit_body(0)])
        elif r < 0.4:
            body.append(["expr", call()])
        elif r < 0.5:
            body.append(["defer", call()])
        elif r < 0.75:
            fresh = [v for v in ["e", "f", "g", "h", "i", "j"] if v not in locals_ and v not in pnames]
            r2 = rng.random()
            if r2 < 0.2 and recv and recv[0]:
                lhs = [["sel", recv[0], rng.choice(["count", "name"])]]
            elif r2 < 0.4 and len(fresh) >= 2:
                lhs = [["id", fresh[0]], ["id", fresh[1]]]
            elif fresh:
                lhs = [["id", fresh[0]]]
            else:
                lhs = [["id", locals_[0]]] if locals_ else [["sel", "cfg", "x"]]
            r3 = rng.random()
            if r3 < 0.55:
                rhs = [["call"] + call()]
            elif r3 < 0.7:
                rhs = [["str", "s"]]
            elif r3 < 0.85:
                rhs = [["int", "7"]]
            else:
                rhs = [["sel", rng.choice(pnames + ["cfg"]), "Field"]]
            if len(lhs) == 2 and rng.random() < 0.3 and rhs[0][0] != "call":
                rhs = rhs + [["int", "1"]]
            body.append(["assign", lhs, rhs])
            locals_ += [l[1] for l in lhs if l[0] == "id" and l[1] not in locals_]
        elif r < 0.85 and in_if:
            def simple():
                r5 = rng.random()
                if r5 < 0.6: return ["expr", call()]
                if r5 < 0.75: return ["defer", call()]
                if r5 < 0.9:
                    fr = [v for v in ["e", "f", "g", "h", "i", "j"] if v not in pnames]
                    v = rng.choice(fr)
                    if v not in locals_: locals_.append(v)
                    return ["assign", [["id", v]], [["call"] + call()]]
                return ["return", []]
            def block(depth):
                out = [simple() for _ in range(rng.randint(1, 2))]
                if depth < 2 and rng.random() < 0.3:
                    out.insert(rng.randint(0, len(out)), ifstmt(depth + 1))
                if depth < 2 and rng.random() < 0.15:
                    out.append(["block", [simple()]])
                return out
            def ifstmt(depth):
                r6 = rng.random()
                if r6 < 0.5 or depth >= 3:
                    return ["if", block(depth), [], "none"]
                if r6 < 0.8:
                    return ["if", block(depth), block(depth), "block"]
                return ["if", block(depth), [ifstmt(depth + 1)], "elseif"]
            body.append(ifstmt(0) if rng.random() < 0.85 else ["block", block(0)])
        elif r < 0.85:
            body.append(["expr", call()])
        else:
            rs = []
            for _ in range(rng.randint(0, 2)):
                r4 = rng.random()
                if r4 < 0.5:
                    rs.append(["call"] + call())
                elif r4 < 0.7 and (pnames or locals_):
                    rs.append(["id", rng.choice(pnames + locals_)])
                else:
                    rs.append(["int", "0"])
            body.append(["return", rs])
            break
    return body

def gen_func(rng, recv, name, types, imports, funcs, grouped=False, in_if=False, bodyless=False):
    params = gen_groups(rng, rng.randint(0, 3), types, imports, grouped, True)
    results = [[[], gen_type(rng, types, imports)] for _ in range(rng.choice([0, 0, 1, 1, 2]))]
    if bodyless:
        return ["func", recv, name, params, results, "0", []]
    return ["func", recv, name, params, results, "1", gen_body(rng, recv, params, imports, funcs, types, in_if)]

def gen_typedecl(rng, name, kind, types, imports, grouped=False):
    if kind == "struct":
        return ["struct", name, gen_groups(rng, rng.randint(0, 4), types, imports, grouped, False, field=True)]
    if kind == "iface":
        ms = []
        names = rng.sample(METHOD_NAMES, rng.randint(1, 3))
        for mn in names:
            ms.append([mn, gen_groups(rng, rng.randint(0, 2), types, imports, False, True),
                       [[[], gen_type(rng, types, imports)] for _ in range(rng.choice([0, 1, 2]))]])
        return ["iface", name, ms]
    if kind == "empty_iface":
        return ["iface", name, []]
    return ["type", name, rng.choice([["id", "int"], ["arr", "string"], ["sel", "http", "Client"], ["id", "string"]])]

def gen_go(rng, n_types, kinds=("struct", "iface", "type", "empty_iface"), order="after", grouped=False,
           in_if=False, bodyless=False, n_funcs=None, methods_per_type=None):
    """order: 'after' = every method after its receiver type; 'shuffled' = any order; 'before' = some method first"""
    imports = rng.sample(IMPORTS, rng.randint(0, 3))
    seen_paths = set(); imports = [i for i in imports if not (i[1] in seen_paths or seen_paths.add(i[1]))]
    tnames = rng.sample(TYPE_NAMES, n_types)
    tkinds = [rng.choice(kinds) for _ in tnames]
    fnames = rng.sample(FUNC_NAMES, rng.randint(0, 3) if n_funcs is None else n_funcs)
    tdecls = [gen_typedecl(rng, n, k, tnames, imports, grouped) for n, k in zip(tnames, tkinds)]
    mdecls = []
    for n, k in zip(tnames, tkinds):
        if k in ("iface", "empty_iface"):
            continue
        cnt = rng.randint(0, 3) if methods_per_type is None else methods_per_type
        for mn in rng.sample(METHOD_NAMES, cnt):
            v = rng.choice([n[0].lower(), "self", "", "r"])
            recv = [v, n, rng.choice(["0", "1"])]
            mdecls.append(gen_func(rng, recv, mn, tnames, imports, fnames, grouped, in_if))
    fdecls = []
    for i, fn in enumerate(fnames):
        fdecls.append(gen_func(rng, [], fn, tnames, imports, fnames, grouped, in_if, bodyless and i == 0))
    if order == "after":
        # types and functions in a random order, each method at a random place after its type
        decls = tdecls + fdecls
        rng.shuffle(decls)
        ms = list(mdecls); rng.shuffle(ms)
        for m in ms:
            idx = next(i for i, d in enumerate(decls) if d[0] != "func" and d[1] == m[1][1])
            decls.insert(rng.randint(idx + 1, len(decls)), m)
    elif order == "shuffled":
        decls = tdecls + mdecls + fdecls
        rng.shuffle(decls)
    else:  # before: all methods first
        ms = list(mdecls); rng.shuffle(ms)
        rest = tdecls + fdecls; rng.shuffle(rest)
        decls = ms[:1] + rest + ms[1:] if ms else rest
    return ["demo", [list(i) for i in imports], decls]

# ------------------------------------------------------------------ generators: Python
PY_MODS = ["os", "sys", "a.b", "pkg.mod.sub", "json", "x.y", "collections.abc", "re"]
PY_NAMES = ["foo", "bar", "baz", "Qux", "item", "get"]
PY_CLASSES = ["Blog", "Entity", "Repo", "Svc", "Ctl", "Base"]
PY_DEFS = ["run", "stop", "save", "load", "get_id", "handle", "inner", "wrap"]
PY_DECOS = [("staticmethod", []), ("property", []), ("app.route", ['"/x"']), ("decorator", ["1", "x=2"]),
            ("functools.wraps", ["f"]), ("cache", [])]

def gen_decos(rng, p=0.35):
    if rng.random() > p:
        return []
    return [[d, list(a)] for d, a in rng.sample(PY_DECOS, rng.randint(1, 2))]

def gen_pynode(rng, is_class, name, depth, nested_def, nested_class, local_class=False):
    kids = []
    if is_class:
        names = rng.sample(PY_DEFS, rng.randint(0, 3))
        for n in names:
            kids.append(gen_pynode(rng, False, n, depth + 1, nested_def, nested_class,
                                   local_class and rng.random() < 0.5))
        if nested_class and depth < 2 and rng.random() < 0.7:
            inner = gen_pynode(rng, True, name + "Inner", depth + 1, nested_def, False)
            kids.insert(rng.randint(0, len(kids)), inner)
    else:
        if local_class and depth < 2:
            kids.append(gen_pynode(rng, True, name + "_Local", depth + 1, False, False))
        if nested_def and depth < 3 and rng.random() < 0.6:
            for n in rng.sample(["inner", "wrapped", "cb"], rng.randint(1, 2)):
                kids.append(gen_pynode(rng, False, n, depth + 1, nested_def and rng.random() < 0.3, False))
    return ["1" if is_class else "0", gen_decos(rng), name, kids]

def gen_pyimport(rng, lst=False, from_as=False, plain_only=False):
    r = rng.random()
    if lst:
        k = rng.randint(2, 3)
        return ["import", [[m, rng.choice(["", "", "al%d" % i])] for i, m in enumerate(rng.sample(PY_MODS, k))]]
    if r < 0.3 or plain_only and r < 0.5:
        return ["import", [[rng.choice(PY_MODS), ""]]]
    if r < 0.5:
        return ["import", [[rng.choice(PY_MODS), rng.choice(["m", "np", "alias"])]]]
    src = rng.choice(PY_MODS + [".", "..", ".sib", "..pkg.mod"])
    if rng.random() < 0.1 and not from_as:
        return ["from", src, [["*", ""]], "0"]
    names = [[n, ""] for n in rng.sample(PY_NAMES, rng.randint(1, 3))]
    if from_as:
        names[rng.randrange(len(names))][1] = "zz"
    return ["from", src, names, rng.choice(["0", "0", "1", "2"])]

def gen_py(rng, imp_list=False, nested_def=False, nested_class=False, from_as=False, n_decl=None, local_class=False):
    items = []
    for i in range(rng.randint(0, 3)):
        items.append(gen_pyimport(rng))
    if imp_list:
        items.insert(rng.randint(0, len(items)), gen_pyimport(rng, lst=True))
    if from_as:
        items.insert(rng.randint(0, len(items)), gen_pyimport(rng, from_as=True))
        while items[-1][0] != "from" and False:
            pass
    cls = rng.sample(PY_CLASSES, rng.randint(0, 2) if n_decl is None else n_decl)
    fns = rng.sample(["top", "main", "helper", "setup", "Main", "Factory"], rng.randint(0, 2) if n_decl is None else n_decl)
    decls = [gen_pynode(rng, True, c, 0, nested_def, nested_class, local_class) for c in cls] + \
            [gen_pynode(rng, False, f, 0, nested_def, False, local_class) for f in fns]
    rng.shuffle(decls)
    items += [["node", d] for d in decls]
    # historical cap (MAX_LOAD is now unbounded: the lexer ring defect was repaired by f146bde)
    while lexer_load(render_py(items)) > MAX_LOAD and items:
        # drop the last kid of the last node, else the last item
        last = items[-1]
        if last[0] == "node" and last[1][3]:
            last[1][3].pop()
        else:
            items.pop()
    return items

# ------------------------------------------------------------------ the witnesses of coq/Proofs/FrontProofs.v
def _f(recv, name, params, results, body, hasbody="1"):
    return ["func", recv, name, params, results, hasbody, body]
def _p(name, t):
    return [[name], t]
INT, STR = ["id", "int"], ["id", "string"]
WITNESSES = [
    ("ex_two_structs", "go", ["demo", [["", "fmt"]], [
        ["struct", "A", [_p("x", INT)]],
        _f(["a", "A", "0"], "M1", [], [], [["expr", ["fmt", "Println", [["str", "a"]]]]]),
        ["struct", "B", [_p("y", STR)]],
        _f(["b", "B", "1"], "M2", [], [], [["expr", ["b", "help", []]]]),
        _f(["a", "A", "1"], "M3", [], [], [])]]),
    ("ex_method_first", "go", ["demo", [], [_f(["a", "A", "0"], "M1", [], [], []), ["struct", "A", [_p("x", INT)]]]]),
    ("ex_bodyless", "go", ["demo", [], [_f([], "Add", [_p("a", INT), _p("b", INT)], [[[], INT]], [], "0")]]),
    ("ex_grouped", "go", ["demo", [], [
        ["struct", "P", [[["x", "y"], INT]]],
        _f([], "Add", [[["a", "b"], INT]], [[[], INT]], [["return", [["id", "a"]]]])]]),
    ("ex_call_in_if", "go", ["demo", [["", "fmt"]], [
        _f([], "Run", [], [], [["if", [["expr", ["fmt", "Println", [["str", "x"]]]]], [], "none"]])]]),
    ("ex_single", "go", ["demo", [["", "fmt"], ["str", "strings"], ["", "net/http"]], [
        _f([], "NewPerson", [_p("name", STR)], [[[], ["star", "Person"]]],
           [["expr", ["fmt", "Println", [["str", "new"], ["id", "name"]]]], ["return", [["id", "nil"]]]]),
        ["struct", "Person", [_p("name", STR), _p("age", INT), [[], ["star", "Base"]],
                              _p("client", ["starsel", "http", "Client"])]],
        _f(["p", "Person", "1"], "Greet", [_p("w", ["sel", "http", "ResponseWriter"])], [],
           [["expr", ["w", "Write", [["sel", "p", "name"]]]], ["defer", ["p", "done", []]],
            ["assign", [["id", "s"]], [["call", "str", "ToUpper", [["sel", "p", "name"]]]]],
            ["expr", ["fmt", "Println", [["id", "s"]]]], ["expr", ["", "helper", [["int", "1"]]]]]),
        _f(["p", "Person", "0"], "done", [], [], [["return", []]]),
        _f([], "helper", [_p("n", INT)], [[[], INT]],
           [["if", [["expr", ["", "helper", [["int", "0"]]]]], [], "none"],
            ["return", [["call", "", "helper", [["id", "n"]]]]]])]]),
    ("ex_multi", "go", ["demo", [["", "fmt"], ["str", "strings"], ["", "net/http"]], [
        _f(["p", "Person", "1"], "Greet", [_p("w", ["sel", "http", "ResponseWriter"])], [],
           [["expr", ["w", "Write", [["sel", "p", "name"]]]], ["defer", ["p", "done", []]],
            ["if", [["expr", ["fmt", "Println", [["str", "x"]]]],
                    ["if", [["expr", ["p", "log", []]]], [["block", [["expr", ["p", "log", []]]]]], "block"]],
                   [["if", [["assign", [["id", "s"]], [["call", "str", "ToUpper", [["sel", "p", "name"]]]]],
                            ["expr", ["fmt", "Println", [["id", "s"]]]]], [], "none"]], "elseif"]]),
        _f([], "NewPerson", [[["first", "last"], STR]], [[[], ["star", "Person"]]],
           [["expr", ["fmt", "Println", [["str", "new"], ["id", "first"]]]], ["return", [["id", "nil"]]]]),
        ["struct", "Person", [[["name", "nick"], STR], _p("age", INT), [[], ["star", "Base"]],
                              _p("client", ["starsel", "http", "Client"])]],
        ["iface", "Greeter", [["Greet", [_p("w", ["sel", "http", "ResponseWriter"])], []],
                              ["Name", [], [[[], STR]]]]],
        _f(["p", "Person", "0"], "done", [], [], [["return", []]]),
        _f(["b", "Base", "0"], "Reset", [], [], [["expr", ["b", "clear", []]]]),
        ["struct", "Base", [_p("id", INT)]],
        _f([], "sum", [[["a", "b"], INT]], [[[], INT]], [], "0"),
        ["type", "Names", ["arr", "string"]],
        _f(["n", "Names", "0"], "Len", [], [[[], INT]], [["return", [["int", "0"]]]]),
        _f(["b", "Base", "1"], "clear", [], [], [])]]),
    ("ex_other_file", "go", ["demo", [["", "fmt"]], [
        _f(["e", "Elsewhere", "1"], "Run", [_p("n", INT)], [],
           [["expr", ["fmt", "Println", [["id", "n"]]]], ["expr", ["e", "stop", []]]]),
        ["struct", "A", [_p("x", INT)]],
        _f(["e", "Elsewhere", "0"], "stop", [], [], [])]]),
    ("ex_py_nested", "py", [
        ["import", [["os", ""]]], ["from", "m", [["f1", ""], ["f2", ""]], "0"],
        ["node", ["1", [["dataclass", []]], "Outer", [
            ["0", [], "create", [["0", [["cache", []]], "inner", []]]],
            ["1", [], "Inner", [["0", [], "im", []], ["1", [], "Deep", [["0", [], "dm", []]]]]],
            ["0", [], "save", []]]]],
        ["node", ["0", [["cache", []]], "index", [["0", [], "helper", []]]]]]),
    ("ex_py_local_class", "py", [["node", ["0", [], "f", [["1", [], "C", [["0", [], "m", []]]]]]]]),
    ("ex_py_flat", "py", [
        ["import", [["os", ""]]], ["import", [["numpy", "np"]]], ["from", "..pkg.mod", [["f1", ""], ["f2", ""]], "0"],
        ["node", ["1", [["dataclass", []]], "Blog", [["0", [["staticmethod", []]], "create", []], ["0", [], "save", []]]]],
        ["node", ["0", [["app.route", ['"/x"']], ["cache", []]], "index", []]],
        ["node", ["1", [], "Empty", []]]]),
    ("ex_py_import_list", "py", [["import", [["a", ""], ["b", ""]]]]),
    ("ex_py_nested_def", "py", [
        ["node", ["1", [], "C", [["0", [], "m", [["0", [], "inner", []]]]]]],
        ["node", ["0", [], "top", [["0", [], "nested", []]]]]]),
    ("ex_py_from_as", "py", [["from", "m", [["x", "y"]], "0"]]),
    ("ex_py_nested_class", "py", [
        ["node", ["1", [], "Outer", [["1", [], "Inner", [["0", [], "im", []]]], ["0", [], "om", []]]]]]),
    ("py_nested_def_shadows_method", "py", [
        ["node", ["1", [], "Blog", [["0", [], "save", [["0", [["staticmethod", []]], "inner", []]]],
                                    ["0", [], "inner", []]]]]]),
]

# ------------------------------------------------------------------ cases
def _case(name, lang, val, extra_tags):
    tags = [lang] + extra_tags + [t for t in (go_tags(val) if lang.startswith("go") else py_tags(val))
                                  if t not in extra_tags]
    return {"name": name, "tags": tags, "input": [lang, val]}

def cases(seed, tier):
    q = tier == "quick"
    out = [_case(name, lang, val, ["witness"]) for name, lang, val in WITNESSES]
    def stream(name, n, mk, lang):
        for i in range(n):
            rng = vlib.rng_for(seed, ID, name, i)
            out.append(_case("%s-%d" % (name, i), lang, mk(rng), [name]))
    # Go: the clean shape (one type declaration, methods after it) over all kinds
    stream("go_single", 70 if q else 3000,
           lambda r: gen_go(r, 1, order="after"), "go")
    stream("go_single_struct", 40 if q else 2000,
           lambda r: gen_go(r, 1, kinds=("struct",), order="after"), "go")
    stream("go_no_types", 15 if q else 500, lambda r: gen_go(r, 0), "go")
    # 1-6 type declarations, every order relative to the methods
    stream("go_multi_after", 50 if q else 3000, lambda r: gen_go(r, r.randint(2, 6), order="after"), "go")
    stream("go_multi_shuffled", 50 if q else 3000, lambda r: gen_go(r, r.randint(1, 6), order="shuffled"), "go")
    stream("go_ifaces", 15 if q else 500, lambda r: gen_go(r, r.randint(2, 4), kinds=("iface",), order="after"), "go")
    # one sub-stream per defect shape
    stream("two_structs", 15 if q else 500,
           lambda r: gen_go(r, 2, kinds=("struct",), order="after", methods_per_type=r.randint(1, 2)), "go")
    stream("method_before_type", 15 if q else 500,
           lambda r: gen_go(r, 1, kinds=("struct", "type"), order="before", methods_per_type=r.randint(1, 2)), "go")
    def other_file(r):
        # methods whose receiver type is declared in another file of the package
        f = gen_go(r, r.randint(0, 2), order="shuffled")
        for mn in r.sample(METHOD_NAMES, r.randint(1, 3)):
            m = gen_func(r, [r.choice(["e", ""]), r.choice(["Elsewhere", "Remote"]), r.choice(["0", "1"])], mn,
                         [d[1] for d in f[2] if d[0] != "func"], f[1], [])
            f[2].insert(r.randint(0, len(f[2])), m)
        return f
    stream("recv_other_file", 15 if q else 500, other_file, "go")
    stream("bodyless_func", 12 if q else 300,
           lambda r: gen_go(r, 1, order="after", bodyless=True, n_funcs=r.randint(1, 2)), "go")
    stream("grouped_names", 15 if q else 500,
           lambda r: gen_go(r, 1, kinds=("struct",), order="after", grouped=True, n_funcs=2), "go")
    stream("call_in_if", 15 if q else 500,
           lambda r: gen_go(r, 1, kinds=("struct",), order="after", in_if=True, n_funcs=2, methods_per_type=2), "go")
    # Python
    stream("py_plain", 80 if q else 4000, lambda r: gen_py(r), "py")
    # modules well above the 32 slots of the lexer's token ring: many classes / functions, up to a few hundred lines
    def py_long(r):
        items = [gen_pyimport(r) for _ in range(r.randint(0, 3))]
        n = r.randint(12, 60)
        decls = []
        for i in range(n):
            if r.random() < 0.3:
                decls.append(gen_pynode(r, True, r.choice(PY_CLASSES) + str(i), 0, r.random() < 0.3, r.random() < 0.3))
            else:
                decls.append(gen_pynode(r, False, "fn%d" % i, 0, r.random() < 0.3, False))
        return items + [["node", d] for d in decls]
    stream("py_long", 25 if q else 600, py_long, "py")
    stream("py_import_list", 12 if q else 400, lambda r: gen_py(r, imp_list=True), "py")
    stream("py_nested_def", 15 if q else 500, lambda r: gen_py(r, nested_def=True, n_decl=1), "py")
    stream("py_nested_class", 12 if q else 400, lambda r: gen_py(r, nested_class=True, n_decl=1), "py")
    stream("py_from_as", 10 if q else 300, lambda r: gen_py(r, from_as=True), "py")
    stream("py_local_class", 10 if q else 300, lambda r: gen_py(r, local_class=True, n_decl=1), "py")
    # the same class / method / function name several times in one module (classes local to two methods,
    # getter / setter pairs, redefinitions): nothing may be looked up by name
    def py_dups(r):
        items = gen_py(r, nested_def=r.random() < 0.3, nested_class=r.random() < 0.3, local_class=r.random() < 0.6,
                       n_decl=r.randint(1, 2))
        nodes = [it[1] for it in items if it[0] == "node"]
        classes = [n for n in nodes if n[0] == "1"]
        for c in classes:
            defs = [k for k in c[3] if k[0] == "0"]
            if defs and r.random() < 0.7:
                d = r.choice(defs)
                c[3].insert(r.randint(0, len(c[3])), ["0", [[d[2] + ".setter", []]] if r.random() < 0.6 else gen_decos(r, 0.5), d[2], []])
        if len(classes) >= 2 and r.random() < 0.5:
            classes[1][2] = classes[0][2]                       # a class redefined
        fns = [n for n in nodes if n[0] == "0"]
        if fns and r.random() < 0.5:
            f = r.choice(fns)
            items.append(["node", ["0", gen_decos(r, 0.5), f[2], []]])   # a function redefined
        return items
    stream("py_dups", 25 if q else 800, py_dups, "py")
    stream("py_mixed", 40 if q else 3000,
           lambda r: gen_py(r, imp_list=r.random() < 0.3, nested_def=r.random() < 0.4,
                            nested_class=r.random() < 0.3, from_as=r.random() < 0.2,
                            local_class=r.random() < 0.3), "py")
    # analysis.CommonAnalysis (function base) over a directory holding one file of the clean shapes
    stream("go_common", 25 if q else 1000, lambda r: gen_go(r, r.randint(0, 1), order="after"), "go-common")
    stream("py_common", 20 if q else 800, lambda r: gen_py(r), "py-common")
    return out

# ------------------------------------------------------------------ glue
def canon(out):
    if isinstance(out, list) and len(out) == 5 and out[0] == "ok":
        return [out[0], out[1], out[2], sorted(out[3], key=vlib.sx_dump), out[4]]
    if isinstance(out, list) and len(out) == 2 and out[0] == "ok":
        return [out[0], sorted(out[1], key=vlib.sx_dump)]
    return out

def clauses(spec_out):
    return list(spec_out)

def finding_matches(f, clause, case):
    return clause.split(":")[0] == f.get("clause") and f.get("tag") in case.get("tags", [])

def nontrivial(c):
    mo = c.get("model_out")
    if not isinstance(mo, list) or not mo:
        return False
    if mo[0] == "PANIC":
        return True
    if mo[0] == "ok" and len(mo) == 5:
        return bool(mo[3]) or bool(mo[4])
    if mo[0] == "ok" and len(mo) == 4:
        return bool(mo[2]) or bool(mo[3])
    if mo[0] == "ok" and len(mo) == 2:
        return bool(mo[1])
    return False

def shrink(inp):
    lang, v = inp
    if lang.startswith("go"):
        pkg, imports, decls = v
        for i in range(len(decls)):
            yield [lang, [pkg, imports, decls[:i] + decls[i+1:]]]
        for i in range(len(imports)):
            yield [lang, [pkg, imports[:i] + imports[i+1:], decls]]
        for i, d in enumerate(decls):
            if d[0] == "func":
                for j in range(len(d[6])):
                    d2 = list(d); d2[6] = d[6][:j] + d[6][j+1:]
                    yield [lang, [pkg, imports, decls[:i] + [d2] + decls[i+1:]]]
                for j, st in enumerate(d[6]):
                    if st[0] in ("if", "block"):
                        # splice the nested statements in place of the compound one
                        inner = st[1] + (st[2] if st[0] == "if" else [])
                        d2 = list(d); d2[6] = d[6][:j] + inner + d[6][j+1:]
                        yield [lang, [pkg, imports, decls[:i] + [d2] + decls[i+1:]]]
                for idx in (3, 4):
                    for j in range(len(d[idx])):
                        d2 = list(d); d2[idx] = d[idx][:j] + d[idx][j+1:]
                        yield [lang, [pkg, imports, decls[:i] + [d2] + decls[i+1:]]]
            elif d[0] in ("struct", "iface"):
                for j in range(len(d[2])):
                    d2 = list(d); d2[2] = d[2][:j] + d[2][j+1:]
                    yield [lang, [pkg, imports, decls[:i] + [d2] + decls[i+1:]]]
    else:
        for i in range(len(v)):
            yield [lang, v[:i] + v[i+1:]]
        for i, it in enumerate(v):
            if it[0] == "node":
                n = it[1]
                for j in range(len(n[3])):
                    n2 = [n[0], n[1], n[2], n[3][:j] + n[3][j+1:]]
                    yield [lang, v[:i] + [["node", n2]] + v[i+1:]]
                if n[1]:
                    yield [lang, v[:i] + [["node", [n[0], [], n[2], n[3]]]] + v[i+1:]]
            elif it[0] == "import" and len(it[1]) > 1:
                for j in range(len(it[1])):
                    yield [lang, v[:i] + [["import", it[1][:j] + it[1][j+1:]]] + v[i+1:]]

def pretty(c):
    try:
        return render(c["input"]).split("\n")
    except Exception as e:
        return ["<unrenderable: %r>" % (e,)]
