"""C04 -- reverse call graph is the exact inverse of the project-internal call relation."""
import vlib
from genmodel import *

ID = "C04"
HARNESS_ENV = {"COCA_BIN": __import__("os").path.join(vlib.ROOT, "harness", "bin", "coca")}
MODEL_ENTRY = "C04.model"
SPEC_ENTRY = "C04.spec"
HARNESS_OP = "C04"
FRESH_PROCESS = False     # BuildRCallChain re-initialises its state (C07 checks histories)
CASE_TIMEOUT = "10s"
RULE = ("random method multigraphs (1-6 classes, 1-25 methods, out-degree 0-8, cycles, self-loops, parallel "
        "edges, unresolved and receiver-less callees, names with quotes) plus structured families "
        "(caller invoking the target k times, callers with their own callers, cycles through the target, "
        "diamonds); a case is non-trivial when the target has at least one caller; distinct = distinct input"
        '; every third history is also run through `coca rcall -c TARGET -d deps.json`, all its targets in one report directory (rcall.dot and rcallmap.json as they stand after each run)')
TRUSTED_BASE = ["modelled, not verified: Go map iteration (the reverse map is compared as a map), string concatenation"]
ASSUMPTIONS = ["the harness reads the reverse-call map through the writeCallback argument and sorts it by key",
               "DOT well-formedness is decided by Lib/Dot.v's parser for the statement shapes coca prints"]

def canon(out):
    # per query: (map sorted by key, dot text)
    return [[sorted(q[0], key=lambda e: e[0]), q[1]] for q in out]

def clauses(spec_out):
    out = []
    for qi, q in enumerate(spec_out):
        out += ["%s:query%d" % (cl, qi) for cl in q]
    return out

def finding_matches(f, clause, case):
    return clause.split(":")[0] == f.get("clause") and f.get("tag") in case.get("tags", [])

def nontrivial(c):
    mo = c.get("model_out")
    return bool(mo) and not isinstance(mo[0], str) and any('->' in q[1] for q in mo)

def family(rng, kind):
    """structured graphs around the target p.T.t"""
    T = ("p", "T", "t")
    def call_to(x): return mk_call(x[0], x[1], x[2])
    if kind == "dup_caller":
        k = rng.randint(2, 4)
        a = mk_func("a", [call_to(T)] * k)
        b = mk_func("b", [mk_call("p", "A", "a")] * rng.randint(1, 2))
        return [mk_ds("T", "p", [mk_func("t")]), mk_ds("A", "p", [a, b])]
    if kind == "callers_with_callers":
        a = mk_func("a", [call_to(T)])
        b = mk_func("b", [call_to(T), mk_call("p", "A", "a")])
        c = mk_func("c", [mk_call("p", "A", "b"), mk_call("p", "A", "a")])
        return [mk_ds("T", "p", [mk_func("t")]), mk_ds("A", "p", [a, b, c])]
    if kind == "cycle_through_target":
        t = mk_func("t", [mk_call("p", "A", "a")])
        a = mk_func("a", [call_to(T)])
        b = mk_func("b", [call_to(T), mk_call("p", "T", "t")] )
        return [mk_ds("T", "p", [t]), mk_ds("A", "p", [a, b])]
    if kind == "self_recursive_target":
        t = mk_func("t", [call_to(T), call_to(T)])
        a = mk_func("a", [call_to(T)])
        return [mk_ds("T", "p", [t]), mk_ds("A", "p", [a])]
    if kind == "deep_chain":
        n = rng.randint(3, 10)
        fs = [mk_func("f0", [call_to(T)])]
        for i in range(1, n):
            fs.append(mk_func("f%d" % i, [mk_call("p", "A", "f%d" % (i - 1))]))
        return [mk_ds("T", "p", [mk_func("t")]), mk_ds("A", "p", fs)]
    if kind == "wide":
        n = rng.randint(2, 12)
        fs = [mk_func("f%d" % i, [call_to(T)]) for i in range(n)]
        return [mk_ds("T", "p", [mk_func("t")]), mk_ds("A", "p", fs)]
    if kind == "quote_names":
        a = mk_func('a"b', [mk_call("p", 'T"', "t")])
        return [mk_ds('T"', "p", [mk_func("t")]), mk_ds("A", "p", [a])]
    raise ValueError(kind)

FAMILIES = ["dup_caller", "callers_with_callers", "cycle_through_target", "self_recursive_target",
            "deep_chain", "wide", "quote_names"]

def cases(seed, tier):
    n_random = 400 if tier == "quick" else 20000
    out = []
    for kind in FAMILIES:
        for j in range(3 if tier == "quick" else 30):
            rng = vlib.rng_for(seed, ID, kind, j)
            m = family(rng, kind)
            t = 'p.T".t' if kind == "quote_names" else "p.T.t"
            out.append({"name": "%s-%d" % (kind, j), "tags": [kind], "input": [m, [t]]})
    for i in range(n_random):
        rng = vlib.rng_for(seed, ID, "random", i)
        quotes = rng.random() < 0.15
        m = random_graph_model(rng, quotes=quotes, dense=rng.random() < 0.2)
        t = pick_target(rng, m)
        out.append({"name": "random-%d" % i, "tags": ["random"] + (["quotes"] if quotes else []),
                    "input": [m, [t]]})
    return out

def shrink(inp):
    m, ts = inp
    # drop a class, a method, a call
    for i in range(len(m)):
        yield [m[:i] + m[i+1:], ts]
    for i, d in enumerate(m):
        for j in range(len(d[7])):
            d2 = list(d); d2[7] = d[7][:j] + d[7][j+1:]
            yield [m[:i] + [d2] + m[i+1:], ts]
    for i, d in enumerate(m):
        for j, f in enumerate(d[7]):
            for k in range(len(f[3])):
                f2 = list(f); f2[3] = f[3][:k] + f[3][k+1:]
                d2 = list(d); d2[7] = d[7][:j] + [f2] + d[7][j+1:]
                yield [m[:i] + [d2] + m[i+1:], ts]

def pretty(c):
    m, ts = c["input"]
    lines = ["targets: %r" % ts]
    for d in m:
        for f in d[7]:
            lines.append("%s.%s.%s -> %s" % (d[2], d[0], f[0],
                         ", ".join("%s.%s.%s" % (cl[0], cl[2], cl[3]) for cl in f[3])))
    return lines
