"""C09 -- every pass completes without crashing on any valid Java source."""
import os, re, glob
import vlib
import javagen as J
import javawide as W

ID = "C09"
MODEL_ENTRY = "C09.model"
SPEC_ENTRY = "C09.spec"
HARNESS_OP = "C09"
FRESH_PROCESS = True
CASE_TIMEOUT = "120s"
RULE = ("stream wide: single compilation units from a generator that is valid by construction against the grammar coca "
        "ships (nested / anonymous / local / enum / record / annotation types, generics, wildcards, lambdas, method "
        "references, arrays and initialisers, static / instance initialisers, receiver parameters, every annotation argument "
        "form incl. type annotations inside qualified names, switch expressions, patterns, text blocks, non-ASCII "
        "identifiers and literals); stream project: 1-4 conventional files plus one wide file (one unusual file must not abort "
        "the project: entry counts are checked); stream fixture: every .java file below _fixtures as it is and under "
        "rewrites that preserve validity (CRLF, trailing line comments, a leading block comment, a consistent identifier "
        "rename). Every file is first parsed with the shipped grammar and a counting error listener; a file with a syntax "
        "error is not a valid input and is set aside (counted in the distribution). Then the identifier pass, the full "
        "pass, the bad-smell pass, the API scan, the unused-import scan and the todo scan run under recover() and their "
        "results are serialised; non-trivial = all files valid; distinct = distinct input")
TRUSTED_BASE = ["the ANTLR runtime and the generated parser are not modelled; crash-freedom of the listeners is established "
                "(a) for nil dereferences of child accessors by the Coq theorem over the access / grammar tables regenerated "
                "from the sources by tools/gen_shapes.py (syntactic translator: trusted; its guard recognition covers nil "
                "tests in enclosing if conditions and early returns), (b) for everything else by these runs only",
                "validity of a generated file = zero syntax errors reported by the shipped grammar"]
ASSUMPTIONS = ["valid = a sentence of languages/java/JavaParser.g4 (the property's own definition)"]

JAVA_KEYWORDS = set("""abstract assert boolean break byte case catch char class const continue default do double else enum
extends final finally float for goto if implements import instanceof int interface long native new package private protected
public return short static strictfp super switch synchronized this throw throws transient try void volatile while true false
null var record yield sealed permits module open requires exports opens uses provides with transitive non""".split())

def rewrites(rng, text):
    r = rng.random()
    if r < 0.2: return "as-is", text
    if r < 0.4: return "crlf", text.replace("\r\n", "\n").replace("\n", "\r\n")
    if r < 0.6:
        out = []
        for line in text.split("\n"):
            # not after a line that may sit inside a text block or ends in a backslash
            out.append(line + (" // verif" if rng.random() < 0.3 and '"""' not in line and not line.rstrip().endswith("\\") else ""))
        return "line-comments", "\n".join(out) if '"""' not in text else text
    if r < 0.8: return "leading-comment", "/*\n * licence: none\n * TODO(nobody): nothing\n */\n" + text
    words = sorted(set(w for w in re.findall(r"\b[a-z][A-Za-z0-9]{3,}\b", text) if w not in JAVA_KEYWORDS))
    if not words: return "as-is", text
    w = rng.choice(words)
    return "rename", re.sub(r"\b%s\b" % re.escape(w), w + "Xq", text)

def fixture_files():
    repo = os.environ.get("COCA_REPO", "/repo")
    return sorted(glob.glob(os.path.join(repo, "_fixtures", "**", "*.java"), recursive=True))

def cases(seed, tier):
    nwide = 250 if tier == "quick" else 6000
    nproj = 60 if tier == "quick" else 1200
    rounds = 1 if tier == "quick" else 6
    out = []
    for i in range(nwide):
        rng = vlib.rng_for(seed, ID, "wide", i)
        g = W.G(rng, nonascii=rng.random() < 0.7, depth=rng.choice([2, 3, 3, 4]))
        out.append({"name": "wide-%d" % i, "tags": ["wide"], "input": [[["p/W%d.java" % i, g.unit()]], "0"]})
    for i in range(nproj):
        rng = vlib.rng_for(seed, ID, "project", i)
        project = J.rand_project(rng, rng.randint(1, 4))
        files = []
        for k in range(len(project)):
            u = J.rand_unit(rng, k, project, path_dir="src")
            files.append([u.path, u.text])
        g = W.G(rng)
        files.append(["src/unusual/Odd%d.java" % i, g.unit()])
        if rng.random() < 0.4:
            files.append(["src/A0Blank.java", ""])                                   # zero bytes: a valid unit that declares nothing
            files.append(["src/pkgdoc/package-info.java", "/** docs */\npackage pkgdoc;\n"])
        files.sort()
        out.append({"name": "project-%d" % i, "tags": ["project"], "input": [files, str(len(project))]})
    fx = fixture_files()
    for rd in range(rounds):
        for i, path in enumerate(fx):
            rng = vlib.rng_for(seed, ID, "fixture", rd, i)
            try:
                text = open(path, encoding="utf-8").read()
            except UnicodeDecodeError:
                continue
            kind, text2 = ("as-is", text) if rd == 0 and tier == "quick" and i % 2 == 0 else rewrites(rng, text)
            rel = os.path.relpath(path, os.environ.get("COCA_REPO", "/repo"))
            out.append({"name": "fixture-%d-%d:%s" % (rd, i, kind), "tags": ["fixture", kind],
                        "input": [[["f/" + os.path.basename(path), text2]], "0"], "origin": rel})
    return out

def harness_input(c):
    return c["input"][0]

def invalid(c):
    o = c.get("impl_out")
    return isinstance(o, list) and o and isinstance(o[0], list) and any(x != "" for x in o[0])

def canon(out):
    if not isinstance(out, list) or (out and isinstance(out[0], str)):
        return out
    return [out[0]] + [[p[0], [p[1][0]]] if isinstance(p, list) and len(p) == 2 and isinstance(p[1], list) else p for p in out[1:]]

def agree(c):
    if invalid(c): return True                 # not a valid input: nothing is claimed about it
    return canon(c["model_out"]) == canon(c["impl_out"])

def clauses(spec_out):
    return sorted(set(spec_out))

def post_clauses(c, cl):
    return [] if invalid(c) else cl

def finding_matches(f, clause, case):
    return clause.split(":")[0] == f.get("clause") and f.get("tag") in case.get("tags", [])

def nontrivial(c):
    return not invalid(c)

def shrink(inp):
    files, n = inp
    if len(files) > 1:
        for i in range(len(files)):
            yield [files[:i] + files[i + 1:], "0"]
    # drop lines of the single (or last) file while it stays valid and still fails
    path, text = files[-1]
    lines = text.split("\n")
    step = max(1, len(lines) // 8)
    for i in range(0, len(lines), step):
        yield [files[:-1] + [[path, "\n".join(lines[:i] + lines[i + step:])]], n]

def pretty(c):
    out = []
    for p, t in c["input"][0]:
        out.append("== " + p + ("   (from %s)" % c["origin"] if "origin" in c else ""))
        out += ["   | " + l for l in t.split("\n")][:200]
    return out
