"""C11 -- test-smell findings are exactly those evidenced in the test sources."""
import vlib
import javagen as J
import C01

ID = "C11"
HARNESS_ENV = {"COCA_BIN": __import__("os").path.join(vlib.ROOT, "harness", "bin", "coca")}
MODEL_ENTRY = "C11.model"
SPEC_ENTRY = "C11.spec"
HARNESS_OP = "java.tbs"
FRESH_PROCESS = True
CASE_TIMEOUT = "60s"
RULE = ("trees of conventional test classes (*Test.java, *Tests.java, anything under src/test/java/<package dirs>) mixed "
        "with production classes; test methods assembled from evidence atoms (print x0-3, sleep x0-2, identical-argument "
        "calls, one assertion name called 3-7 times, helper calls with / without assertions inside, creations, no call, "
        "exactly one call) in random order, @Test / @Ignore alone or together in either order, helper and plain methods; "
        "flat and Maven layouts; non-trivial = at least one expected finding; distinct = distinct input"
        '; a default-package test class walked after the packaged ones in a quarter of the trees'
        '; every other tree is observed through `coca tbs -p DIR` (coca_reporter/tbs.json); two trees in five are analysed from inside the project (root `.`)')
TRUSTED_BASE = C01.TRUSTED_BASE
ASSUMPTIONS = ["a method-level finding is identified by the line of the method's NAME (the statement does not fix it; the full pass records that line since 00fa4f2)", "helpers contain only assertion or plain calls; an assertion is a call whose lower-cased name starts with one of "
               "assert/should/check/maynotbe/is/spec/verify (the documented list)"]

# assertion names as libraries spell them: the documented prefixes match whatever the capitalisation
ASSERT_NAMES = ["assertTrue", "assertTrue", "assertTrue", "mayNotBeEmpty", "AssertValid", "VerifyAll", "shouldHold", "checkState",
                "isValid", "specHolds", "verifyZeroInteractions"]
# annotations that keep company with @Test / @Ignore
COMPANY = [lambda: J.Annotation("DisplayName", value=['"x"']), lambda: J.Annotation("Tag", value=['"slow"']),
           lambda: J.Annotation("Deprecated"), lambda: J.Annotation("SuppressWarnings", value=['"unchecked"'])]

def gen_test_class(rng, pkg, name, path, foreign=None, dup_bias=False):
    imports = [J.Import("org.junit.Test"), J.Import("org.junit.Ignore")]
    static_assert = rng.random() < 0.7
    if static_assert:
        imports.append(J.Import("org.junit.Assert.assertEquals", static=True))
        imports.append(J.Import("org.junit.Assert.assertTrue", static=True))
    members, xmethods = [], []
    # helpers
    helpers = []
    nh = rng.randint(0, 3)
    for h in range(nh):
        has_assert = rng.random() < 0.5 if nh < 2 else (h % 2 == 0) == (rng.random() < 0.8)
        body = [J.ExprS(J.Call(None, "verifyState" if has_assert else "prepare", [J.Lit(str(h))]))]
        if rng.random() < 0.5: body.append(J.ExprS(J.Call(J.Name("repo"), "load", [])))
        hm = J.Method("helper%d" % h, None, [], body, ["private"])
        helpers.append((hm, has_assert))
        if rng.random() < 0.3:
            # an overload of the helper with one parameter that does the opposite (asserts / does not assert): a call
            # is a call of the overload its argument count selects
            obody = [J.ExprS(J.Call(None, "prepare" if has_assert else "verifyState", [J.Name("x")]))]
            om = J.Method("helper%d" % h, None, [(J.T("int"), "x")], obody, ["private"])
            helpers.append((om, not has_assert))
    nt = rng.randint(1, 5) if not dup_bias else rng.randint(7, 9)
    tests = []
    for i in range(nt):
        r = rng.random() if not dup_bias else 0.1
        mods = []
        test = ignore = False
        if r < 0.55: mods = [J.Annotation("Test")]; test = True
        elif r < 0.65: mods = [J.Annotation("Ignore")]; ignore = True
        elif r < 0.75: mods = [J.Annotation("Test"), J.Annotation("Ignore", value=['"later"'])]; test = ignore = True
        elif r < 0.85: mods = [J.Annotation("Ignore"), J.Annotation("Test")]; test = ignore = True
        else: mods = []          # plain method of the test class
        if mods and rng.random() < 0.25:
            # another annotation before, between or after the markers
            mods.insert(rng.randint(0, len(mods)), rng.choice(COMPANY)())
        if rng.random() < 0.8: mods.append("public")
        atoms, stmts = [], []
        shape = rng.random() if not dup_bias else 0.3
        aname = rng.choice(ASSERT_NAMES)
        def add(kind):
            if kind == "print":
                fn = rng.choice(["println", "print", "printf"])
                stmts.append(("print", J.ExprS(J.Call(J.FieldAcc(J.Name("System"), "out"), fn, [J.Lit('"x"')]))))
            elif kind == "sleep":
                stmts.append(("sleep", J.ExprS(J.Call(J.Name("Thread"), "sleep", [J.Lit("10")]))))
            elif kind == "redundant":
                if rng.random() < 0.7:
                    stmts.append(("redundant_assert", J.ExprS(J.Call(None, "assertEquals", [J.Lit("1"), J.Lit("1")]))))
                else:
                    stmts.append(("redundant_plain", J.ExprS(J.Call(J.Name("repo"), "put", [J.Name("k"), J.Name("k")]))))
            elif kind == "assert":
                stmts.append(("assert:" + aname, J.ExprS(J.Call(None, aname, [J.Call(J.Name("repo"), "ok", [])]))))
            elif kind == "call":
                stmts.append(("call", J.ExprS(J.Call(J.Name("repo"), "save", [J.Lit("1")]))))
            elif kind == "new":
                stmts.append(("new", J.Local(J.T("Foo"), "f%d" % len(stmts), J.New(J.T("Foo"), []))))
            elif kind == "foreign" and foreign:
                # a method of ANOTHER analysed test class, called by name: an ordinary call, not a helper of this class
                stmts.append(("call", J.ExprS(J.Call(J.Name(foreign), rng.choice(["roundTrip", "dump"]), []))))
            elif kind == "helper" and helpers:
                hm, ha = rng.choice(helpers)
                stmts.append(("helper_assert" if ha else "helper_plain", J.ExprS(J.Call(None, hm.name, [J.Lit("7")] if hm.params else []))))
        if shape < 0.12:
            pass                                   # no call at all
        elif shape < 0.24:
            add(rng.choice(["call", "assert", "print", "new", "helper"]))   # exactly one
        elif shape < 0.4:
            for _ in range(rng.randint(3, 7) if not dup_bias else rng.randint(5, 6)): add("assert")               # duplicate-assert boundary
            if rng.random() < 0.5: add("call")
        elif shape < 0.52 and len(helpers) >= 2:
            # no direct assertion: several helpers of the class, asserting and plain ones in any order
            for _ in range(rng.randint(2, 4)): add("helper")
            if rng.random() < 0.5: add("call")
        elif shape < 0.6 and foreign:
            for _ in range(rng.randint(1, 2)): add("foreign")            # only calls into the other class
            if rng.random() < 0.5: add("call")
        else:
            for _ in range(rng.randint(1, 6)):
                add(rng.choice(["print", "print", "sleep", "redundant", "assert", "call", "call", "new", "helper"] + (["foreign", "foreign"] if foreign else [])))
        rng.shuffle(stmts)
        m = J.Method("test%d" % i if (test or ignore) else "util%d" % i, None, [], [s for _, s in stmts], mods)
        tests.append((m, test, ignore, stmts))
    members = [J.Field(J.T("Repo"), ["repo"], ["private"])] + [h for h, _ in helpers]
    for (m, *_rest) in tests:
        members.insert(rng.randint(1, len(members)), m)
    u = J.Unit(path, pkg, imports, "class", name, members)
    J.render(u, rng, rng.choice(["std", "std", "sparse", "random"]))
    xm = []
    for (m, test, ignore, stmts) in tests:
        atoms = []
        for kind, s in stmts:
            e = s.e if s.k == "expr" else s.init
            line = u.toks[e.name_tok].line if e.k == "call" else 0
            if kind == "print": atoms.append(["print", str(line)])
            elif kind == "sleep": atoms.append(["sleep", str(line)])
            elif kind == "redundant_assert": atoms.append(["redundant", "1", "assertEquals"])
            elif kind == "redundant_plain": atoms.append(["redundant", "0", "put"])
            elif kind.startswith("assert:"):
                atoms.append(["assert", kind[7:]]); atoms.append(["call"])      # assertTrue(repo.ok()) holds a second call
            elif kind == "call": atoms.append(["call"])
            elif kind == "new": atoms.append(["new"])
            elif kind == "helper_assert": atoms.append(["helper", "1"])
            elif kind == "helper_plain": atoms.append(["helper", "0"])
        xm.append([m.name, str(u.toks[m.name_tok].line), "1" if test else "0", "1" if ignore else "0", atoms])
    return u, xm

def gen(rng, dup_bias=False):
    maven = rng.random() < 0.5
    units, exps = [], []
    n = rng.randint(1, 4)
    foreign = None
    if rng.random() < 0.4:
        # a class of the test tree without tests of its own, whose methods assert / print / sleep
        foreign = "FixturesTest"
        fpkg = "com.acme"
        fpath = ("src/test/java/" if maven else "") + fpkg.replace(".", "/") + "/" + foreign + ".java"
        fm = [J.Method("roundTrip", None, [], [J.ExprS(J.Call(None, "assertTrue", [J.Lit("true")])),
                                                J.ExprS(J.Call(J.FieldAcc(J.Name("System"), "out"), "println", [J.Lit('"f"')]))], ["public", "static"]),
              J.Method("dump", None, [], [J.ExprS(J.Call(J.Name("Thread"), "sleep", [J.Lit("5")]))], ["public", "static"])]
        fu = J.Unit(fpath, fpkg, [], "class", foreign, fm)
        J.render(fu, rng, "std")
        units.append(fu); exps.append([fpath, "1", []])
    if not foreign and rng.random() < 0.12:
        # test12 on line L and test1 on line "2L" in one column: name followed by line reads the same for both
        cu = J.colliding_unit(rng, "com.acme", "TallyTest", path_dir="src/test/java" if maven else "", same_name=False,
                              annotate=J.Annotation("Test"))
        if cu is not None:
            xm = []
            for m in cu.members:
                if isinstance(m, J.Method) and m.name in ("test12", "test1"):
                    atoms = []
                    for s0 in m.body:
                        e = s0.e
                        if e.name == "sleep": atoms.append(["sleep", str(cu.toks[e.name_tok].line)])
                        elif e.name == "assertTrue": atoms.append(["assert", "assertTrue"])
                        else: atoms.append(["call"])
                    xm.append([m.name, str(cu.toks[m.name_tok].line), "1", "0", atoms])
                elif isinstance(m, J.Method):
                    xm.append([m.name, str(cu.toks[m.name_tok].line), "0", "0", [["call"]] if m.body else []])
            units.append(cu); exps.append([cu.path, "1", xm])
    for i in range(n):
        pkg = "com.acme" if foreign else rng.choice(["com.acme", "com.acme.core"])
        r = rng.random()
        if not foreign and i == n - 1 and rng.random() < 0.25:
            # a test class of the DEFAULT package (no package declaration), walked after the packaged ones
            name = "Smoke%dTest" % i
            path = "zsmoke/" + name + ".java"
            u, xm = gen_test_class(rng, "", name, path, None)
            units.append(u); exps.append([path, "1", xm])
            continue
        if r < 0.6:
            name = "K%d" % i + rng.choice(["Test", "Tests"])
            path = ("src/test/java/" if maven else "") + pkg.replace(".", "/") + "/" + name + ".java"
            is_test = True
        elif r < 0.75 and maven:
            name = "Spec%d" % i
            path = "src/test/java/" + pkg.replace(".", "/") + "/" + name + ".java"
            is_test = True
        else:
            name = "Prod%d" % i
            path = ("src/main/java/" if maven else "") + pkg.replace(".", "/") + "/" + name + ".java"
            is_test = False
        u, xm = gen_test_class(rng, pkg, name, path, foreign if is_test else None, dup_bias=dup_bias and is_test)
        units.append(u); exps.append([path, "1" if is_test else "0", xm])
    extra = []
    if maven and rng.random() < 0.5:
        extra.append(["src/test/java/" + "com/acme/notes.txt", "not java\n"])
    if maven and rng.random() < 0.5:
        extra.append(["src/test/resources/data.json", "{}\n"])
    order = C01.walk_order([u.path for u in units] + [p for p, _ in extra])
    facts, texts = [], []
    for p in order:
        u = next((x for x in units if x.path == p), None)
        if u is not None:
            facts.append([p, "0", "1", J.unit_fact(u)]); texts.append([p, u.text])
        else:
            facts.append([p, "0", "0", ["", "", "0", [], "class", "", [], [], [], []]])
            texts.append([p, next(t for q, t in extra if q == p)])
    tags = ["maven" if maven else "flat"]
    if any(len(m[4]) == 1 and m[2] == "1" for e in exps if e[1] == "1" for m in e[2]):
        tags.append("one_call_test")
    return facts, texts, exps, tags

def harness_input(c):
    return c["texts"]

def canon(out):
    if not isinstance(out, list) or (out and isinstance(out[0], str)):
        return out
    return sorted(out)

def clauses(spec_out):
    return sorted(set(spec_out))

def finding_matches(f, clause, case):
    return clause.split(":")[0] == f.get("clause") and f.get("tag") in case.get("tags", [])

def nontrivial(c):
    mo = c.get("model_out")
    return isinstance(mo, list) and len(mo) > 0 and not isinstance(mo[0], str)

def cases(seed, tier):
    n = 200 if tier == "quick" else 4000
    out = []
    for i in range(n):
        rng = vlib.rng_for(seed, ID, "tree", i)
        facts, texts, exps, tags = gen(rng)
        out.append({"name": "tree-%d" % i, "tags": ["tree"] + tags, "input": [facts, exps], "texts": texts})
    return out

pretty = C01.pretty
