"""C18 -- reference counts and evaluation statistics equal what the model contains."""
import re
import vlib
import javagen as J
import genmodel as G
import C01

ID = "C18"
HARNESS_ENV = {"COCA_BIN": __import__("os").path.join(vlib.ROOT, "harness", "bin", "coca")}
MODEL_ENTRY = "C18.model"
SPEC_ENTRY = "C18.spec"
HARNESS_OP = "C18"
FRESH_PROCESS = True
CASE_TIMEOUT = "60s"
RULE = ("stream count: random code models (multigraphs of methods: parallel call sites, self calls, unresolved and "
        "receiver-less callees, constructor calls, overloads) through count.BuildCallMap + SortWord; stream java: "
        "projects of 1-5 classes/interfaces named with and without Util/Service, methods whose modifier list is a random "
        "permutation of a subset of {public|private|protected, static, final, abstract, synchronized} with "
        "@Nullable/@CheckForNull/@Override/@Deprecated mixed in at any position, bodies that return null on some path, "
        "return identifiers or strings containing the letters null, pass null as an argument, names in every camel-case "
        "shape (acronyms, single letters, digits, underscores, stop words), calls with multiplicities to declared and "
        "undeclared methods; through the two analysis passes, evaluate.Analyser, count.BuildCallMap and "
        "concept.ConceptAnalyser; non-trivial = a count / a nullable method / a concept word present; distinct = distinct input"
        '; every other model / project is observed through `coca count`, `coca concept` (the tables they print) and `coca evaluate` (coca_reporter/evaluate.json)')
TRUSTED_BASE = C01.TRUSTED_BASE + [
    "modelled, not verified: strcase.ToDelimited (third-party) is modelled over ASCII names; gonum's standard deviations and "
    "the method-length statistics of the summary are outside C18 and not compared",
    "the null-literal flag of a return statement comes from the generator's AST (token level), the model does not re-lex the text"]
ASSUMPTIONS = ["all files of the generated tree are selected (no test / ignored files: C01 covers selection)",
               "method names are ASCII"]

CLASS_NAMES = ["StringUtil", "DateUtils", "OrderService", "Futile", "UserServiceImpl", "Foo", "Bar", "Helper", "UTILS",
               "Order", "ServiceLocator", "Utility", "Repo", "UserServiceUtils", "ServiceUtil", "UtilService",
               "Contest", "Latest", "Backtests", "DateUtilsHelper"]      # production classes whose names merely end like the test suffixes; Util in the middle
WORDS = ["get", "set", "is", "find", "user", "order", "name", "by", "id", "the", "of", "to", "parse", "build", "all",
         "value", "list", "string", "update", "create", "with", "and", "account", "price", "total", "handle"]
ACRONYMS = ["XML", "JSON", "URL", "ID", "HTTP", "DTO", "IO"]

def camel_name(rng):
    r = rng.random()
    if r < 0.08:
        return rng.choice(["aB", "xYZ", "aBC", "iD", "x", "Q", "URL", "getX", "toJSON", "URLParser", "ABTest"])
    if r < 0.14:
        return rng.choice(["snake_case_name", "MAX_VALUE", "_private", "get_Name", "trailing_", "a__b", "find$user", "$x"])
    if r < 0.22:
        return rng.choice(["sha256Hash", "get2", "v2Api", "utf8To16", "a1b2c", "x1y2", "md5", "base64Encode", "top10Users", "is3D"])
    n = rng.randint(1, 4)
    parts = []
    for i in range(n):
        w = rng.choice(ACRONYMS) if rng.random() < 0.15 else rng.choice(WORDS)
        if i > 0 and w.islower(): w = w[0].upper() + w[1:]
        if i == 0 and not w.islower() and rng.random() < 0.5: w = w.lower()
        parts.append(w)
    return "".join(parts)

def mods_for(rng, kind, abstract_ok):
    mods = []
    if rng.random() < 0.8: mods.append(rng.choice(["public", "private", "protected"]))
    if rng.random() < 0.35: mods.append("static")
    if rng.random() < 0.2: mods.append("final")
    if rng.random() < 0.15: mods.append("synchronized")
    is_abstract = False
    if abstract_ok and "private" not in mods and "static" not in mods and "final" not in mods and "synchronized" not in mods and rng.random() < 0.15:
        mods.append("abstract"); is_abstract = True
    for a in ["Nullable", "CheckForNull", "Override", "Deprecated", "NotNull"]:
        if rng.random() < 0.12: mods.append(J.Annotation(a))
    rng.shuffle(mods)
    if rng.random() < 0.5:        # conventional order: annotations first
        mods = [m for m in mods if not isinstance(m, str)] + [m for m in mods if isinstance(m, str)]
    return mods, is_abstract

def body_for(rng, ret, callees, params):
    out = []
    for _ in range(rng.randint(0, 4)):
        if callees and rng.random() < 0.7:
            recv, name = rng.choice(callees)
            e = J.Call(J.Name(recv) if recv else None, name, [J.Lit("null")] if rng.random() < 0.1 else [])
            out.append(J.ExprS(e))
            if rng.random() < 0.25: out.append(J.ExprS(J.Call(J.Name(recv) if recv else None, name, [])))
        else:
            out.append(J.ExprS(J.Call(J.Name("log"), rng.choice(["info", "nullSafe", "debug"]), [J.Lit('"null"')] if rng.random() < 0.3 else [])))
    if ret is not None:
        r = rng.random()
        if r < 0.25:
            out.insert(rng.randint(0, len(out)), J.If(J.Name(params[0] if params else "flag"), [J.Return(J.Lit("null"))]))
            out.append(J.Return(J.Name("result")))
        elif r < 0.4:
            out.append(J.Return(J.Lit("null")))
        elif r < 0.5:
            out.append(J.Return(J.Name(rng.choice(["nullable", "nullValue", "isnull", "annulled"]))))
        elif r < 0.58:
            out.append(J.Return(J.Lit('"null"')))
        elif r < 0.66:
            out.append(J.Return(J.Call(J.Name("opt"), "orElse", [J.Lit("null")])))
        elif r < 0.72:
            out.append(J.Return(J.Paren(J.Lit("null"))))
        elif r < 0.78:
            out.append(J.Return(J.Bin("==", J.Name("result"), J.Lit("null"))))
        else:
            out.append(J.Return(J.Name("result")))
    return out

def gen_project(rng):
    n = rng.randint(1, 5)
    names = rng.sample(CLASS_NAMES, n)
    pkgs = [rng.choice(["com.acme", "com.acme.util", "org.demo"]) for _ in range(n)]
    # decide the method names of every class first so that calls can aim at them
    meths = []
    for i in range(n):
        k = rng.randint(0, 6)
        ms = [camel_name(rng) for _ in range(k)]
        if ms and rng.random() < 0.3: ms.append(rng.choice(ms))        # an overload: same name twice
        meths.append(ms)
    units = []
    for i in range(n):
        kind = "interface" if rng.random() < 0.15 else "class"
        imports, fields, callees = [], [], []
        for j in range(n):
            if j == i: continue
            if rng.random() < 0.7:
                if pkgs[j] != pkgs[i]: imports.append(J.Import(pkgs[j] + "." + names[j]))
                fn = "f%d" % j
                fields.append(J.Field(J.T(names[j]), [fn], ["private"]))
                for m in meths[j]: callees.append((fn, m))
        for m in meths[i]: callees.append((None, m))
        callees += [("log", "warn"), (None, "undeclaredHelper"), ("f99", "run")]
        members = list(fields) if kind == "class" else []
        for name in meths[i]:
            params = [(J.T(rng.choice(["String", "int", "Object"])), "p%d" % q) for q in range(rng.randint(0, 2))]
            ret = None if rng.random() < 0.35 else J.T(rng.choice(["Object", "String"]))
            if kind == "interface":
                mods = [J.Annotation(a) for a in ["Nullable", "CheckForNull"] if rng.random() < 0.15]
                if rng.random() < 0.3: mods.append("public")
                members.append(J.Method(name, ret, params, None, mods, kind="imethod"))
            else:
                mods, is_abstract = mods_for(rng, kind, True)
                body = None if is_abstract else body_for(rng, ret, callees if kind == "class" else [], [p[1] for p in params])
                members.append(J.Method(name, ret, params, body, mods))
        if kind == "class" and rng.random() < 0.3:
            members.insert(rng.randint(0, len(members)), J.Method(names[i], None, [], [], ["public"], kind="ctor"))
        umods = ["public"] + (["abstract"] if any(isinstance(m, J.Method) and "abstract" in [x for x in m.mods if isinstance(x, str)] for m in members) else [])
        u = J.Unit(pkgs[i].replace(".", "/") + "/" + names[i] + ".java", pkgs[i], imports, kind, names[i], members, mods=umods)
        J.render(u, rng, rng.choice(["std", "std", "sparse", "random"]))
        units.append(u)
    order = C01.walk_order([u.path for u in units])
    facts, texts = [], []
    for p in order:
        u = next(x for x in units if x.path == p)
        facts.append([p, "0", "1", J.unit_fact(u)]); texts.append([p, u.text])
    tags = []
    allnames = [m for ms in meths for m in ms]
    if any(re.match(r"^[a-z][A-Z]([^a-z]|$)", m) for m in allnames): tags.append("lead1caps")
    if any(re.search(r"[a-zA-Z]\d+[a-zA-Z]\d", m) for m in allnames): tags.append("digitchain")
    return facts, texts, tags

def harness_input(c):
    if c["input"][0] == "count":
        return c["input"]
    return ["java", c["texts"]]

def canon(out):
    if not isinstance(out, list) or (out and isinstance(out[0], str)):
        return out
    if len(out) == 3 and isinstance(out[1], list) and len(out[1]) == 5 and isinstance(out[1][4], list):
        s = list(out[1]); s[4] = sorted(s[4])              # the nullable list comes out of a Go map
        return [out[0], s, out[2]]
    return out

def clauses(spec_out):
    return sorted(set(spec_out))

def finding_matches(f, clause, case):
    return clause.split(":")[0] == f.get("clause") and f.get("tag") in case.get("tags", [])

def nontrivial(c):
    mo = c.get("model_out")
    if not isinstance(mo, list): return False
    if c["input"][0] == "count": return len(mo) > 0
    return len(mo) == 3 and (len(mo[0]) > 0 or len(mo[1][4]) > 0 or len(mo[2]) > 0)

def cases(seed, tier):
    n = 150 if tier == "quick" else 3000
    out = []
    for i in range(n):
        rng = vlib.rng_for(seed, ID, "count", i)
        model = G.random_graph_model(rng, quotes=rng.random() < 0.1, dense=rng.random() < 0.3)
        out.append({"name": "count-%d" % i, "tags": ["count"], "input": ["count", model]})
    for i in range(n):
        rng = vlib.rng_for(seed, ID, "java", i)
        facts, texts, tags = gen_project(rng)
        out.append({"name": "java-%d" % i, "tags": ["java"] + tags, "input": ["java", facts], "texts": texts})
    return out

def shrink(inp):
    if inp[0] != "count": return
    model = inp[1]
    for i in range(len(model)):
        yield ["count", model[:i] + model[i + 1:]]
    for i, d in enumerate(model):
        for j in range(len(d[7])):
            d2 = list(d); d2[7] = d[7][:j] + d[7][j + 1:]
            yield ["count", model[:i] + [d2] + model[i + 1:]]

def pretty(c):
    if c["input"][0] == "count":
        return [vlib.sx_dump(c["input"][1])]
    return C01.pretty(c)
