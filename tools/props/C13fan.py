"""the fan table of the architecture graph (tequila.FullGraph.SortedByFan), observed by C08 only"""
import C13

ID = "C13fan"
MODEL_ENTRY = "C13.fan"
HARNESS_OP = "C13.fan"
FRESH_PROCESS = False

def cases(seed, tier):
    return C13.cases(seed, tier)

def canon(out):
    if not isinstance(out, list) or (out and isinstance(out[0], str)):
        return out
    return sorted(out, key=lambda r: (-int(r[3]), r[0]))      # rows with the same total come in any order
