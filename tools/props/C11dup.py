"""test classes whose every test repeats an assertion AND the call inside it five times or more (two repeated call groups
per method: which one a map iteration meets first must not matter), observed by C08 only"""
import vlib
import C11

ID = "C11dup"
MODEL_REPORT = "C11"      # the report whose model (Entry/C08.v) and canonicalisation apply
MODEL_ENTRY = C11.MODEL_ENTRY
HARNESS_OP = C11.HARNESS_OP
FRESH_PROCESS = True
HARNESS_ENV = C11.HARNESS_ENV
harness_input = C11.harness_input
canon = C11.canon
pretty = C11.pretty

def cases(seed, tier):
    out = []
    for i in range(24):
        rng = vlib.rng_for(seed, ID, "tree", i)
        facts, texts, exps, tags = C11.gen(rng, dup_bias=True)
        out.append({"name": "dup-%d" % i, "tags": ["dup"] + tags, "input": [facts, exps], "texts": texts})
    return out
