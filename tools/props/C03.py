"""C03 -- call graph shows only real calls, all direct callees of the root, and terminates."""
import vlib
from genmodel import *

ID = "C03"
HARNESS_ENV = {"COCA_BIN": __import__("os").path.join(vlib.ROOT, "harness", "bin", "coca")}
MODEL_ENTRY = "C03.model"
SPEC_ENTRY = "C03.spec"
HARNESS_OP = "C03"
FRESH_PROCESS = True      # the expansion counter is process-global: one process per history
CASE_TIMEOUT = "10s"
RULE = ("histories of 1-5 queries (call with/without lookup, per-API chains with DI maps) over random method "
        "multigraphs (cycles, self-loops, parallel edges, overloaded names, unresolved callees, quotes) and "
        "structured families (trees around the 7-expansion budget, cycles, diamonds, DI substitution); "
        "non-trivial = some query draws at least one edge; distinct = distinct input"
        "; the first call query of every third history is observed through `coca call -c ROOT -d deps.json [-l]` (coca_reporter/call.dot of the built binary); models hold default-package classes and '$' in names")
TRUSTED_BASE = ["modelled, not verified: Go map semantics, strings.Split/ReplaceAll/Join"]
ASSUMPTIONS = ["each history runs in a fresh process; DOT well-formedness is decided by Lib/Dot.v's parser",
               "API labels (verb + uri) contain no double quote and are distinct from method names"]

def canon(out):
    return out

def clauses(spec_out):
    out = []
    for qi, q in enumerate(spec_out):
        out += ["%s:query%d" % (cl, qi) for cl in q]
    return out

def finding_matches(f, clause, case):
    return clause.split(":")[0] == f.get("clause") and f.get("tag") in case.get("tags", [])

def nontrivial(c):
    mo = c.get("model_out")
    return bool(mo) and not isinstance(mo[0], str) and any('->' in q[0] for q in mo)

def tree_model(rng, sizes):
    """a call tree whose internal nodes number len(sizes): sizes[i] = children of internal node i"""
    funcs = {}
    n_int = len(sizes)
    # internal node i calls the next internal nodes (breadth first) + leaves
    nxt = 1
    for i, k in enumerate(sizes):
        calls = []
        for j in range(k):
            if nxt < n_int and rng.random() < 0.8:
                calls.append(mk_call("p", "A", "n%d" % nxt)); nxt += 1
            else:
                calls.append(mk_call("p", "A", "leaf%d_%d" % (i, j)))
        funcs["n%d" % i] = calls
    while nxt < n_int:   # attach the rest under the root
        funcs["n0"].append(mk_call("p", "A", "n%d" % nxt)); nxt += 1
    fs = [mk_func(k, v) for k, v in funcs.items()]
    leafs = sorted({c[3] for v in funcs.values() for c in v if c[3].startswith("leaf")})
    fs += [mk_func(l) for l in leafs if rng.random() < 0.7]
    rng.shuffle(fs)
    return [mk_ds("A", "p", fs)]

def family(rng, kind):
    if kind == "budget_tree":
        n = rng.randint(5, 10)        # the budget is 7 expansions
        return tree_model(rng, [rng.randint(1, 3) for _ in range(n)]), "p.A.n0"
    if kind == "budget_chain":
        n = rng.randint(5, 9)         # chain of n internal nodes: fits iff n <= 7
        fs = [mk_func("n%d" % i, [mk_call("p", "A", "n%d" % (i + 1))] + ([mk_call("p", "A", "leaf")] if rng.random() < 0.5 else []))
              for i in range(n)]
        fs.append(mk_func("n%d" % n, []))
        rng.shuffle(fs)
        return [mk_ds("A", "p", fs)], "p.A.n0"
    if kind == "cycle":
        k = rng.randint(1, 4)
        fs = [mk_func("c%d" % i, [mk_call("p", "A", "c%d" % ((i + 1) % k))] +
                      ([mk_call("p", "A", "x")] if rng.random() < 0.5 else [])) for i in range(k)]
        fs.append(mk_func("x", [mk_call("ext", "E", "y")] if rng.random() < 0.5 else []))
        return [mk_ds("A", "p", fs)], "p.A.c0"
    if kind == "diamond":
        fs = [mk_func("r", [mk_call("p", "A", "a"), mk_call("p", "A", "b")]),
              mk_func("a", [mk_call("p", "A", "d")]), mk_func("b", [mk_call("p", "A", "d")]),
              mk_func("d", [mk_call("p", "A", "e")] * rng.randint(1, 2)), mk_func("e")]
        return [mk_ds("A", "p", fs)], "p.A.r"
    if kind == "overload":
        fs = [mk_func("r", [mk_call("p", "A", "a")]), mk_func("r", [mk_call("p", "A", "b")]),
              mk_func("a", [mk_call("p", "A", "c")]), mk_func("a", []), mk_func("b"), mk_func("c")]
        return [mk_ds("A", "p", fs)], "p.A.r"
    if kind == "quotes":
        fs = [mk_func("r", [mk_call("p", 'B"', 'm"x')])]
        return [mk_ds("A", "p", fs), mk_ds('B"', "p", [mk_func('m"x', [mk_call("p", "A", "r")])])], "p.A.r"
    raise ValueError(kind)

FAMILIES = ["budget_tree", "budget_chain", "cycle", "diamond", "overload", "quotes"]

def random_query(rng, m):
    ms = methods_of(m)
    if rng.random() < 0.6:
        return ["call", pick_target(rng, m), "1" if rng.random() < 0.3 else "0"]
    apis = []
    for i in range(rng.randint(0, 4)):
        if ms and rng.random() < 0.9:
            full = rng.choice(ms)
            d = next(d for d in m for f in d[7] if full_name(d, f) == full)
            f = next(f for f in d[7] if full_name(d, f) == full)
            apis.append([rng.choice(["GET", "POST", "PUT", "DELETE"]), "/api/%d" % i, d[2], d[0], f[0]])
        else:
            apis.append(["GET", "/none/%d" % i, "no.pkg", "Nope", "x"])
    di = []
    classes = [d[2] + "." + d[0] for d in m]
    for _ in range(rng.randint(0, 3)):
        di.append([rng.choice(classes), rng.choice(classes)])
    return ["api", apis, di]

def cases(seed, tier):
    n_random = 300 if tier == "quick" else 15000
    out = []
    for kind in FAMILIES:
        for j in range(6 if tier == "quick" else 60):
            rng = vlib.rng_for(seed, ID, kind, j)
            m, root = family(rng, kind)
            qs = [["call", root, "0"]]
            if j % 3 == 1:
                qs = [["call", root, "1"]]
            if j % 3 == 2:
                d = m[0]
                qs = [["api", [["GET", "/x", d[2], d[0], root.split(".")[-1]]], []]]
            out.append({"name": "%s-%d" % (kind, j), "tags": [kind], "input": [m, qs]})
    for i in range(n_random):
        rng = vlib.rng_for(seed, ID, "random", i)
        quotes = rng.random() < 0.1
        m = random_graph_model(rng, quotes=quotes, dense=rng.random() < 0.2)
        nq = 1 if rng.random() < 0.5 else rng.randint(2, 5)
        qs = [random_query(rng, m) for _ in range(nq)]
        out.append({"name": "random-%d" % i, "tags": ["random", "history%d" % min(nq, 2)], "input": [m, qs]})
    return out

def shrink(inp):
    m, qs = inp
    for i in range(len(qs)):
        if len(qs) > 1:
            yield [m, qs[:i] + qs[i+1:]]
    for i in range(len(m)):
        yield [m[:i] + m[i+1:], qs]
    for i, d in enumerate(m):
        for j in range(len(d[7])):
            d2 = list(d); d2[7] = d[7][:j] + d[7][j+1:]
            yield [m[:i] + [d2] + m[i+1:], qs]
    for i, d in enumerate(m):
        for j, f in enumerate(d[7]):
            for k in range(len(f[3])):
                f2 = list(f); f2[3] = f[3][:k] + f[3][k+1:]
                d2 = list(d); d2[7] = d[7][:j] + [f2] + d[7][j+1:]
                yield [m[:i] + [d2] + m[i+1:], qs]

def pretty(c):
    m, qs = c["input"]
    lines = ["queries: %r" % qs]
    for d in m:
        for f in d[7]:
            lines.append("%s.%s.%s -> %s" % (d[2], d[0], f[0],
                         ", ".join("%s.%s.%s" % (cl[0], cl[2], cl[3]) for cl in f[3])))
    return lines
