"""C19 -- declared build dependencies are all extracted; the unused report is exact."""
import vlib

ID = "C19"
MODEL_ENTRY = "C19.model"
SPEC_ENTRY = "C19.spec"
HARNESS_OP = "C19"
FRESH_PROCESS = False     # NewGroovyIdentListener resets nodeDeps; the Java listeners are re-created per run
CASE_TIMEOUT = "30s"
RULE = ("abstract pom.xml trees (0-12 <dependency> elements whose groupId/artifactId/scope/version/type/"
        "optional/classifier/exclusions children come in varying order; comments, CDATA values, padded values, values split by comments / CDATA boundaries, "
        "self-closed and empty <dependencies>, properties, parent, dependencyManagement, build plugins with their "
        "own dependencies, profiles and repositories before and after) rendered to text; abstract build.gradle "
        "statement lists (single- and double-quoted, parenthesised and closure-configured string notation, map "
        "notation plain and parenthesised, project()/fileTree()/platform()/files()/gradleApi() entries plain and "
        "parenthesised, comments, empty and repeated dependencies blocks, 1-6 configurations, surrounding plugins/repositories/buildscript/... blocks, blocks of other "
        "names holding dependency-like statements) rendered to text; projects = pom and/or build.gradle plus 0-4 "
        "Java files importing a subset of the declared groups (plain, static and wildcard imports, unrelated "
        "imports, groups that are substrings of other groups); one tagged sub-stream per formerly or still defective shape "
        "(double quotes, project()/fileTree()/method-call entries plain and parenthesised, parenthesised map "
        "notation, empty block, two blocks, value split by a comment, pom declaring a non-UTF-8 encoding, used "
        "double-quoted dependency); "
        "non-trivial = at least one declared dependency; distinct = distinct input")
TRUSTED_BASE = ["not modelled: encoding/xml's tokenizer (except its refusal of XML declarations whose version is not 1.0 or whose charset label the installed charset reader does not know; the labels listed in Model/Deps.v ascii_charsets were probed against golang.org/x/net/html/charset) and the antlr Groovy/Java parsers -- the model starts from the "
                "abstract tree / statement list that tools/props/C19.py renders to text (the renderers are trusted glue)",
                "modelled, not verified: strings.TrimSpace / ReplaceAll / Split / Contains on ASCII input, the "
                "parse-tree shapes the Groovy listener asserts on (established per statement kind by execution)"]
ASSUMPTIONS = ["rendered documents are ASCII, well-formed, one text run per XT node (no two adjacent text nodes)",
               "top-level build.gradle statements other than `name { ... }` blocks come from a vocabulary on which "
               "EnterScriptStatement is a no-op (checked by execution)",
               "one pom.xml and/or one build.gradle at the project root; Java files declare a class or an interface"]

# ------------------------------------------------------------------ xml
def E(name, children=(), attrs=()): return ["E", name, [list(a) for a in attrs], list(children)]
def S(name, attrs=()): return ["S", name, [list(a) for a in attrs]]
def T(s): return ["T", s]
def D(s): return ["D", s]
def C(s): return ["C", s]
def P(s): return ["P", s]
def X(version, encoding): return ["X", version, encoding]

def render_node(x):
    k = x[0]
    if k == "E":
        at = "".join(' %s="%s"' % (a, v) for a, v in x[2])
        return "<%s%s>%s</%s>" % (x[1], at, "".join(render_node(c) for c in x[3]), x[1])
    if k == "S":
        at = "".join(' %s="%s"' % (a, v) for a, v in x[2])
        return "<%s%s/>" % (x[1], at)
    if k == "T": return x[1]
    if k == "D": return "<![CDATA[%s]]>" % x[1]
    if k == "C": return "<!--%s-->" % x[1]
    if k == "P": return "<?%s?>" % x[1]
    if k == "X": return '<?xml version="%s"%s?>' % (x[1], ' encoding="%s"' % x[2] if x[2] else "")
    raise ValueError(k)

def render_doc(doc):
    return "".join(render_node(x) for x in doc)

def layout(x, depth, unit, compact=False):
    """inserts the whitespace text nodes of a pretty-printed document between element children"""
    if x[0] != "E":
        return x
    kids = x[3]
    if not any(k[0] in ("E", "S") for k in kids) or compact:
        return ["E", x[1], x[2], [layout(k, depth + 1, unit, compact) for k in kids]]
    out = []
    for k in kids:
        out.append(T("\n" + unit * (depth + 1)))
        out.append(layout(k, depth + 1, unit, compact))
    out.append(T("\n" + unit * depth))
    return ["E", x[1], x[2], out]

GROUPS = ["org.apache.commons", "com.google.guava", "junit", "io.rest-assured", "org.springframework.boot",
          "org.springframework", "javax.servlet", "mysql", "org.flywaydb", "com.fasterxml.jackson.core",
          "org.slf4j", "ch.qos.logback", "org.a", "org.a.b", "io.netty", "com.h2database", "org.projectlombok"]
ARTIFACTS = ["commons-lang3", "guava", "junit", "rest-assured", "spring-boot-starter-web", "spring-core",
             "javax.servlet-api", "mysql-connector-java", "flyway-core", "jackson-databind", "slf4j-api",
             "logback-classic", "a_2.12", "netty-all", "h2", "lombok", "x"]
VERSIONS = ["1.0", "2.2.2.RELEASE", "1.0-SNAPSHOT", "[1.0,2.0)", "31.1-jre", "4.13.2", "0.0.1"]
SCOPES = ["compile", "test", "provided", "runtime", "system", "import"]

def rand_group(rng):
    g = rng.choice(GROUPS)
    if rng.random() < 0.3:
        g += "." + rng.choice(["x", "core", "ext%d" % rng.randint(0, 9)])
    return g

def value_elem(rng, name, val, fancy=True):
    """<name>val</name> in one of the shapes that keep a single piece of character data"""
    r = rng.random() if fancy else 1.0
    if r < 0.08:
        kids = [T("\n        " + val + "\n      ")]
    elif r < 0.14:
        kids = [D(val)]
    elif r < 0.18:
        kids = [C(" " + rng.choice(["managed", "see parent", "x"]) + " "), T(val)]
    elif r < 0.22:
        kids = [T(val), C(" bump me ")]
    elif r < 0.25:
        kids = [T(" "), D(val), T("\n")]
    elif r < 0.28:
        kids = [T(" " + val + "  ")]
    elif r < 0.33 and len(val) > 1:
        i = rng.randint(1, len(val) - 1)
        kids = rng.choice([[T(val[:i]), C(" x "), T(val[i:])], [T(val[:i]), D(val[i:])], [D(val[:i]), C(""), T(val[i:] + "\n")]])
    else:
        kids = [T(val)]
    return E(name, kids)

def gen_dependency(rng, g=None, a=None, scope=None, exclusions=None):
    g = g or rand_group(rng)
    a = a or rng.choice(ARTIFACTS)
    kids = [value_elem(rng, "groupId", g), value_elem(rng, "artifactId", a)]
    if rng.random() < 0.6:
        kids.append(value_elem(rng, "version", rng.choice(VERSIONS + ["${dep.version}", "${project.version}"])))
    sc = scope if scope is not None else (rng.choice(SCOPES) if rng.random() < 0.5 else None)
    if sc is not None:
        kids.append(value_elem(rng, "scope", sc) if sc != "" or rng.random() < 0.5 else S("scope"))
    if rng.random() < 0.2:
        kids.append(value_elem(rng, "type", rng.choice(["jar", "pom", "test-jar", "war"])))
    if rng.random() < 0.15:
        kids.append(value_elem(rng, "optional", rng.choice(["true", "false"])))
    if rng.random() < 0.1:
        kids.append(value_elem(rng, "classifier", rng.choice(["sources", "tests", "jdk15"])))
    if exclusions is None:
        exclusions = rng.random() < 0.3
    if exclusions:
        ex = []
        for _ in range(rng.randint(1, 3)):
            parts = [value_elem(rng, "groupId", rand_group(rng)), value_elem(rng, "artifactId", rng.choice(ARTIFACTS + ["*"]))]
            rng.shuffle(parts)
            ex.append(E("exclusion", parts))
        kids.append(E("exclusions", ex))
    if rng.random() < 0.75:
        rng.shuffle(kids)
    # comments between the children
    out = []
    for k in kids:
        if rng.random() < 0.1:
            out.append(C(rng.choice([" needed by x ", "TODO remove", " <scope>test</scope> ", "groupId"])))
        out.append(k)
    return E("dependency", out), (g, a, sc or "")

def gen_pom(rng, ndeps=None, deps_shape=None):
    n = rng.randint(0, 12) if ndeps is None else ndeps
    deps, declared = [], []
    for _ in range(n):
        d, decl = gen_dependency(rng)
        if rng.random() < 0.12:
            deps.append(C(" " + rng.choice(["test libs", "spring", "<dependency>old</dependency>"]) + " "))
        deps.append(d)
        declared.append(decl)
    shape = deps_shape or ("absent" if n == 0 and rng.random() < 0.3 else
                           "selfclosed" if n == 0 and rng.random() < 0.5 else "normal")
    before = [value_elem(rng, "modelVersion", "4.0.0", False)]
    if rng.random() < 0.4:
        before.append(E("parent", [value_elem(rng, "groupId", "org.springframework.boot"),
                                   value_elem(rng, "artifactId", "spring-boot-starter-parent"),
                                   value_elem(rng, "version", "2.2.2.RELEASE"), S("relativePath")]))
    before += [value_elem(rng, "groupId", "com.example"), value_elem(rng, "artifactId", "demo"),
               value_elem(rng, "version", "0.0.1-SNAPSHOT")]
    if rng.random() < 0.3:
        before.append(value_elem(rng, "packaging", "jar"))
    sections = []
    if rng.random() < 0.5:
        sections.append(E("properties", [value_elem(rng, "java.version", "1.8"),
                                         value_elem(rng, "dep.version", rng.choice(VERSIONS))]))
    if rng.random() < 0.35:
        md = [gen_dependency(rng)[0] for _ in range(rng.randint(1, 3))]
        sections.append(E("dependencyManagement", [E("dependencies", md)]))
    if rng.random() < 0.4:
        plug = [value_elem(rng, "groupId", "org.apache.maven.plugins"), value_elem(rng, "artifactId", "maven-compiler-plugin")]
        if rng.random() < 0.5:
            plug.append(E("dependencies", [gen_dependency(rng)[0]]))
        if rng.random() < 0.5:
            plug.append(E("configuration", [value_elem(rng, "source", "1.8"), value_elem(rng, "scope", "odd")]))
        if rng.random() < 0.35:
            # elements whose names HTML knows as void elements (javadoc links, applet-style parameters): in a pom they
            # are ordinary elements with content
            plug.append(E("configuration", [E("links", [value_elem(rng, "link", "https://docs.example.org/api/")]),
                                            value_elem(rng, rng.choice(["param", "input", "meta", "base", "br", "col"]), "v1")]))
        sections.append(E("build", [E("plugins", [E("plugin", plug)])]))
    if rng.random() < 0.25:
        sections.append(E("profiles", [E("profile", [value_elem(rng, "id", "dev"),
                                                     E("dependencies", [gen_dependency(rng)[0] for _ in range(rng.randint(0, 2))])])]))
    if rng.random() < 0.25:
        sections.append(E("repositories", [E("repository", [value_elem(rng, "id", "central"),
                                                            value_elem(rng, "url", "https://repo.example.org/maven2")])]))
    if rng.random() < 0.15:
        sections.append(E("modules", [value_elem(rng, "module", "core")]))
    if shape == "normal":
        sections.append(E("dependencies", deps))
    elif shape == "selfclosed":
        sections.append(S("dependencies"))
    rng.shuffle(sections)
    kids = before + sections
    if rng.random() < 0.2:
        kids.insert(rng.randint(0, len(kids)), C(" generated by start.spring.io "))
    attrs = [("xmlns", "http://maven.apache.org/POM/4.0.0"),
             ("xmlns:xsi", "http://www.w3.org/2001/XMLSchema-instance"),
             ("xsi:schemaLocation", "http://maven.apache.org/POM/4.0.0 https://maven.apache.org/xsd/maven-4.0.0.xsd")] \
        if rng.random() < 0.7 else []
    root = E("project", kids, attrs)
    unit = rng.choice(["  ", "    ", "\t"])
    root = layout(root, 0, unit, compact=rng.random() < 0.1)
    doc = []
    if rng.random() < 0.8:
        doc.append(X("1.0", rng.choice(["UTF-8", "UTF-8", "utf-8", "Utf-8", ""])))
        doc.append(T("\n"))
        if rng.random() < 0.1:
            doc += [P("m2e ignore"), T("\n")]
    if rng.random() < 0.2:
        doc += [C(" Licensed under the Apache License -> 2.0 "), T("\n")]
    doc.append(root)
    if rng.random() < 0.7:
        doc.append(T("\n"))
    return doc, (declared if shape == "normal" else [])

# ------------------------------------------------------------------ build.gradle
CONFIGS = ["implementation", "testImplementation", "compileOnly", "runtimeOnly", "annotationProcessor", "api",
           "compile", "testCompile", "developmentOnly", "testRuntimeOnly"]
OTHERS = [
    "plugins {\n    id 'java'\n    id 'org.springframework.boot' version '2.2.2.RELEASE'\n}",
    "apply plugin: 'io.spring.dependency-management'",
    "apply plugin: 'java'",
    "group = 'com.example'",
    "version = '0.0.1-SNAPSHOT'",
    "sourceCompatibility = '1.8'",
    "targetCompatibility = JavaVersion.VERSION_11",
    "repositories {\n    mavenCentral()\n    jcenter()\n}",
    "buildscript {\n    repositories {\n        mavenCentral()\n    }\n    dependencies {\n        classpath 'org.springframework.cloud:spring-cloud-contract-gradle-plugin:2.2.1.RELEASE'\n    }\n}",
    "configurations {\n    developmentOnly\n    runtimeClasspath {\n        extendsFrom developmentOnly\n    }\n}",
    "ext {\n    set('springCloudVersion', \"Hoxton.SR1\")\n}",
    "test {\n    useJUnitPlatform()\n}",
    "dependencyManagement {\n    imports {\n        mavenBom \"org.springframework.cloud:spring-cloud-dependencies:${springCloudVersion}\"\n    }\n}",
    "task hello {\n    doLast {\n        println 'hi'\n    }\n}",
    "subprojects {\n    dependencies {\n        compile 'q.r:s:1'\n    }\n}",
    "allprojects {\n    repositories {\n        mavenCentral()\n    }\n}",
    "sourceSets {\n    main {\n        java {\n            srcDirs = ['src']\n        }\n    }\n}",
    "def libVersion = '1.0'",
    "jar {\n    enabled = false\n}",
    "wrapper {\n    gradleVersion = '6.0'\n}",
    "// top-level comment: dependencies { compile 'x:y:1' }",
]
GVERSIONS = ["", "", "1.0", "2.2.2.RELEASE", "1.0-SNAPSHOT", "31.1-jre", "1.5.2", "1.0:sources", "2.1.1@jar", "1.+"]

def st_str(cfg, q, paren, closure, g, a, v): return ["str", cfg, q, "1" if paren else "0", "1" if closure else "0", g, a, v]
def st_map(cfg, paren, g, a, v): return ["map", cfg, "1" if paren else "0", g, a, v]
def st_call(cfg, paren, fname, args): return ["call", cfg, "1" if paren else "0", fname, [list(kv) for kv in args]]
def st_comment(s): return ["comment", s]

def coord(g, a, v):
    return g + ":" + a + (":" + v if v else "")

def render_args(args):
    return ", ".join(("%s: '%s'" % (k, v)) if k else "'%s'" % v for k, v in args)

def render_stmt(st, ind):
    k = st[0]
    if k == "comment":
        return ind + "// " + st[1]
    if k == "str":
        _, cfg, q, paren, closure, g, a, v = st
        qc = "'" if q == "s" else '"'
        lit = qc + coord(g, a, v) + qc
        if paren == "1":
            s = ind + "%s(%s)" % (cfg, lit)
            if closure == "1":
                s += " {\n%s%sexclude group: 'org.junit.vintage', module: 'junit-vintage-engine'\n%s%sexclude module: 'junit'\n%s}" % (ind, ind, ind, ind, ind)
            return s
        return ind + "%s %s" % (cfg, lit)
    if k == "map":
        _, cfg, paren, g, a, v = st
        args = [("group", g), ("name", a)] + ([("version", v)] if v else [])
        return ind + (("%s(%s)" if paren == "1" else "%s %s") % (cfg, render_args(args)))
    if k == "call":
        _, cfg, paren, fname, args = st
        call = "%s(%s)" % (fname, render_args(args))
        return ind + (("%s(%s)" if paren == "1" else "%s %s") % (cfg, call))
    raise ValueError(k)

def render_script(script):
    ind, items = script
    out = []
    for it in items:
        if it[0] == "other":
            out.append(it[1])
        else:
            lines = [render_stmt(s, ind) for s in it[2]]
            out.append(it[1] + " {\n" + "".join(l + "\n" for l in lines) + "}")
    return "\n\n".join(out) + "\n"

def gen_wf_stmt(rng, cfgs):
    r = rng.random()
    cfg = rng.choice(cfgs)
    g, a, v = rand_group(rng), rng.choice(ARTIFACTS), rng.choice(GVERSIONS)
    q = "d" if rng.random() < 0.25 else "s"
    if r < 0.50:
        return st_str(cfg, q, False, False, g, a, v)
    if r < 0.66:
        return st_str(cfg, q, True, False, g, a, v)
    if r < 0.74:
        return st_str(cfg, q, True, True, g, a, v)
    if r < 0.81:
        return st_map(cfg, rng.random() < 0.3, g, a, v)
    if r < 0.93:
        paren = rng.random() < 0.3
        return rng.choice([st_call(cfg, paren, "project", [("", ":" + rng.choice(["core", "api", "lib:util"]))]),
                           st_call(cfg, paren, "fileTree", [("dir", "libs"), ("include", "*.jar")]),
                           st_call(cfg, paren, "platform", [("", coord(g, a, v or "1.0"))]),
                           st_call(cfg, paren, "files", [("", "libs/a.jar")]),
                           st_call(cfg, paren, "gradleApi", [])])
    return st_comment(rng.choice(["test libs", "implementation 'x:y:1'", "TODO: upgrade", ""]))

def gen_script(rng, nstmts=None, extra_stmts=(), blocks=1):
    cfgs = rng.sample(CONFIGS, rng.randint(1, 6))
    n = rng.randint(0, 12) if nstmts is None else nstmts
    stmts = [gen_wf_stmt(rng, cfgs) for _ in range(n)]
    for e in extra_stmts:
        stmts.insert(rng.randint(0, len(stmts)), e)
    before = [["other", t] for t in rng.sample(OTHERS, rng.randint(0, 5))]
    after = [["other", t] for t in rng.sample(OTHERS, rng.randint(0, 3))]
    if rng.random() < 0.15:
        # a block of another name holding dependency-like statements
        other_block = ["block", rng.choice(["constraints", "libraries", "dependencyLocking"]),
                       [gen_wf_stmt(rng, cfgs) for _ in range(rng.randint(1, 3))]]
        (before if rng.random() < 0.5 else after).append(other_block)
    items = before + [["block", "dependencies", stmts]] + after
    if blocks == 1 and rng.random() < 0.12:
        # a further dependencies block (possibly empty) somewhere in the script
        more = ["block", "dependencies", [gen_wf_stmt(rng, cfgs) for _ in range(rng.randint(0, 3))]]
        items.insert(rng.randint(0, len(items)), more)
    return [rng.choice(["    ", "  ", "\t"]), items]

# ------------------------------------------------------------------ java
def render_java(f):
    relpath, pkg, imports, kind, name = f
    s = "package %s;\n\n" % pkg
    for st, q, wc in imports:
        s += "import %s%s%s;\n" % ("static " if st == "1" else "", q, ".*" if wc == "1" else "")
    body = {"class": "public class %s {\n    void run() { }\n}\n", "interface": "public interface %s {\n    void run();\n}\n",
            "enum": "public enum %s {\n    A, B\n}\n", "annotation": "public @interface %s {\n}\n"}[kind]
    return s + "\n" + body % name

def import_for(rng, g):
    r = rng.random()
    tail = rng.choice(["util.Helper", "core.Api", "Thing", "lang3.StringUtils", "internal.x.Y"])
    if r < 0.7:
        return ["0", g + "." + tail, "0"]
    if r < 0.8:
        return ["0", g + "." + tail.split(".")[0].lower(), "1"]
    if r < 0.9:
        return ["1", g + "." + tail + ".make", "0"]
    return ["0", "shaded." + g + "." + tail, "0"]       # the group occurs inside the import

def gen_java_files(rng, groups, kinds=("class", "interface"), nfiles=None):
    n = rng.randint(0, 4) if nfiles is None else nfiles
    # a group id that is not a Java package name (io.rest-assured) cannot occur in an import
    used = [g for g in groups if "-" not in g and rng.random() < 0.5]
    files = []
    for i in range(n):
        mine = [g for g in used if rng.random() < 0.6] if i < n - 1 else list(used)
        imps = [import_for(rng, g) for g in mine]
        for _ in range(rng.randint(0, 2)):
            imps.append(["0", rng.choice(["java.util.List", "java.io.File", "org.unrelated.Thing", "com.example.demo.Other"]), "0"])
        rng.shuffle(imps)
        pkg = rng.choice(["com.example.demo", "com.example.demo.web", "p"])
        name = "C%d" % i
        root = rng.choice(["src/main/java/", "src/test/java/"])
        files.append([root + pkg.replace(".", "/") + "/" + name + ".java", pkg, imps, rng.choice(list(kinds)), name])
    return files

# ------------------------------------------------------------------ harness input / cases
def harness_input(case):
    inp = case["input"]
    if inp[0] == "maven":
        return ["maven", render_doc(inp[1])]
    if inp[0] == "gradle":
        return ["gradle", render_script(inp[1])]
    files = []
    if inp[1]:
        files.append(["pom.xml", render_doc(inp[1][0])])
    if inp[2]:
        files.append(["build.gradle", render_script(inp[2][0])])
    for f in inp[3]:
        files.append([f[0], render_java(f)])
    return ["unused", files]

def split_value(rng, name, val):
    """a value whose character data is split by a comment / CDATA section"""
    i = rng.randint(1, max(1, len(val) - 1))
    mid = rng.choice([[C(" x ")], [C("")], [C(" a "), C(" b ")]])
    if rng.random() < 0.3:
        return E(name, [T(val[:i]), D(val[i:])])
    return E(name, [T(val[:i])] + mid + [T(val[i:])])

def family(rng, kind):
    """one suspected-defect shape per family; returns the case input"""
    if kind.startswith("pom_"):
        if kind == "pom_text_split":
            g, a = rand_group(rng), rng.choice(ARTIFACTS)
            which = rng.choice(["groupId", "artifactId", "scope"])
            kids = [split_value(rng, "groupId", g) if which == "groupId" else E("groupId", [T(g)]),
                    split_value(rng, "artifactId", a) if which == "artifactId" else E("artifactId", [T(a)])]
            if which == "scope":
                kids.append(split_value(rng, "scope", "provided"))
            deps = [gen_dependency(rng)[0] for _ in range(rng.randint(0, 2))] + [E("dependency", kids)] + \
                   [gen_dependency(rng)[0] for _ in range(rng.randint(0, 2))]
            return ["maven", [layout(E("project", [E("modelVersion", [T("4.0.0")]), E("dependencies", deps)]), 0, "  ")]]
        if kind == "pom_depmgmt_first":
            md = [gen_dependency(rng)[0] for _ in range(rng.randint(1, 3))]
            deps = [gen_dependency(rng)[0] for _ in range(rng.randint(0, 4))]
            kids = [E("modelVersion", [T("4.0.0")]), E("dependencyManagement", [E("dependencies", md)])]
            if rng.random() < 0.7:
                kids.append(E("dependencies", deps))
            return ["maven", [layout(E("project", kids), 0, "  ")]]
        if kind == "pom_exclusions":
            deps = [gen_dependency(rng, exclusions=True)[0] for _ in range(rng.randint(1, 4))]
            return ["maven", [layout(E("project", [E("dependencies", deps)]), 0, "    ")]]
        if kind == "pom_plugin_deps_first":
            plug = [E("groupId", [T("org.apache.maven.plugins")]), E("artifactId", [T("maven-surefire-plugin")]),
                    E("dependencies", [gen_dependency(rng)[0]])]
            deps = [gen_dependency(rng)[0] for _ in range(rng.randint(1, 3))]
            return ["maven", [X("1.0", "UTF-8"), T("\n"),
                              layout(E("project", [E("build", [E("plugins", [E("plugin", plug)])]), E("dependencies", deps)]), 0, "\t")]]
        if kind == "pom_encoding":
            doc, _ = gen_pom(rng, ndeps=rng.randint(1, 5), deps_shape="normal")
            doc = [x for x in doc if x[0] != "X"]
            enc = rng.choice(["ISO-8859-1", "iso-8859-1", "ISO-8859-15", "windows-1252", "US-ASCII", "latin1", "GBK", "Shift_JIS",
                              "koi8-r"])      # (a label no charset reader knows is not a readable pom: outside the quantifier, not generated;
                                              #  Properties/C19.v C19_maven_encoding_repaired states where the model stops)
            return ["maven", [X("1.0", enc)] + doc]
        if kind == "pom_whitespace_cdata":
            deps = []
            for _ in range(rng.randint(1, 4)):
                g, a = rand_group(rng), rng.choice(ARTIFACTS)
                deps += [C(" c "), E("dependency", [T("\n\n   "), E("groupId", [T("\n " + g + "\t\n")]), C("x"), T("  "),
                                                    E("artifactId", [D(a)]), E("scope", [T(" "), D("test"), T(" ")]),
                                                    T("\n")])]
            return ["maven", [E("project", [T("\n"), E("dependencies", deps), T("\n")])]]
        raise ValueError(kind)
    if kind.startswith("gradle_"):
        cfg = rng.choice(CONFIGS)
        g, a, v = rand_group(rng), rng.choice(ARTIFACTS), rng.choice(GVERSIONS)
        if kind == "gradle_dq":
            extra = [st_str(cfg, "d", False, False, g, a, v)]
        elif kind == "gradle_dq_paren":
            extra = [st_str(cfg, "d", True, rng.random() < 0.3, g, a, v)]
        elif kind == "gradle_project":
            extra = [st_call(cfg, False, "project", [("", ":" + rng.choice(["core", "api", "lib:util"]))])]
        elif kind == "gradle_filetree":
            extra = [st_call(cfg, False, "fileTree", [("dir", "libs"), ("include", "*.jar")])]
        elif kind == "gradle_call":
            extra = [rng.choice([st_call(cfg, False, "platform", [("", coord(g, a, v or "1.0"))]),
                                 st_call(cfg, False, "files", [("", "libs/a.jar")]),
                                 st_call(cfg, False, "gradleApi", [])])]
        elif kind == "gradle_paren_call":
            extra = [rng.choice([st_call(cfg, True, "project", [("", ":core")]),
                                 st_call(cfg, True, "fileTree", [("dir", "libs"), ("include", "*.jar")]),
                                 st_call(cfg, True, "platform", [("", coord(g, a, v or "1.0"))])])]
        elif kind == "gradle_paren_call_nocolon":
            extra = [rng.choice([st_call(cfg, True, "files", [("", "libs/a.jar")]),
                                 st_call(cfg, True, "gradleApi", [])])]
        elif kind == "gradle_paren_map":
            extra = [st_map(cfg, True, g, a, v)]
        elif kind == "gradle_empty_block":
            sc = gen_script(rng, nstmts=0, extra_stmts=[st_comment("nothing yet")] if rng.random() < 0.5 else [])
            for it in sc[1]:
                if it[0] == "block" and it[1] == "dependencies":
                    it[2] = [s for s in it[2] if s[0] == "comment"]
            return ["gradle", sc]
        elif kind == "gradle_two_blocks":
            sc = gen_script(rng, nstmts=rng.randint(1, 4))
            cfgs = rng.sample(CONFIGS, 2)
            second = ["block", "dependencies", [gen_wf_stmt(rng, cfgs) for _ in range(rng.randint(1, 3))] +
                      [st_str(cfgs[0], "s", False, False, g, a, v)]]
            sc[1].insert(rng.randint(0, len(sc[1])), second)
            return ["gradle", sc]
        else:
            raise ValueError(kind)
        return ["gradle", gen_script(rng, nstmts=rng.randint(0, 5), extra_stmts=extra)]
    if kind == "unused_dq":
        g, a = rand_group(rng), rng.choice(ARTIFACTS)
        while "-" in g:          # the group must be importable: a Java package name
            g = rand_group(rng)
        sc = gen_script(rng, nstmts=rng.randint(0, 3), extra_stmts=[st_str("implementation", "d", rng.random() < 0.3, False, g, a, "1.0")])
        files = gen_java_files(rng, [], nfiles=1)
        files[0][2].append(["0", g + ".Api", "0"])
        return ["unused", [], [sc], files]
    raise ValueError(kind)

FAMILIES = ["pom_text_split", "pom_encoding", "pom_depmgmt_first", "pom_exclusions", "pom_plugin_deps_first", "pom_whitespace_cdata",
            "gradle_dq", "gradle_dq_paren", "gradle_project", "gradle_filetree", "gradle_call",
            "gradle_paren_call", "gradle_paren_call_nocolon", "gradle_paren_map", "gradle_empty_block",
            "gradle_two_blocks", "unused_dq"]

# sub-streams that exercise the same defect share a group tag (the tag of known_findings.json)
GROUP_TAG = {"gradle_dq": ["double_quote"], "gradle_dq_paren": ["double_quote"], "unused_dq": ["double_quote"],
             "gradle_project": ["other_notation_crash"], "gradle_filetree": ["other_notation_crash"],
             "gradle_call": ["other_notation_crash"], "gradle_paren_call_nocolon": ["other_notation_crash"],
             "gradle_paren_call": ["other_notation_paren"], "gradle_paren_map": ["other_notation_paren"]}

def gen_project(rng):
    r = rng.random()
    pom, gradle, groups = [], [], []
    if r < 0.55 or r >= 0.9:
        doc, declared = gen_pom(rng, ndeps=rng.randint(0, 8))
        pom = [doc]
        groups += [d[0] for d in declared]
    if r >= 0.55:
        sc = gen_script(rng, nstmts=rng.randint(1, 8))
        gradle = [sc]
        for it in sc[1]:
            if it[0] == "block" and it[1] == "dependencies":
                groups += [s[5] for s in it[2] if s[0] == "str"]
    return ["unused", pom, gradle, gen_java_files(rng, groups)]

def cases(seed, tier):
    quick = tier == "quick"
    out = []
    for kind in FAMILIES:
        for j in range(4 if quick else 40):
            rng = vlib.rng_for(seed, ID, kind, j)
            out.append({"name": "%s-%d" % (kind, j), "tags": [kind] + GROUP_TAG.get(kind, []), "input": family(rng, kind)})
    for i in range(220 if quick else 6000):
        rng = vlib.rng_for(seed, ID, "maven", i)
        out.append({"name": "maven-%d" % i, "tags": ["maven"], "input": ["maven", gen_pom(rng)[0]]})
    for i in range(220 if quick else 6000):
        rng = vlib.rng_for(seed, ID, "gradle", i)
        out.append({"name": "gradle-%d" % i, "tags": ["gradle"], "input": ["gradle", gen_script(rng)]})
    for i in range(80 if quick else 1500):
        rng = vlib.rng_for(seed, ID, "unused", i)
        out.append({"name": "unused-%d" % i, "tags": ["unused"], "input": gen_project(rng)})
    # which cases satisfy the (executable) hypothesis of the exactness theorems
    wf = vlib.run_driver([("C19.wf", c["input"]) for c in out])
    for c, w in zip(out, wf):
        c["tags"].append("wf" if w == "1" else "outside_wf")
    return out

def canon(out):
    return out

def clauses(spec_out):
    return list(spec_out)

def finding_matches(f, clause, case):
    return clause.split(":")[0] == f.get("clause") and f.get("tag") in case.get("tags", [])

def _declared_count(inp):
    n = 0
    docs = [inp[1]] if inp[0] == "maven" else (inp[1] if inp[0] == "unused" else [])
    scripts = [inp[1]] if inp[0] == "gradle" else (inp[2] if inp[0] == "unused" else [])
    def walk(x):
        nonlocal n
        if x[0] == "E":
            if x[1] == "dependency":
                n += 1
            for k in x[3]:
                walk(k)
    for d in docs:
        for x in d:
            walk(x)
    for sc in scripts:
        for it in sc[1]:
            if it[0] == "block":
                n += sum(1 for s in it[2] if s[0] != "comment")
    return n

def nontrivial(c):
    return _declared_count(c["input"]) > 0

def _shrink_doc(doc):
    """drop one child of any element (depth-first), smallest first"""
    def variants(x):
        if x[0] != "E":
            return
        kids = x[3]
        for i in range(len(kids)):
            if kids[i][0] in ("E", "S", "C", "D"):
                yield ["E", x[1], x[2], kids[:i] + kids[i+1:]]
        for i in range(len(kids)):
            for v in variants(kids[i]):
                yield ["E", x[1], x[2], kids[:i] + [v] + kids[i+1:]]
    for i in range(len(doc)):
        if doc[i][0] != "E":
            yield doc[:i] + doc[i+1:]
    for i in range(len(doc)):
        for v in variants(doc[i]):
            yield doc[:i] + [v] + doc[i+1:]

def _shrink_script(sc):
    ind, items = sc
    for i in range(len(items)):
        if items[i][0] == "other":
            yield [ind, items[:i] + items[i+1:]]
    for i, it in enumerate(items):
        if it[0] == "block":
            for j in range(len(it[2])):
                rest = it[2][:j] + it[2][j+1:]
                yield [ind, items[:i] + [[it[0], it[1], rest]] + items[i+1:]]
    for i in range(len(items)):
        if items[i][0] == "block":
            yield [ind, items[:i] + items[i+1:]]

def shrink(inp):
    if inp[0] == "maven":
        for d in _shrink_doc(inp[1]):
            yield ["maven", d]
    elif inp[0] == "gradle":
        for s in _shrink_script(inp[1]):
            yield ["gradle", s]
    else:
        _, pom, gradle, files = inp
        for i in range(len(files)):
            yield ["unused", pom, gradle, files[:i] + files[i+1:]]
        for i, f in enumerate(files):
            for j in range(len(f[2])):
                f2 = list(f); f2[2] = f[2][:j] + f[2][j+1:]
                yield ["unused", pom, gradle, files[:i] + [f2] + files[i+1:]]
        if pom and gradle:
            yield ["unused", [], gradle, files]
            yield ["unused", pom, [], files]
        if gradle:
            for s in _shrink_script(gradle[0]):
                yield ["unused", pom, [s], files]
        if pom:
            for d in _shrink_doc(pom[0]):
                yield ["unused", [d], gradle, files]

def pretty(c):
    hi = harness_input(c)
    lines = []
    if hi[0] in ("maven", "gradle"):
        lines += [hi[0] + " text:"] + hi[1].split("\n")
    else:
        for p, t in hi[1]:
            lines += ["--- " + p] + t.split("\n")
    try:
        exp = vlib.run_driver([("C19.expected", c["input"])])[0]
        lines.append("expected by the specification: %r" % (exp,))
    except Exception:
        pass
    return lines
