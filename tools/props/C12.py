"""C12 -- extracted HTTP APIs are exactly the annotated Spring handler methods."""
import vlib
import javagen as J
import C01

ID = "C12"
HARNESS_ENV = {"COCA_BIN": __import__("os").path.join(vlib.ROOT, "harness", "bin", "coca")}
MODEL_ENTRY = "C12.model"
SPEC_ENTRY = "C12.spec"
HARNESS_OP = "java.api"
FRESH_PROCESS = True
CASE_TIMEOUT = "60s"
RULE = ("projects of 1-6 classes mixing controllers (@RestController / @Controller; class mapping absent, shorthand, "
        "value= or bare) and non-controllers carrying mapping annotations, handlers in shorthand / value= / method= / "
        "bare forms for Get/Post/Put/Delete/RequestMapping, 0-4 parameters with @RequestBody at any position, plain "
        "methods interleaved (also as first method), any file order; non-trivial = a controller with >= 1 handler; "
        "distinct = distinct input"
        '; every other project is observed through `coca analysis -p DIR` + `coca api -f -p DIR -d coca_reporter/deps.json`: the entries of apis.json that have their row in api.csv')
TRUSTED_BASE = C01.TRUSTED_BASE
ASSUMPTIONS = ["mapping paths are string literals; controllers implement no @ServiceMethod interface"]

VERBS = {"GetMapping": "GET", "PostMapping": "POST", "PutMapping": "PUT", "DeleteMapping": "DELETE"}

def lit(s): return '"%s"' % s

def gen_class(rng, pkg, name, others):
    controller = rng.random() < 0.65
    annots = []
    base = ""
    if controller:
        annots.append(J.Annotation(rng.choice(["RestController", "Controller"])))
    r = rng.random()
    if r < 0.3:
        base = rng.choice(["/api", "/books", "/v1/x"]); annots.append(J.Annotation("RequestMapping", value=[lit(base)]))
    elif r < 0.5:
        base = rng.choice(["/api", "/u"]); annots.append(J.Annotation("RequestMapping", pairs=[("value", [lit(base)])]))
    elif r < 0.6:
        base = "/"; annots.append(J.Annotation("RequestMapping"))
    if rng.random() < 0.3: annots.insert(0, J.Annotation("Deprecated"))
    if rng.random() < 0.3: rng.shuffle(annots)
    # the controller annotation must come first for the base path to be seen (annotations are read in order)
    members, handlers = [], []
    if rng.random() < 0.4:
        members.append(J.Field(J.T("String"), ["svc"], [J.Annotation("Autowired"), "private"]))
    for i in range(rng.randint(0, 5)):
        mname = rng.choice(["list", "get", "create", "update", "remove", "helper", "toDto"]) + str(i)
        if i and rng.random() < 0.25:
            mname = rng.choice(["search", "find"])          # overloaded handlers: one method name, several mappings
        nparams = rng.randint(0, 3)
        params, body = [], ""
        for j in range(nparams):
            ty = J.T(rng.choice(["String", "Long", "BookDto", "UserForm", "int"]))
            pa = []
            if rng.random() < 0.3:
                pa = [J.Annotation("RequestBody")]; body = ty.text()
            elif rng.random() < 0.2:
                pa = [J.Annotation("PathVariable", value=[lit("id")])]
            params.append((ty, "p%d" % j, pa))
        mods = []
        h = None
        r = rng.random()
        if r < 0.7:
            kind = rng.random()
            path = rng.choice(["/x", "/{id}", "/a/b", ""])
            if kind < 0.45:
                an = rng.choice(list(VERBS))
                mods.append(J.Annotation(an, value=[lit(path)]) if path else J.Annotation(an))
                h = [VERBS[an], path, mname, body]
            elif kind < 0.65:
                an = rng.choice(list(VERBS))
                mods.append(J.Annotation(an, pairs=[("value", [lit(path or "/v")])]))
                h = [VERBS[an], path or "/v", mname, body]
            elif kind < 0.8:
                verb = rng.choice(["GET", "POST", "PUT", "DELETE"])
                mods.append(J.Annotation("RequestMapping", pairs=[("value", [lit(path or "/m")]), ("method", ["RequestMethod", ".", verb])]))
                h = [verb, path or "/m", mname, body]
            elif kind < 0.9:
                mods.append(J.Annotation("RequestMapping", value=[lit(path or "/r")]))
                h = ["", path or "/r", mname, body]
            else:
                mods.append(J.Annotation("RequestMapping"))
                h = ["", "", mname, body]
            if rng.random() < 0.3: mods.append(J.Annotation("ResponseBody"))
        mods.append("public")
        members.append(J.Method(mname, J.T("String") if rng.random() < 0.6 else None, params, [], mods))
        if h is not None: handlers.append(h)
    imports = [J.Import("org.springframework.web.bind.annotation", star=True)] if rng.random() < 0.7 else []
    u = J.Unit(pkg.replace(".", "/") + "/" + name + ".java", pkg, imports, "class", name, members, annots=annots)
    J.render(u, rng, rng.choice(["std", "std", "sparse", "random", "oneline"]))
    # base path is only seen when the controller annotation precedes the class-level mapping
    names = [a.name for a in annots]
    ctl_idx = min([names.index(n) for n in ("RestController", "Controller") if n in names] or [99])
    map_idx = names.index("RequestMapping") if "RequestMapping" in names else -1
    return u, controller, base, handlers, (map_idx == -1 or ctl_idx < map_idx)

def api_annot(a):
    return [a.name, "1" if a.value is not None else "0", "".join(a.value) if a.value is not None else "",
            "1" if a.pairs is not None else "0", [[k, "".join(v)] for k, v in (a.pairs or [])]]

def api_fact(u):
    members = []
    for m in u.members:
        annots = [api_annot(x) for x in m.mods if isinstance(x, J.Annotation)]
        if isinstance(m, J.Field):
            members.append(["0", "", annots, []])
        else:
            params = []
            for prm in m.params:
                pa = prm[2] if len(prm) > 2 else []
                params.append(["1" if any(a.name == "RequestBody" for a in pa) else "0", prm[0].text(), prm[1],
                               [api_annot(a) for a in pa]])
            members.append(["1", m.name, annots, params])
    return [u.pkg, "1", [i.qname for i in u.imports], "1" if u.kind == "class" else "0", u.name, "", "0",
            [api_annot(a) for a in u.annots], members]

def gen(rng):
    n = rng.randint(1, 6)
    names = rng.sample(["BookController", "UserController", "Helper", "OrderApi", "Util", "AdminController", "Dto"], n)
    pkgs = ["com.acme.web", "com.acme.api", "com.acme"]
    classes = []
    for nm in names:
        classes.append(gen_class(rng, rng.choice(pkgs), nm, names))
    order = C01.walk_order([c[0].path for c in classes])
    facts, texts, exps = [], [], []
    tags = set()
    for p in order:
        u, controller, base, handlers, base_seen = next(c for c in classes if c[0].path == p)
        facts.append(api_fact(u)); texts.append([p, u.text])
        if not base_seen: tags.add("mapping_before_controller")
        exps.append([u.pkg, u.name, "1" if controller else "0", base, handlers])
    return facts, texts, exps, sorted(tags)

def harness_input(c):
    return c["texts"]

def canon(out):
    return out

def clauses(spec_out):
    return sorted(set(spec_out))

def finding_matches(f, clause, case):
    return clause.split(":")[0] == f.get("clause") and f.get("tag") in case.get("tags", [])

def nontrivial(c):
    return any(x[2] == "1" and x[4] for x in c["input"][1])

def cases(seed, tier):
    n = 200 if tier == "quick" else 4000
    out = []
    for i in range(n):
        rng = vlib.rng_for(seed, ID, "project", i)
        facts, texts, exps, tags = gen(rng)
        out.append({"name": "project-%d" % i, "tags": ["project"] + tags, "input": [facts, exps], "texts": texts})
    return out

pretty = C01.pretty
