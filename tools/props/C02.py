"""C02 -- recorded call sites are exactly the invocations written in the source."""
import vlib
import javagen as J
import C01

ID = "C02"
MODEL_ENTRY = "C02.model"
SPEC_ENTRY = "C02.spec"
HARNESS_OP = "java.passes"
FRESH_PROCESS = True
CASE_TIMEOUT = "60s"
RULE = ("projects of 1-5 conventional classes whose method and constructor bodies (0-8 statements: declarations, "
        "assignments, if/for/while/switch/try/return) contain unqualified, this-, field-, parameter-, local-, static- "
        "(also written this.field.m()) and chained invocations, `new` expressions and lambdas at random columns (several per line, one token per "
        "line, whole class on one line), receivers declared as fields / parameters / locals at earlier points, names "
        "reused with different types across methods and files; non-trivial = a body with at least 2 calls; "
        "distinct = distinct input"
        "; every third project is analysed after ANOTHER tree (same simple class names, own package) in the same process, two in five from inside the project (-p .)"
        "; every other tree is analysed as DIR/., 15% of the units have Windows line ends, method names include multi-byte letters and '$'")
TRUSTED_BASE = C01.TRUSTED_BASE
ASSUMPTIONS = C01.ASSUMPTIONS + ["identifiers are ASCII, so rune columns are byte columns"]

canon = C01.canon
harness_input = C01.harness_input

def clauses(spec_out):
    return sorted(set(spec_out))

def finding_matches(f, clause, case):
    return clause.split(":")[0] == f.get("clause") and f.get("tag") in case.get("tags", [])

def nontrivial(c):
    return any(len(fn[3]) >= 2 for u in c["input"][1] for fn in u[3])

def gen(rng, family=None):
    project = J.rand_project(rng, rng.randint(1, 4))
    facts, texts, exps = [], [], []
    units = []
    for i in range(len(project)):
        u = J.rand_unit(rng, i, project, path_dir="")
        u.path = u.path.lstrip("/")
        units.append(u)
    if rng.random() < 0.12:
        # a longer class whose two overloads sit at positions that read the same in decimal (4,16 and 41,6)
        cu = J.colliding_unit(rng, "com.coll", "Tally")
        if cu is not None: units.append(cu)
    order = C01.walk_order([u.path for u in units])
    for p in order:
        u = next(x for x in units if x.path == p)
        facts.append([p, "0", "1", J.unit_fact(u)])
        texts.append([p, u.text])
        exps.append([u.pkg, u.name, u.lines, J.expected_calls(u, project)])
    return facts, texts, exps

def cases(seed, tier):
    n = 200 if tier == "quick" else 5000
    out = []
    for i in range(n):
        rng = vlib.rng_for(seed, ID, "project", i)
        facts, texts, exps = gen(rng)
        tags = ["project"]
        if any(len(cl) > 6 for e in exps for fn in e[3] for cl in fn[3]):
            tags.append("this_field_receiver")       # a call through a field written with its qualifier: this.repo.save()
        out.append({"name": "project-%d" % i, "tags": tags, "input": [facts, exps], "texts": texts})
    return out

pretty = C01.pretty
