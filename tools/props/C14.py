"""C14 -- commit-log parsing preserves every commit and every file change."""
import json, os
import vlib
from C15 import pprint_rename

ID = "C14"
MODEL_ENTRY = "C14.model"
SPEC_ENTRY = "C14.spec"
HARNESS_OP = "C14.parse"
FRESH_PROCESS = False
CASE_TIMEOUT = "60s"
HARNESS_ENV = {"COCA_BIN": os.path.join(vlib.ROOT, "harness", "bin", "coca")}
RULE = ("(a) histories materialised with real git (authors with spaces/digits/unicode, subjects with brackets, "
        "hex words, colons, arrows, dates and the author's name, paths with spaces and nesting, adds, edits, "
        "deletes, renames in/across directories and to the root, binaries, mode changes (chmod +x), merges, empty commits), logged with "
        "the argument vector extracted from cmd/git.go, parsed by `coca git` (commits.json) and by "
        "git.BuildMessageByInput, expectations from git plumbing; (b) synthetic logs in the same layout over an "
        "adversarial alphabet; non-trivial = at least 2 commits or a rename/delete/binary; distinct = distinct input")
TRUSTED_BASE = ["modelled, not verified: Go regexp (hand-compiled scanners), git's log layout (observed from the "
                "installed git 2.39), the generator's re-implementation of git's rename notation"]
ASSUMPTIONS = ["paths are ASCII without leading/trailing blanks, tab, newline, '{', '}' or ' => '",
               "ground truth of the real-git stream comes from rev-list / show -s / diff-tree -z"]

def git_args():
    p = os.path.join(vlib.COQ, "Generated", "constants.json")
    return json.load(open(p))["git_log_args"]

AUTHORS = ["Al Ice", "bob", "Carol 3", "D. E. F", "Zoë Ü", "x 2019 y", "Q [dev]"]
SUBJECTS = ["add stuff", "feat: new thing", "fix(core): handle [abc123] properly", "update [12345]", "Merge like: a => b",
            "release 2020-01-02 notes", "see deadbeef and cafe1234", "trailing colon:", "[wip] bracket first",
            "done by Al Ice himself", "tabs\tinside", "quote \" and 'single'", "1\t2\tfake numstat", " leading blank"]
DIRS = ["", "src/", "src/main/", "docs/", "a b/", "pkg/x/", "pkg/y/"]
NAMES = ["a.txt", "b.go", "Main.java", "read me.md", "c.py", "2020 01 notes.txt", "[abcde1].tsx", "x=>y.txt"]

def gen_script(rng):
    steps = []
    live = {}
    execs = set()
    day = [0]
    counter = [0]
    def date():
        day[0] += rng.choice([1, 1, 2, 5, 40])
        d = day[0]
        if d > 60 and rng.random() < 0.12:
            d -= rng.randint(20, 60)          # an author date EARLIER than that of the commit before (rebase, cherry-pick, --date)
        return "20%02d-%02d-%02d" % (19 + d // 336, 1 + (d // 28) % 12, 1 + d % 28)
    def content(n):
        counter[0] += 1
        return "".join("line %d.%d\n" % (counter[0], i) for i in range(n))
    def commit(ops_hint=None):
        ops = []
        touched = set()
        for _ in range(rng.randint(1, 4)):
            r = rng.random()
            if r < 0.4 or not live:
                p = rng.choice(DIRS) + rng.choice(NAMES)
                if rng.random() < 0.5:
                    p = rng.choice(DIRS) + "f%d_" % rng.randint(0, 40) + rng.choice(NAMES)
                if p in live or p in touched: continue
                touched.add(p)
                if rng.random() < 0.12:
                    live[p] = None
                    ops.append(["bin", p, "00ff%04x00" % rng.getrandbits(16)])
                else:
                    live[p] = content(rng.randint(8, 20))
                    ops.append(["write", p, live[p]])
            elif r < 0.65:
                p = rng.choice(list(live))
                if p in touched or live[p] is None: continue
                touched.add(p)
                lines = live[p].splitlines(True)
                k = rng.randint(0, min(3, len(lines) - 1))
                lines = lines[:len(lines) - k]
                live[p] = "".join(lines) + content(rng.randint(0, 4))
                ops.append(["write", p, live[p]])
            elif r < 0.8:
                p = rng.choice(list(live))
                if p in touched: continue
                touched.add(p); del live[p]
                ops.append(["rm", p])
            elif r < 0.86:
                # the executable bit set on a tracked file (a script): ` mode change 100644 => 100755 p` in the summary block
                p = rng.choice(list(live))
                if p in touched or p in execs: continue
                touched.add(p); execs.add(p)
                ops.append(["chmod", p])
            else:
                p = rng.choice(list(live))
                if p in touched or live[p] is None: continue
                base = p.split("/")[-1]
                q = rng.choice(DIRS) + (base if rng.random() < 0.6 else "r%d_" % rng.randint(0, 40) + base)
                if q == p or q in live or q in touched: continue
                touched.add(p); touched.add(q)
                live[q] = live.pop(p)
                ops.append(["mv", p, q])
        return ops
    n = rng.randint(1, 7)
    branch_open = False
    for k in range(n):
        r = rng.random()
        if r < 0.08:
            steps.append(["commit", rng.choice(AUTHORS), date(), rng.choice(SUBJECTS), []])   # empty commit
            continue
        if r < 0.16 and not branch_open and steps:
            steps.append(["branch", "side"])
            steps.append(["commit", rng.choice(AUTHORS), date(), "side: " + rng.choice(SUBJECTS), [["write", "side_%d.txt" % k, content(3)]]])
            steps.append(["checkout", "main"])
            steps.append(["commit", rng.choice(AUTHORS), date(), rng.choice(SUBJECTS), [["write", "main_%d.txt" % k, content(3)]]])
            steps.append(["merge", "side", rng.choice(AUTHORS), date(), "Merge branch side " + rng.choice(SUBJECTS)])
            branch_open = True
            continue
        if r < 0.24 and not branch_open and steps:
            # the fixes of a branch picked onto main one by one, then the branch merged: the merge commit's tree is the
            # tree of its first parent (a history that a path-limited `git log` simplifies away)
            same = content(4)
            steps.append(["branch", "side"])
            steps.append(["commit", rng.choice(AUTHORS), date(), "fix on the branch " + rng.choice(SUBJECTS), [["write", "pick_%d.txt" % k, same]]])
            steps.append(["checkout", "main"])
            steps.append(["commit", rng.choice(AUTHORS), date(), "picked: " + rng.choice(SUBJECTS), [["write", "pick_%d.txt" % k, same]]])
            steps.append(["merge", "side", rng.choice(AUTHORS), date(), "Merge branch side (already picked)"])
            branch_open = True
            continue
        ops = commit()
        if ops:
            subj = rng.choice(SUBJECTS)
            if rng.random() < 0.02:
                # a dependency bump whose whole list sits in the first paragraph: git folds it into ONE header line of 70 KB
                subj = "bump: " + " ".join("lib%04d-1.%d.%d" % (j, j % 7, j % 11) for j in range(5200))
            steps.append(["commit", rng.choice(AUTHORS), date(), subj, ops])
    if not any(s[0] == "commit" for s in steps):
        steps.append(["commit", "A", date(), "init", [["write", "a.txt", content(3)]]])
    return steps

def expected_from_truth(truth):
    exp = []
    for t in truth:
        chs = []
        for a, d, old, new, st in t[4]:
            f = new if old == new else pprint_rename(old, new)
            mode = {"A": "create", "D": "delete"}.get(st, "")
            chs.append([a if a != "-" else "0", d if d != "-" else "0", f, mode])
        exp.append([t[0], t[1], t[2], t[3], chs])
    return exp

def render_synthetic(rng):
    """a log in the layout git prints for the fixed argument vector, over an adversarial alphabet"""
    ncommits = rng.randint(0, 6)
    exp = []
    lines = []
    for k in range(ncommits):
        h = "".join(rng.choice("0123456789abcdef") for _ in range(rng.choice([5, 7, 7, 8, 12])))
        author = rng.choice(AUTHORS + ["a", "1", "J-P O'Neil"])
        date = "20%02d-%02d-%02d" % (rng.randint(0, 30), rng.randint(1, 12), rng.randint(1, 28))
        subj = rng.choice(SUBJECTS + ["", "x", "ends with date 2020-01-01", date + " same date", "[%s] self hash" % h])
        kind = rng.random()
        if kind < 0.15:      # merge / empty commit: header only, no blank line
            lines.append("[%s] %s %s %s" % (h, author, date, subj))
            continue
        chs = []
        nums, sums = [], []
        for j in range(rng.randint(1, 4)):
            p = rng.choice(DIRS) + "g%d_%d_" % (k, j) + rng.choice(NAMES)
            r = rng.random()
            if r < 0.6:
                a, d = rng.randint(0, 99), rng.randint(0, 99)
                mode = rng.choice(["", "", "create"]) if r < 0.55 else ""
                nums.append("%d\t%d\t%s" % (a, d, p))
                if mode: sums.append(" create mode 100644 %s" % p)
                chs.append([str(a), str(d), p, mode])
            elif r < 0.66:
                nums.append("0\t0\t%s" % p); sums.append(" mode change 100644 => 100755 %s" % p)
                chs.append(["0", "0", p, ""])
            elif r < 0.75:
                nums.append("-\t-\t%s" % p); sums.append(" create mode 100644 %s" % p)
                chs.append(["0", "0", p, "create"])
            elif r < 0.88:
                d = rng.randint(1, 50)
                nums.append("0\t%d\t%s" % (d, p)); sums.append(" delete mode 100644 %s" % p)
                chs.append(["0", str(d), p, "delete"])
            else:
                q = rng.choice(DIRS) + "h%d_%d_" % (k, j) + rng.choice(NAMES)
                note = pprint_rename(p, q)
                a, d = rng.randint(0, 9), rng.randint(0, 9)
                nums.append("%d\t%d\t%s" % (a, d, note)); sums.append(" rename %s (%d%%)" % (note, rng.randint(50, 99)))
                chs.append([str(a), str(d), note, ""])
        lines.append("[%s] %s %s %s" % (h, author, date, subj))
        lines += nums + sums
        lines.append("")
        exp.append([h, author, date, subj, chs])
    # git ends every diff line with a newline but prints no newline after a last, header-only entry;
    # the blank line is a separator between entries
    if lines and lines[-1] == "":
        raw = "\n".join(lines[:-1]) + "\n"
    else:
        raw = "\n".join(lines)
    return raw, exp

def canon(out):
    if not isinstance(out, list) or (out and isinstance(out[0], str)):
        return out
    return [[c[0], c[1], c[2], c[3], sorted(c[4])] for c in out]

def clauses(spec_out):
    return list(spec_out)

def finding_matches(f, clause, case):
    return clause.split(":")[0] == f.get("clause") and f.get("tag") in case.get("tags", [])

def nontrivial(c):
    exp = c["input"][1]
    return len(exp) >= 2 or any(ch[3] or " => " in ch[2] for e in exp for ch in e[4])

def cases(seed, tier):
    n_git = 40 if tier == "quick" else 600
    n_syn = 400 if tier == "quick" else 20000
    out = []
    scripts = [gen_script(vlib.rng_for(seed, ID, "git", i)) for i in range(n_git)]
    args = git_args()
    res = vlib.run_harness([("C14.git", [s, args]) for s in scripts], case_timeout="120s", env_extra=HARNESS_ENV, workers=8)
    for i, (s, r) in enumerate(zip(scripts, res)):
        if not isinstance(r, list) or len(r) != 4 or (r and isinstance(r[0], str) and r[0].startswith("!")):
            out.append({"name": "git-%d" % i, "tags": ["real_git", "harness_failed"], "input": ["", []],
                        "impl_out": ["!HARNESS", str(r)[:300]], "script": s})
            continue
        raw, cli, lib, truth = r
        exp = expected_from_truth(truth)
        big = any(len(ln) > 20000 for ln in raw.split("\n"))     # a 70 KB header line: judged by the decider alone
        out.append({"name": "git-%d-cli" % i, "tags": ["real_git", "cli"] + (["long_line"] if big else []), "input": [raw, exp],
                    "impl_out": cli, "script": s, "decider_only": big})
        out.append({"name": "git-%d-lib" % i, "tags": ["real_git", "library"] + (["long_line"] if big else []), "input": [raw, exp],
                    "impl_out": lib, "script": s, "decider_only": big})
    for i in range(n_syn):
        rng = vlib.rng_for(seed, ID, "synthetic", i)
        raw, exp = render_synthetic(rng)
        out.append({"name": "syn-%d" % i, "tags": ["synthetic"], "input": [raw, exp]})
    return out

def pretty(c):
    lines = ["raw log:"] + ["  | " + l for l in c["input"][0].split("\n")]
    lines.append("expected: %r" % (c["input"][1],))
    if c.get("script"):
        lines.append("script: %r" % (c["script"],))
    return lines
