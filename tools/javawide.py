"""Wide Java generator for C09: compilation units that are valid by construction w.r.t. the grammar coca
ships (languages/java/JavaParser.g4, Java 17 level) and far outside the conventional subset of javagen:
nested / anonymous / local / enum / record / annotation types, generics with bounds and wildcards,
lambdas, method references, arrays and initialisers, static / instance initialisers, every annotation
argument form, switch expressions, patterns, text blocks, non-ASCII identifiers and literals.
Every choice is drawn from the rng given, nothing else."""

IDS_ASCII = ["a", "b", "x", "y", "foo", "bar", "value", "item", "count", "name", "$tmp", "_under", "i1", "T0"]
IDS_WIDE = ["größe", "名前", "café", "данные", "ñu"]
TYPES = ["Foo", "Bar", "Baz", "Order", "Item", "Svc", "Repo", "Überweisung"]
PRIMS = ["int", "long", "boolean", "double", "char", "byte", "short", "float"]
ANNOTS = ["Override", "Deprecated", "Test", "Ignore", "Autowired", "RestController", "Controller", "RequestMapping",
          "GetMapping", "PostMapping", "PutMapping", "DeleteMapping", "Nullable", "ServiceMethod", "SuppressWarnings",
          "Entity", "Table", "com.acme.Marker", "RequestBody", "PathVariable"]
CTX_KEYWORD_IDS = ["record", "var", "yield", "sealed", "permits", "module", "open", "to", "with", "exports"]

class G:
    def __init__(self, rng, nonascii=True, depth=3):
        self.r = rng; self.nonascii = nonascii; self.maxdepth = depth

    # ---------------- lexical
    def ident(self):
        r = self.r.random()
        if self.nonascii and r < 0.08: return self.r.choice(IDS_WIDE)
        if r < 0.12: return self.r.choice(CTX_KEYWORD_IDS)
        return self.r.choice(IDS_ASCII)
    def tname(self): return self.r.choice(TYPES)
    def qname(self):
        return ".".join(self.r.choice(["com", "org", "acme", "util", "core", "x"]) for _ in range(self.r.randint(1, 3)))
    def string(self):
        body = self.r.choice(["", "s", "a b", "/api/x", "null", "// no comment", "/* x */", "TODO: not one", "\\n\\t\\\"q\\\"",
                              "\\u0041", "日本語", "é", "{id}", "a.b()", "'", "100%"])
        return '"' + body + '"'
    def literal(self):
        return self.r.choice(["0", "1", "42", "0x1F", "0b101", "1_000", "7L", "3.14", "1e3", "2.5f", "'c'", "'\\n'", "'\\''",
                              "'é'", "true", "false", "null", self.string(), self.string(),
                              '"""\n    text block\n    "quoted"\n    """'])

    # ---------------- types
    def type_args(self, d):
        n = self.r.randint(1, 2)
        return "<" + ", ".join(self.type_arg(d) for _ in range(n)) + ">"
    def type_arg(self, d):
        r = self.r.random()
        if r < 0.15: return "?"
        if r < 0.25: return "? extends " + self.ref_type(d + 1)
        if r < 0.3: return "? super " + self.ref_type(d + 1)
        return self.ref_type(d + 1)
    def ref_type(self, d=0):
        t = self.tname()
        r = self.r.random()
        if r < 0.04: t = self.qname() + ".@" + self.r.choice(["Nullable", "NonNull", "Deprecated"]) + " " + t    # type annotation
        elif r < 0.17: t = self.qname() + "." + t
        if d < 2 and self.r.random() < 0.3: t += self.type_args(d)
        if self.r.random() < 0.1: t += "." + self.tname()
        if self.r.random() < 0.15: t += "[]" * self.r.randint(1, 2)
        return t
    def type(self, d=0):
        if self.r.random() < 0.3:
            return self.r.choice(PRIMS) + ("[]" * self.r.randint(1, 2) if self.r.random() < 0.3 else "")
        return self.ref_type(d)
    def type_params(self):
        ps = []
        for i in range(self.r.randint(1, 2)):
            p = self.r.choice(["T", "U", "K", "V"]) + str(i)
            if self.r.random() < 0.4: p += " extends " + " & ".join(self.ref_type(1) for _ in range(self.r.randint(1, 2)))
            ps.append(p)
        return "<" + ", ".join(ps) + ">"

    # ---------------- annotations
    def element_value(self, d=0):
        r = self.r.random()
        if r < 0.3: return self.string()
        if r < 0.4: return self.r.choice(["1", "X", "P", "Paths.ROOT", "RequestMethod.GET", "a + 1", "Foo.class", "int.class", "-1", "true"])
        if r < 0.55 and d < 2: return "{" + ", ".join(self.element_value(d + 1) for _ in range(self.r.randint(0, 3))) + (", " if self.r.random() < 0.1 else "") + "}"
        if r < 0.65 and d < 2: return self.annotation(d + 1)
        return self.string()
    def annotation(self, d=0):
        name = self.r.choice(ANNOTS)
        r = self.r.random()
        if r < 0.35: return "@" + name
        if r < 0.45: return "@" + name + "()"
        if r < 0.7: return "@" + name + "(" + self.element_value(d) + ")"
        pairs = []
        for k in self.r.sample(["value", "method", "name", "path", "produces", "expected", "timeout"], self.r.randint(1, 3)):
            pairs.append(k + " = " + self.element_value(d))
        return "@" + name + "(" + ", ".join(pairs) + ")"
    def annots(self, p=0.3, sep=" "):
        out = []
        while self.r.random() < p and len(out) < 3: out.append(self.annotation())
        return "".join(a + sep for a in out)

    # ---------------- expressions
    def args(self, d):
        return "(" + ", ".join(self.expr(d + 1) for _ in range(self.r.randint(0, 3))) + ")"
    def lambda_(self, d):
        r = self.r.random()
        if r < 0.3: params = self.ident()
        elif r < 0.6: params = "(" + ", ".join(self.r.sample(["p", "q", "w"], self.r.randint(0, 3))) + ")"
        elif r < 0.8: params = "(" + ", ".join("%s %s" % (self.type(), n) for n in self.r.sample(["p", "q"], self.r.randint(1, 2))) + ")"
        else: params = "(var p, var q)"
        if self.r.random() < 0.6 or d >= self.maxdepth: return params + " -> " + self.expr(d + 1)
        return params + " -> " + self.block(d + 1)
    def primary(self, d):
        r = self.r.random()
        if r < 0.25: return self.literal()
        if r < 0.5: return self.ident()
        if r < 0.55: return "this"
        if r < 0.6: return "(" + self.expr(d + 1) + ")"
        if r < 0.65: return self.tname() + ".class"
        if r < 0.7: return "super." + self.ident() + self.args(d)
        if r < 0.75: return self.tname() + "." + self.ident()
        return self.ident() + self.args(d)
    def creator(self, d):
        r = self.r.random()
        if r < 0.2: return "new " + self.r.choice(PRIMS + [self.tname()]) + "[" + self.expr(d + 1) + "]" + ("[]" if self.r.random() < 0.3 else "")
        if r < 0.35: return "new " + self.r.choice(["int", self.tname()]) + "[] {" + ", ".join(self.expr(d + 1) for _ in range(self.r.randint(0, 3))) + "}"
        if r < 0.45: return "new " + self.tname() + "<>" + self.args(d)
        if r < 0.55: return "new " + self.tname() + self.type_args(1) + self.args(d)
        if r < 0.75 and d < self.maxdepth:
            return "new " + self.tname() + self.args(d) + " " + self.class_body(d + 1, "class")
        return "new " + self.tname() + self.args(d)
    def method_ref(self, d):
        return self.r.choice([self.tname() + "::" + self.ident(), "this::" + self.ident(), "super::" + self.ident(),
                              self.tname() + "::new", "int[]::new", self.ident() + "::" + self.ident(),
                              self.tname() + "::<" + self.tname() + ">" + self.ident(), "System.out::println"])
    def expr(self, d=0):
        if d > self.maxdepth: return self.r.choice([self.literal(), self.ident()])
        r = self.r.random()
        if r < 0.3: return self.primary(d)
        if r < 0.4:
            e = self.r.choice([self.ident(), "this", self.ident() + self.args(d), "(" + self.expr(d + 1) + ")", self.string(),
                               "this" + self.args(d), "super" + self.args(d), "super." + self.ident() + self.args(d)])
            for _ in range(self.r.randint(1, 3)):
                k = self.r.random()
                if k < 0.5: e += "." + self.ident() + self.args(d)
                elif k < 0.7: e += "." + self.ident()
                elif k < 0.8: e += "[" + self.expr(d + 1) + "]"
                elif k < 0.9: e += ".<" + self.tname() + ">" + self.ident() + self.args(d)
                else: e += ".new " + self.tname() + self.args(d)
            return e
        if r < 0.5: return self.creator(d)
        if r < 0.58: return self.lambda_(d)
        if r < 0.64: return self.method_ref(d)
        if r < 0.72: return self.expr(d + 1) + " " + self.r.choice(["+", "-", "*", "/", "%", "&&", "||", "==", "!=", "<", ">=", "&", "|", "^", "<<", ">>", ">>>"]) + " " + self.expr(d + 1)
        if r < 0.76: return self.r.choice(["!", "-", "~", "++", "--"]) + self.primary(d)
        if r < 0.79: return self.ident() + self.r.choice(["++", "--"])
        if r < 0.84: return self.expr(d + 1) + " ? " + self.expr(d + 1) + " : " + self.expr(d + 1)
        if r < 0.88: return "(" + self.type() + ") " + self.primary(d)
        if r < 0.9: return "(" + self.tname() + " & " + self.tname() + ") " + self.primary(d)
        if r < 0.94: return self.ident() + " instanceof " + self.ref_type(1) + (" " + self.ident() if self.r.random() < 0.5 else "")
        if r < 0.97: return self.ident() + " " + self.r.choice(["=", "+=", "-=", "*=", "|=", ">>>="]) + " " + self.expr(d + 1)
        return self.switch_expr(d)
    def switch_expr(self, d):
        cases = []
        for i in range(self.r.randint(1, 3)):
            lab = "case " + ", ".join(self.r.choice(["1", "2", "A", "B", '"s"']) for _ in range(self.r.randint(1, 2)))
            body = self.r.choice([self.expr(d + 1) + ";", self.block(d + 1), "throw new " + self.tname() + "();"])
            cases.append(lab + " -> " + body)
        cases.append("default -> " + self.expr(d + 1) + ";")
        return "switch (" + self.ident() + ") { " + " ".join(cases) + " }"

    # ---------------- statements
    def block(self, d):
        if d > self.maxdepth: return "{ }"
        return "{ " + " ".join(self.stmt(d + 1) for _ in range(self.r.randint(0, 3))) + " }"
    def simple_stmt(self, d):
        """a statement that may stand alone as the body of if / else / a loop (no declaration)"""
        for _ in range(20):
            st = self.stmt(d)
            if not getattr(self, "_last_decl", False): return st
        return ";"
    def stmt(self, d):
        st = self.stmt0(d)
        # declarations are recognised on the text: the generator's own two declaration forms
        self._last_decl = getattr(self, "_mark", None) is st
        return st
    def stmt0(self, d):
        if d > self.maxdepth: return self.ident() + self.args(d) + ";"
        r = self.r.random()
        if r < 0.18:
            # variable modifiers: final and annotations, any number, any order
            ms = [self.r.choice(["final", self.annotation()]) for _ in range(self.r.randint(1, 3))] if self.r.random() < 0.3 else []
            if ms.count("final") > 1: ms = [x for x in ms if x != "final"] + ["final"]
            self.r.shuffle(ms)
            mods = "".join(x + " " for x in ms)
            ty = "var" if self.r.random() < 0.15 else self.type()
            decl = self.ident() + ((" = " + (self.expr(d) if not ty.endswith("]") or self.r.random() < 0.5 else "{" + self.literal() + "}")) if self.r.random() < 0.7 or ty == "var" else "")
            self._mark = mods + ty + " " + decl + ";"
            return self._mark
        if r < 0.4: return self.r.choice([self.ident() + self.args(d), self.ident() + "." + self.ident() + self.args(d),
                                           self.ident() + " = " + self.expr(d), self.creator(d), self.ident() + "++"]) + ";"
        if r < 0.48:
            st = "if (" + self.expr(d) + ") " + self.r.choice([self.block(d), self.simple_stmt(d + 1)]) + (" else " + self.r.choice([self.block(d), self.simple_stmt(d + 1)]) if self.r.random() < 0.4 else "")
            return st
        if r < 0.53: return "for (int i = 0; i < " + self.expr(d + 1) + "; i++) " + self.block(d)
        if r < 0.56: return "for (;;) " + self.block(d)
        if r < 0.61: return "for (" + self.r.choice(["final ", ""]) + self.r.choice(["var", self.type()]) + " " + self.ident() + " : " + self.expr(d + 1) + ") " + self.block(d)
        if r < 0.64: return "while (" + self.expr(d) + ") " + self.block(d)
        if r < 0.66: return "do " + self.block(d) + " while (" + self.expr(d) + ");"
        if r < 0.72:
            res = "(" + self.r.choice([self.tname() + " r = " + self.creator(d + 1), "var r = " + self.expr(d + 1), self.ident()]) + ") " if self.r.random() < 0.3 else ""
            catches = "".join(" catch (" + self.r.choice(["final ", ""]) + " | ".join(self.r.sample(["Exception", "IOException", "x.Err", "RuntimeException"], self.r.randint(1, 2))) + " e) " + self.block(d)
                              for _ in range(self.r.randint(0 if res else 1, 2)))
            fin = " finally " + self.block(d) if self.r.random() < 0.3 or (not catches and not res) else ""
            return "try " + res + self.block(d) + catches + fin
        if r < 0.77:
            cases = "".join(" case " + self.r.choice(["1", "A", '"s"', "'c'"]) + ": " + self.stmt(d + 1) + (" break;" if self.r.random() < 0.6 else "") for _ in range(self.r.randint(0, 3)))
            return "switch (" + self.expr(d + 1) + ") {" + cases + (" default: " + self.stmt(d + 1) if self.r.random() < 0.6 else "") + " }"
        if r < 0.8: return "switch (" + self.ident() + ") { case 1, 2 -> " + self.stmt(d + 1) + " default -> { } }"
        if r < 0.83: return "synchronized (" + self.r.choice(["this", self.ident()]) + ") " + self.block(d)
        if r < 0.88: return "return" + (" " + self.expr(d) if self.r.random() < 0.8 else "") + ";"
        if r < 0.9: return "throw new " + self.tname() + self.args(d) + ";"
        if r < 0.92: return self.r.choice(["break;", "continue;", ";", "assert " + self.expr(d + 1) + ";", "assert x > 0 : \"m\";"])
        if r < 0.94: return "outer: for (;;) { break outer; }"
        if r < 0.97 and d < self.maxdepth:
            self._mark = self.type_decl(d + 1, local=True)
            return self._mark
        return self.block(d)

    # ---------------- members and types
    def params(self):
        ps = []
        n = self.r.randint(0, 3)
        for i in range(n):
            mods = self.annots(0.25) + ("final " if self.r.random() < 0.2 else "")
            if i == n - 1 and self.r.random() < 0.15: ps.append(mods + self.type() + "... " + "rest")
            else: ps.append(mods + self.type() + " " + self.r.choice(["p", "q", "w", "name"]) + str(i) + ("[]" if self.r.random() < 0.05 else ""))
        if ps and self.r.random() < 0.05: ps.insert(0, self.tname() + " this")
        return "(" + ", ".join(ps) + ")"
    def member_mods(self, kind):
        pool = ["public", "private", "protected", "static", "final", "abstract", "synchronized", "native", "strictfp", "transient", "volatile", "default"]
        out = []
        if self.r.random() < 0.7: out.append(self.r.choice(["public", "private", "protected"]))
        for m, p, ok in [("static", 0.25, True), ("final", 0.2, True), ("synchronized", 0.1, kind == "method"),
                         ("transient", 0.08, kind == "field"), ("volatile", 0.05, kind == "field"), ("strictfp", 0.03, kind == "method")]:
            if ok and self.r.random() < p: out.append(m)
        self.r.shuffle(out)
        return self.annots(0.3, self.r.choice([" ", "\n  "])) + "".join(m + " " for m in out)
    def method(self, d, in_iface=False, name=None):
        name = name or self.ident()
        tp = self.type_params() + " " if self.r.random() < 0.15 else ""
        ret = "void" if self.r.random() < 0.35 else self.type()
        throws = " throws " + ", ".join(self.r.sample(["Exception", "x.Err", "IOException"], self.r.randint(1, 2))) if self.r.random() < 0.2 else ""
        dims = "[]" if ret != "void" and self.r.random() < 0.03 else ""
        if in_iface:
            r = self.r.random()
            mods = self.annots(0.3) + self.r.choice(["", "public ", "public abstract ", "default ", "static ", "private "])
            has_body = any(k in mods for k in ("default", "static", "private"))
            return mods + tp + ret + " " + name + self.params() + dims + throws + (" " + self.block(d) if has_body else ";")
        mods = self.member_mods("method")
        if self.r.random() < 0.1:
            return self.annots(0.3) + self.r.choice(["public ", "protected ", ""]) + "abstract " + tp + ret + " " + name + self.params() + throws + ";"
        if "native" in mods: return mods + tp + ret + " " + name + self.params() + throws + ";"
        return mods + tp + ret + " " + name + self.params() + dims + throws + " " + self.block(d)
    def field(self, d):
        ty = self.type()
        decls = []
        for i in range(self.r.randint(1, 2)):
            v = self.ident() + str(i)
            if self.r.random() < 0.1: v += "[]"
            if self.r.random() < 0.6:
                v += " = " + ("{" + ", ".join(self.literal() for _ in range(self.r.randint(0, 3))) + "}" if (ty.endswith("]") or v.endswith("]")) and self.r.random() < 0.7 else self.expr(d + 1))
            decls.append(v)
        return self.member_mods("field") + ty + " " + ", ".join(decls) + ";"
    def comment(self):
        """comments of every shape the todo scan has to survive: bare markers, empty comments, markers glued to the
        comment sign, assignees, block comments closed right after the marker"""
        return self.r.choice(["// TODO", "//fixme", "// FIXME   ", "//", "/**/", "/* TODO */", "/*FIXME*/", "// TODO(bob): x",
                              "// todo: y", "/* TODO\n * more\n */", "// TODOS are not todos", "//TODO", "// ", "/* */",
                              "// FIXME(", "// TODO()", "/** FIXME */", "// TODO(bob)", "//fixme(al)", "// TODO(a.b+c@d)", "// TODO:", "// FIXME(x):", "// \u00e9 TODO later"])
    def class_body(self, d, kind, name="X"):
        if d > self.maxdepth: return "{ }"
        ms = []
        if self.r.random() < 0.15: ms.append(self.comment())
        for _ in range(self.r.randint(0, 5)):
            r = self.r.random()
            if kind == "interface":
                if r < 0.6: ms.append(self.method(d, in_iface=True))
                elif r < 0.8: ms.append(self.annots(0.2) + self.type() + " " + self.ident().upper() + "_C = " + self.expr(d + 1) + ";")
                elif d < self.maxdepth: ms.append(self.type_decl(d + 1, member=True))
                continue
            if r < 0.35: ms.append(self.method(d))
            elif r < 0.6: ms.append(self.field(d))
            elif r < 0.68: ms.append(self.annots(0.3) + self.r.choice(["public ", "private ", "", "protected "]) + (self.type_params() + " " if self.r.random() < 0.1 else "") + name + self.params() + (" throws Exception" if self.r.random() < 0.1 else "") + " " + self.ctor_block(d))
            elif r < 0.74: ms.append(self.r.choice(["static ", ""]) + self.block(d))
            elif r < 0.78: ms.append(";")
            elif d < self.maxdepth: ms.append(self.type_decl(d + 1, member=True))
        return "{\n  " + "\n  ".join(ms) + "\n}"
    def ctor_block(self, d):
        first = self.r.choice(["", "", "this" + self.args(d) + "; ", "super" + self.args(d) + "; "])
        return "{ " + first + " ".join(self.stmt(d + 1) for _ in range(self.r.randint(0, 2))) + " }"
    def type_decl(self, d, member=False, local=False, name=None):
        name = name or self.tname()
        r = self.r.random()
        mods = self.annots(0.35, self.r.choice([" ", "\n"]))
        if local:
            mods += self.r.choice(["", "final ", "abstract "])
            r = self.r.random() * 0.55          # local: class, record, enum, interface
        elif member:
            mods += self.r.choice(["", "public ", "private static ", "static ", "protected ", "public static final "])
        else:
            mods += self.r.choice(["public ", "", "public final ", "abstract ", "public abstract ", "sealed ", "non-sealed ", "strictfp "])
        if r < 0.4:
            tp = self.type_params() if self.r.random() < 0.25 else ""
            ext = " extends " + self.ref_type(1).rstrip("[]") if self.r.random() < 0.3 else ""
            imp = " implements " + ", ".join(self.ref_type(1).rstrip("[]") for _ in range(self.r.randint(1, 2))) if self.r.random() < 0.3 else ""
            per = " permits " + ", ".join(self.r.sample(TYPES, 2)) if "sealed " in mods and "non-" not in mods else ""
            return mods + "class " + name + tp + ext + imp + per + " " + self.class_body(d, "class", name)
        if r < 0.55:
            mods = mods.replace("final ", "").replace("abstract ", "").replace("non-sealed ", "").replace("sealed ", "")
            cs = [(self.type(), n) for n in self.r.sample(["a", "b", "c", "名"], self.r.randint(0, 3))]
            comps = ", ".join(self.annots(0.2) + t + " " + n for t, n in cs)
            comps_plain = ", ".join(t + " " + n for t, n in cs)
            imp = " implements " + self.tname() if self.r.random() < 0.2 else ""
            body = []
            if self.r.random() < 0.3: body.append("public " + name + "(" + comps_plain + ") { " + self.simple_stmt(d + 2) + " }")
            if self.r.random() < 0.5: body.append(self.method(d + 1))
            if self.r.random() < 0.2: body.append("static int N = 1;")
            return mods + "record " + name + (self.type_params() if self.r.random() < 0.15 else "") + "(" + comps + ")" + imp + " {\n  " + "\n  ".join(body) + "\n}"
        if r < 0.7:
            mods = mods.replace("final ", "").replace("abstract ", "").replace("non-sealed ", "").replace("sealed ", "")
            consts = []
            for c in self.r.sample(["A", "B", "RED", "GREEN", "ÜBER"], self.r.randint(0, 4)):
                c = self.annots(0.15) + c
                if self.r.random() < 0.3: c += self.args(d + 1)
                if self.r.random() < 0.15 and d < self.maxdepth: c += " { " + self.method(d + 2) + " }"
                consts.append(c)
            tail = ""
            if self.r.random() < 0.5:
                tail = ";\n  " + "\n  ".join(self.r.choice([self.method(d + 1), self.field(d + 1), "private " + name + self.params() + " { }"]) for _ in range(self.r.randint(0, 3)))
            elif self.r.random() < 0.2: tail = ","
            imp = " implements " + self.tname() if self.r.random() < 0.2 else ""
            return mods + "enum " + name + imp + " {\n  " + ", ".join(consts) + tail + "\n}"
        if r < 0.88 or local:
            mods = mods.replace("final ", "").replace("non-sealed ", "")
            ext = " extends " + ", ".join(self.ref_type(1).rstrip("[]") for _ in range(self.r.randint(1, 2))) if self.r.random() < 0.3 else ""
            per = " permits " + ", ".join(self.r.sample(TYPES, 2)) if "sealed " in mods else ""
            return mods + "interface " + name + (self.type_params() if self.r.random() < 0.25 else "") + ext + per + " " + self.class_body(d, "interface", name)
        mods = mods.replace("final ", "").replace("abstract ", "").replace("non-sealed ", "").replace("sealed ", "").replace("strictfp ", "")
        els = []
        for _ in range(self.r.randint(0, 4)):
            k = self.r.random()
            if k < 0.6:
                ty = self.r.choice(["String", "int", "Class<?>", "String[]", "RetentionPolicy", "Deprecated"])
                dv = {"String": self.string(), "int": "1", "Class<?>": "Object.class", "String[]": "{}", "RetentionPolicy": "RetentionPolicy.RUNTIME", "Deprecated": "@Deprecated"}[ty]
                els.append(self.annots(0.1) + ty + " " + self.ident() + "()" + (" default " + dv if self.r.random() < 0.6 else "") + ";")
            elif k < 0.75: els.append("int MAX = 3;")
            elif d < self.maxdepth: els.append(self.type_decl(d + 1, member=True))
        return mods + "@interface " + name + " {\n  " + "\n  ".join(els) + "\n}"

    def unit(self, name=None, pkg=None):
        out = []
        if self.r.random() < 0.05: out.append("// leading comment with TODO inside the text\n/* block\n * FIXME(al): here */")
        if pkg is None and self.r.random() < 0.85: pkg = self.qname()
        if pkg: out.append(self.annots(0.05) + "package " + pkg + ";")
        for _ in range(self.r.randint(0, 5)):
            r = self.r.random()
            q = self.qname() + "." + self.tname()
            out.append("import " + ("static " + q + "." + self.r.choice(["of", "*", "MAX"]) if r < 0.2 else (q if r < 0.8 else self.qname() + ".*")) + ";")
        if self.r.random() < 0.05: out.append(";")
        n = 1 if self.r.random() < 0.7 else self.r.randint(0, 3)
        for i in range(n):
            if self.r.random() < 0.2: out.append(self.comment())
            out.append(self.type_decl(0, name=name if i == 0 else None))
            if self.r.random() < 0.1: out.append("// TODO trailing\n")
        return "\n".join(out) + ("\n" if self.r.random() < 0.9 else "")
