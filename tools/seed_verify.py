#!/usr/bin/env python3
"""seed_verify.py <property-id> <patch.diff> [--no-suite|--suite-only|--check-only] [--checks=C01,C02,..]

Confirms a seeded change and runs the property's check against it:
 1. scratch worktree of /repo HEAD (outside /repo and /verif), patch applied, `go build ./...`, pinned suite
    (same filter as tools/repo_test.sh), worktree removed;
 2. patch applied to /repo's working tree, `tools/check <id>` (quick), patch undone (`git checkout -- .`).
Prints one JSON object."""
import json, os, subprocess, sys, tempfile, shutil, re

ROOT = os.path.dirname(os.path.dirname(os.path.abspath(__file__)))
ENV = dict(os.environ, GOFLAGS="-mod=mod", GOPROXY="off", GOSUMDB="off", GOTOOLCHAIN="local")

def sh(cmd, cwd=None, timeout=3600):
    p = subprocess.run(cmd, shell=True, cwd=cwd, env=ENV, stdout=subprocess.PIPE, stderr=subprocess.STDOUT, text=True, timeout=timeout)
    return p.returncode, p.stdout

def main():
    pid, patch = sys.argv[1], os.path.abspath(sys.argv[2])
    res = {"property": pid, "patch": patch}
    if "--no-suite" not in sys.argv and "--check-only" not in sys.argv:
        wt = tempfile.mkdtemp(prefix="seedverify-", dir="/tmp")
        os.rmdir(wt)
        try:
            rc, out = sh("git -C /repo worktree add -q %s HEAD" % wt)
            rc, out = sh("git apply %s" % patch, cwd=wt)
            res["applies"] = rc == 0
            if rc != 0:
                res["apply_log"] = out[-500:]
            else:
                rc, out = sh("go build ./...", cwd=wt)
                res["builds"] = rc == 0
                if rc != 0: res["build_log"] = out[-800:]
                else:
                    rc, out = sh("go test -vet=off -count=1 ./... 2>&1", cwd=wt)
                    bad = [l for l in out.split("\n") if re.match(r"^(--- FAIL|FAIL|panic:)", l) or "cannot" in l or "undefined" in l]
                    bad = [l for l in bad if not re.search(r"TestNewTodoApp|pkg/application/todo|TestMoveClassApp|TestRenameMethodApp|^FAIL$", l)]
                    res["suite_passes"] = not bad
                    if bad: res["suite_failures"] = bad[:10]
        finally:
            sh("git -C /repo worktree remove --force %s" % wt)
            shutil.rmtree(wt, ignore_errors=True)
    if "--suite-only" in sys.argv:
        print(json.dumps(res, indent=1)); return
    # 2. the check against the patched tree
    rc, out = sh("git -C /repo status --porcelain")
    if out.strip():
        res["error"] = "/repo working tree is not clean"; print(json.dumps(res, indent=1)); sys.exit(2)
    try:
        rc, out = sh("git -C /repo apply %s" % patch)
        if rc != 0:
            res["error"] = "patch does not apply to /repo: " + out[-300:]
        else:
            also = [a.split("=", 1)[1].split(",") for a in sys.argv if a.startswith("--checks=")]
            ids = also[0] if also else [pid]
            res["checks"] = {}
            for cid in ids:
                rc, out = sh("tools/check %s --tier quick" % cid, cwd=ROOT, timeout=3600)
                lines = [l[:300] for l in out.strip().split("\n")]
                res["checks"][cid] = {"exit": rc, "tail": [l for l in lines if l.startswith("VIOLATION") or l.startswith(cid)][-6:]}
                if cid == pid or len(ids) == 1:
                    res["check_exit"] = rc
                    res["check_tail"] = res["checks"][cid]["tail"]
                    res["caught"] = rc != 0 and any(l.startswith("VIOLATION property=%s" % cid) for l in lines)
                    res["no_failing_input_found"] = any("no-failing-input-found" in l for l in lines)
                    # keep the replay of the first violation next to the patch
                    m = next((re.search(r"replay=(\S+)", l) for l in lines if l.startswith("VIOLATION")), None)
                    if m and os.path.exists(m.group(1)):
                        res["replay"] = m.group(1)
                        try: shutil.copy(m.group(1), patch + ".%s.replay.json" % cid)
                        except Exception: pass
            res["alarms"] = sorted(c for c, v in res["checks"].items() if v["exit"] != 0)
    finally:
        sh("git -C /repo checkout -- .")
        sh("git -C /repo clean -fdq")
    print(json.dumps(res, indent=1))

if __name__ == "__main__":
    main()
