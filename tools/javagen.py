"""Generator of conventional Java compilation units: an abstract syntax (plain Python objects),
a token renderer with random layout that records the (line, column) of every token, and the
derivation of the facts ANTLR-based listeners read (texts = token texts concatenated without
blanks, positions = line / rune column of start and stop tokens).

Columns are 0-based rune columns, lines are 1-based (ANTLR conventions)."""

import random

# ------------------------------------------------------------------ AST
class Node:
    def __init__(self, **kw):
        self.__dict__.update(kw)
        self.first = None   # index of first token
        self.last = None    # index of last token

class Type(Node):
    """text pieces: base identifier(s) (dotted), generic args (list of Type), array dims; prim = primitive"""
    def __init__(self, base, args=(), dims=0, prim=False, diamond=False):
        super().__init__(base=base, args=list(args), dims=dims, prim=prim, diamond=diamond)
    def text(self):
        t = self.base
        if self.diamond:
            t += "<>"
        if self.args:
            t += "<" + ",".join(a.text() for a in self.args) + ">"
        return t + "[]" * self.dims
    def first_ident(self):
        return self.base.split(".")[0]

def T(s, *args, dims=0):
    prim = s in ("int", "long", "boolean", "double", "float", "char", "byte", "short")
    return Type(s, args, dims, prim)

class Annotation(Node):
    def __init__(self, name, value=None, pairs=None):
        super().__init__(name=name, value=value, pairs=pairs)   # value: expr text tokens list; pairs: [(k, tokens)]

class Field(Node):
    def __init__(self, type, names, mods=(), inits=None):
        super().__init__(type=type, names=list(names), mods=list(mods), inits=inits or {})

class Method(Node):
    def __init__(self, name, ret, params=(), body=None, mods=(), kind="method", type_params=None):
        # mods: list of str keywords or Annotation; kind: method | ctor | imethod ; body None => ';'
        super().__init__(name=name, ret=ret, params=list(params), body=body, mods=list(mods), kind=kind,
                         type_params=type_params)

class Unit(Node):
    def __init__(self, path, pkg, imports, kind, name, members, extends=None, implements=(), annots=(), mods=("public",)):
        super().__init__(path=path, pkg=pkg, imports=list(imports), kind=kind, name=name, members=list(members),
                         extends=extends, implements=list(implements), annots=list(annots), mods=list(mods))

# statements / expressions
class S(Node): pass
class E(Node): pass
def Local(type, name, init=None, final=False): return S(k="local", type=type, name=name, init=init, final=final)
def ExprS(e): return S(k="expr", e=e)
def If(cond, then, els=None): return S(k="if", cond=cond, then=then, els=els)
def While(cond, body): return S(k="while", cond=cond, body=body)
def ForEach(type, name, it, body): return S(k="foreach", type=type, name=name, it=it, body=body)
def Return(e=None): return S(k="return", e=e)
def Switch(e, cases): return S(k="switch", e=e, cases=cases)          # cases: [(label tokens or None, [stmts])]
def Try(body, catches, fin=None): return S(k="try", body=body, catches=catches, fin=fin)   # catches [(Type, name, stmts)]
def Name(x): return E(k="name", x=x)
def Lit(x): return E(k="lit", x=x)
def This(): return E(k="this")
def FieldAcc(e, name): return E(k="field", e=e, name=name)
def Call(target, name, args=()): return E(k="call", target=target, name=name, args=list(args))
def New(type, args=(), body=None): return E(k="new", type=type, args=list(args), body=body)
def Lambda(params, body, types=None): return E(k="lambda", params=list(params), body=body, types=types)     # body: expression; types: explicit parameter types
def Assign(l, r): return E(k="assign", l=l, r=r)
def Bin(op, l, r): return E(k="bin", op=op, l=l, r=r)
def MRef(e, name): return E(k="mref", e=e, name=name)
def Paren(e): return E(k="paren", e=e)

def has_null_lit(n):
    """the null literal occurs somewhere under this node"""
    if isinstance(n, E) and n.k == "lit" and n.x == "null": return True
    if isinstance(n, Node): return any(has_null_lit(v) for v in vars(n).values())
    if isinstance(n, (list, tuple)): return any(has_null_lit(v) for v in n)
    return False

# ------------------------------------------------------------------ tokens
class Tok:
    __slots__ = ("text", "glue", "line", "col", "nl_after", "kind")
    def __init__(self, text, glue=False, kind=""):
        self.text = text; self.glue = glue; self.line = 0; self.col = 0; self.nl_after = False; self.kind = kind

class Renderer:
    def __init__(self, rng, layout="std", comments=0.0, nonascii=False):
        self.toks = []
        self.rng = rng
        self.layout = layout          # std | oneline | sparse | random
        self.comments = comments
        self.nonascii = nonascii
        self.indent = 0
        self.breaks = {}              # token index -> indent level for a standard line break BEFORE it

    def t(self, text, glue=False, kind=""):
        self.toks.append(Tok(text, glue, kind))
        return len(self.toks) - 1

    def brk(self):
        self.breaks[len(self.toks)] = self.indent

    # ---- emit AST
    def type(self, ty):
        ty.first = len(self.toks)
        parts = ty.base.split(".")
        for i, p in enumerate(parts):
            if i: self.t(".", True)
            self.t(p, i > 0)
        if ty.diamond:
            self.t("<", True); self.t(">", True)
        if ty.args:
            self.t("<", True)
            for i, a in enumerate(ty.args):
                if i: self.t(",", True)
                self.type(a)
                if i == 0 and False: pass
            self.t(">", True)
        for _ in range(ty.dims):
            self.t("[", True); self.t("]", True)
        ty.last = len(self.toks) - 1

    def raw(self, tokens):
        for i, x in enumerate(tokens):
            self.t(x, glue=(i > 0 and (x in (".", ",", ")", "(") or tokens[i-1] in (".", "("))))

    def annotation(self, a):
        a.first = len(self.toks)
        self.t("@"); self.t(a.name, True)
        if a.value is not None:
            self.t("(", True); self.raw_glued(a.value); self.t(")", True)
        elif a.pairs is not None:
            self.t("(", True)
            for i, (k, v) in enumerate(a.pairs):
                if i: self.t(",", True)
                self.t(k, i == 0); self.t("="); self.raw_glued(v, first_glue=False)
            self.t(")", True)
        a.last = len(self.toks) - 1

    def raw_glued(self, tokens, first_glue=True):
        for i, x in enumerate(tokens):
            self.t(x, glue=(first_glue if i == 0 else x in (".", ",", ")", "(", "}") or tokens[i-1] in (".", "(", "{")))

    def mods(self, mods):
        for m in mods:
            if isinstance(m, Annotation):
                self.annotation(m)
                if self.layout != "oneline" and self.rng.random() < 0.7: self.brk()
            else:
                self.t(m)

    def unit(self, u):
        if u.pkg:
            self.t("package"); self.raw(u.pkg.split(".") if False else self._dotted(u.pkg)); self.t(";", True); self.brk()
        for imp in u.imports:
            imp.first = len(self.toks)
            self.t("import")
            if imp.static: self.t("static")
            self.raw(self._dotted(imp.qname))
            if imp.star:
                self.t(".", True); self.t("*", True)
            self.t(";", True)
            imp.last = len(self.toks) - 1
            self.brk()
        for a in u.annots:
            self.annotation(a); self.brk()
        for m in u.mods:
            self.t(m)
        self.t("class" if u.kind == "class" else "interface")
        u.name_tok = self.t(u.name)
        if u.extends:
            self.t("extends")
            if u.kind == "class":
                self.type(u.extends)
            else:
                for i, e in enumerate(u.extends):
                    if i: self.t(",", True)
                    self.type(e)
        if u.implements:
            self.t("implements")
            for i, e in enumerate(u.implements):
                if i: self.t(",", True)
                self.type(e)
        self.t("{"); self.indent += 1
        for m in u.members:
            self.brk()
            if isinstance(m, Field): self.field(m)
            else: self.method(m, u)
        self.indent -= 1; self.brk(); self.t("}")

    def _dotted(self, q):
        out = []
        for i, p in enumerate(q.split(".")):
            if i: out.append(".")
            out.append(p)
        return out

    def field(self, f):
        f.decl_first = len(self.toks)
        self.mods(f.mods)
        f.first = len(self.toks)            # fieldDeclaration starts at the type
        self.type(f.type)
        for i, n in enumerate(f.names):
            if i: self.t(",", True)
            self.t(n)
            if n in f.inits:
                self.t("="); self.expr(f.inits[n])
        self.t(";", True)
        f.last = len(self.toks) - 1

    def method(self, m, u):
        m.decl_first = len(self.toks)       # classBodyDeclaration / interfaceBodyDeclaration start
        self.mods(m.mods)
        m.first = len(self.toks)            # methodDeclaration / constructorDeclaration start
        if m.type_params:
            self.t("<"); self.raw_glued(m.type_params); self.t(">", True)
            m.first_after_tp = len(self.toks)
        if m.kind != "ctor":
            if m.ret is None: m.ret_first = self.t("void")
            else:
                self.type(m.ret); m.ret_first = m.ret.first
        m.name_tok = self.t(m.name)
        self.t("(", True)
        for i, prm in enumerate(m.params):
            pt, pn = prm[0], prm[1]
            if i: self.t(",", True)
            for a in (prm[2] if len(prm) > 2 else []):
                self.annotation(a)
            self.type(pt); self.t(pn)
            for _ in range(prm[3] if len(prm) > 3 else 0):     # C-style array parameter: `String argv[]`
                self.t("[", True); self.t("]", True)
        m.rparen = self.t(")", True)
        if m.body is None:
            self.t(";", True)
        else:
            self.block(m.body)
        m.last = len(self.toks) - 1

    def block(self, stmts):
        self.t("{"); self.indent += 1
        for s in stmts:
            self.brk(); self.stmt(s)
        self.indent -= 1
        if stmts: self.brk()
        self.t("}")

    def stmt(self, s):
        s.first = len(self.toks)
        k = s.k
        if k == "local":
            if s.final: self.t("final")
            self.type(s.type); self.t(s.name)
            if s.init is not None:
                self.t("="); self.expr(s.init)
            self.t(";", True)
        elif k == "expr":
            self.expr(s.e); self.t(";", True)
        elif k == "if":
            self.t("if"); s.lpar = self.t("("); self.expr(s.cond, glue=True); s.rpar = self.t(")", True)
            self.block(s.then)
            if s.els is not None:
                self.t("else"); self.block(s.els)
        elif k == "while":
            self.t("while"); self.t("("); self.expr(s.cond, glue=True); self.t(")", True); self.block(s.body)
        elif k == "foreach":
            self.t("for"); self.t("("); self.type(s.type); self.t(s.name); self.t(":"); self.expr(s.it); self.t(")", True)
            self.block(s.body)
        elif k == "return":
            self.t("return")
            if s.e is not None: self.expr(s.e)
            self.t(";", True)
        elif k == "switch":
            self.t("switch"); self.t("("); self.expr(s.e, glue=True); self.t(")", True); self.t("{"); self.indent += 1
            for label, body in s.cases:
                self.brk()
                if label is None:
                    self.t("default"); self.t(":", True)
                else:
                    self.t("case"); self.raw_glued(label, first_glue=False); self.t(":", True)
                self.indent += 1
                for b in body:
                    self.brk(); self.stmt(b)
                self.indent -= 1
            self.indent -= 1; self.brk(); self.t("}")
        elif k == "try":
            self.t("try"); self.block(s.body)
            for (ty, nm, body) in s.catches:
                self.t("catch"); self.t("("); self.type(ty); self.t(nm); self.t(")", True); self.block(body)
            if s.fin is not None:
                self.t("finally"); self.block(s.fin)
        s.last = len(self.toks) - 1

    def expr(self, e, glue=False):
        start = len(self.toks)
        k = e.k
        if k == "name": self.t(e.x, glue)
        elif k == "lit": self.t(e.x, glue, kind="lit")
        elif k == "this": self.t("this", glue)
        elif k == "field":
            self.expr(e.e, glue); self.t(".", True); self.t(e.name, True)
        elif k == "call":
            if e.target is not None:
                self.expr(e.target, glue); self.t(".", True)
                e.name_tok = self.t(e.name, True)
            else:
                e.name_tok = self.t(e.name, glue)
            self.t("(", True)
            for i, a in enumerate(e.args):
                if i: self.t(",", True)
                self.expr(a, glue=(i == 0))
            e.rparen = self.t(")", True)
        elif k == "new":
            e.new_tok = self.t("new", glue); self.type(e.type); self.t("(", True)
            for i, a in enumerate(e.args):
                if i: self.t(",", True)
                self.expr(a, glue=(i == 0))
            self.t(")", True)
            if e.body is not None:
                self.t("{"); self.indent += 1
                for m in e.body:
                    self.brk(); self.method(m, None)
                self.indent -= 1; self.brk(); self.t("}")
        elif k == "lambda":
            if e.types:
                self.t("(", glue)
                for i, (ty, p) in enumerate(zip(e.types, e.params)):
                    if i: self.t(",", True)
                    self.type(ty); self.t(p)
                self.t(")", True)
            elif len(e.params) == 1: self.t(e.params[0], glue)
            else:
                self.t("(", glue)
                for i, p in enumerate(e.params):
                    if i: self.t(",", True)
                    self.t(p, i == 0)
                self.t(")", True)
            self.t("->"); self.expr(e.body)
        elif k == "assign":
            self.expr(e.l, glue); self.t("="); self.expr(e.r)
        elif k == "bin":
            self.expr(e.l, glue); self.t(e.op)
            if getattr(e, "brk", False): self.brk()
            self.expr(e.r)
        elif k == "mref":
            self.expr(e.e, glue); self.t("::", True); self.t(e.name, True)
        elif k == "paren":
            self.t("(", glue); self.expr(e.e, glue=True); self.t(")", True)
        e.first = start; e.last = len(self.toks) - 1

    # ---- layout
    def finish(self):
        rng = self.rng
        lines = []
        cur = ""
        line = 1
        pending_nl = None
        for i, tok in enumerate(self.toks):
            sep = "" if (tok.glue or i == 0) else " "
            nl = None
            if self.layout in ("std", "sparse", "random") and i in self.breaks:
                nl = self.breaks[i]
            if self.layout == "sparse" and i > 0 and not tok.glue and rng.random() < 0.25:
                nl = rng.randint(0, 6)
            if self.layout == "random" and i > 0:
                r = rng.random()
                if r < 0.12: nl = rng.randint(0, 8)
                elif r < 0.3 and nl is None: sep = sep + " " * rng.randint(1, 3)
            if i > 0 and self.comments and rng.random() < self.comments:
                c = rng.choice(["/* c */", "/* x.y() */", "/* new Foo() */"] +
                               (["/* café 中文 */", "/* ü */", "/* caf\udce9 cr\udce8me */", "/*\udcfc*/"] if self.nonascii else []))   # the last two: ISO-8859-1 bytes, not UTF-8 (kept byte for byte; one column each)
                cur += (sep or " ") + c
                sep = " " if not tok.glue else ""
                if tok.glue and rng.random() < 0.5: sep = ""
            if nl is not None and i > 0:
                lines.append(cur); cur = " " * (nl * 2 if self.layout == "std" else nl); line += 1
                sep = ""
            cur += sep
            tok.line = line
            tok.col = len(cur)             # rune column (Python str)
            cur += tok.text
        lines.append(cur)
        self.text = "\n".join(lines) + "\n"
        self.lines = lines
        return self.text

def render(unit, rng, layout="std", comments=0.0, nonascii=False):
    r = Renderer(rng, layout, comments, nonascii)
    r.unit(unit)
    r.finish()
    unit.toks = r.toks
    unit.text = r.text
    unit.lines = r.lines
    # Windows line ends in some units: lines, columns and every fact stay what they are (the CR is the last
    # character of its line); a reader that counts a CR as a line end of its own is seen
    if rng.random() < CRLF_RATE:
        unit.text = r.text.replace("\n", "\r\n")
        unit.crlf = True
    return unit.text

CRLF_RATE = 0.15

def tok_text(unit, a, b):
    return "".join(t.text for t in unit.toks[a:b + 1])

# ------------------------------------------------------------------ walking helpers
def walk_exprs(e, fn):
    """pre-order over sub-expressions, left to right (ANTLR enter order)"""
    fn(e)
    k = e.k
    if k in ("field", "mref", "paren"): walk_exprs(e.e, fn)
    elif k == "call":
        if e.target is not None: walk_exprs(e.target, fn)
        for a in e.args: walk_exprs(a, fn)
    elif k == "new":
        for a in e.args: walk_exprs(a, fn)
    elif k == "lambda": walk_exprs(e.body, fn)
    elif k == "assign": walk_exprs(e.l, fn); walk_exprs(e.r, fn)
    elif k == "bin": walk_exprs(e.l, fn); walk_exprs(e.r, fn)

def walk_stmts(stmts, fs, fe):
    for s in stmts:
        fs(s)
        k = s.k
        if k == "local":
            if s.init is not None: walk_exprs(s.init, fe)
        elif k == "expr": walk_exprs(s.e, fe)
        elif k == "if":
            walk_exprs(s.cond, fe); walk_stmts(s.then, fs, fe)
            if s.els is not None: walk_stmts(s.els, fs, fe)
        elif k == "while": walk_exprs(s.cond, fe); walk_stmts(s.body, fs, fe)
        elif k == "foreach": walk_exprs(s.it, fe); walk_stmts(s.body, fs, fe)
        elif k == "return":
            if s.e is not None: walk_exprs(s.e, fe)
        elif k == "switch":
            walk_exprs(s.e, fe)
            for _, body in s.cases: walk_stmts(body, fs, fe)
        elif k == "try":
            walk_stmts(s.body, fs, fe)
            for (_, _, body) in s.catches: walk_stmts(body, fs, fe)
            if s.fin is not None: walk_stmts(s.fin, fs, fe)

# ------------------------------------------------------------------ facts for the listener models
def P(unit, a, b):
    ta, tb = unit.toks[a], unit.toks[b]
    return [str(ta.line), str(ta.col), str(tb.line), str(tb.col)]

def annot_fact(a):
    """what common_listener.BuildAnnotation records"""
    if a.pairs is not None:
        return [a.name, [[k, "".join(v)] for k, v in a.pairs]]
    if a.value is not None:
        v = "".join(a.value)
        return [a.name, [[v, v]]]
    return [a.name, []]

def body_events(unit, stmts):
    ev = []
    def expr(e, parent_child0):
        k = e.k
        if k == "call":
            if e.target is not None:
                expr(e.target, tok_text(unit, e.target.first, e.target.last))
                target_text = tok_text(unit, e.target.first, e.target.last)
                tic = (e.target.k == "call" and e.target.target is None)
                inner = e.target.name if tic else ""
            else:
                target_text = tok_text(unit, e.name_tok, e.rparen)
                tic, inner = False, ""
            whole = tok_text(unit, e.name_tok, e.rparen)
            nt, rp = unit.toks[e.name_tok], unit.toks[e.rparen]
            ev.append(["call", e.name, target_text, "1" if tic else "0", inner, whole,
                       [tok_text(unit, a.first, a.last) for a in e.args], "1" if e.args else "0",
                       [str(nt.line), str(nt.col), str(rp.line), str(rp.col)]])
            first = tok_text(unit, e.args[0].first, e.args[0].last) if e.args else ""
            for a in e.args:
                expr(a, first)
        elif k == "new":
            created = e.type.base.split(".")
            ev.append(["creator", parent_child0, created, "1" if e.body is not None else "0", e.type.text().replace("[]", ""),
                       P(unit, e.type.first, e.last)])
            first = tok_text(unit, e.args[0].first, e.args[0].last) if e.args else ""
            for a in e.args:
                expr(a, first)
        elif k == "mref":
            ev.append(["mref", tok_text(unit, e.e.first, e.e.last), e.name, "1", P(unit, e.first, e.last)])
            expr(e.e, tok_text(unit, e.e.first, e.e.last))
        elif k == "field":
            expr(e.e, tok_text(unit, e.e.first, e.e.last))
        elif k == "paren":
            expr(e.e, "(")
        elif k == "lambda":
            # explicitly typed lambda parameters are formal parameters of the grammar
            for ty, p in zip(e.types or [], e.params):
                ev.append(["formal", ty.text(), p])
            expr(e.body, tok_text(unit, e.body.first, e.body.last))
        elif k == "assign":
            l = tok_text(unit, e.l.first, e.l.last)
            expr(e.l, l); expr(e.r, l)
        elif k == "bin":
            l = tok_text(unit, e.l.first, e.l.last)
            expr(e.l, l); expr(e.r, l)
    def whole(e): return tok_text(unit, e.first, e.last)
    def stmts_(ss):
        for s in ss:
            k = s.k
            if k == "local":
                ev.append(["local", s.type.text(), s.name])
                if s.init is not None: expr(s.init, whole(s.init))
            elif k == "expr": expr(s.e, whole(s.e))
            elif k == "if":
                expr(s.cond, "("); stmts_(s.then)
                if s.els is not None: stmts_(s.els)
            elif k == "while": expr(s.cond, "("); stmts_(s.body)
            elif k == "foreach": expr(s.it, s.type.text() if False else unit.toks[s.type.first].text); stmts_(s.body)
            elif k == "return":
                if s.e is not None:
                    ev.append(["return", whole(s.e), "1" if has_null_lit(s.e) else "0"])
                    expr(s.e, "return")
            elif k == "switch":
                expr(s.e, "(")
                for _, body in s.cases: stmts_(body)
            elif k == "try":
                stmts_(s.body)
                for (_, _, body) in s.catches: stmts_(body)
                if s.fin is not None: stmts_(s.fin)
    stmts_(stmts)
    return ev

def member_fact(unit, m):
    if isinstance(m, Field):
        ev = []
        # initialiser expressions are walked after the declarator ids
        for n in m.names:
            if n in m.inits:
                e = m.inits[n]
                ev += body_events_expr(unit, e)
        annots = [x.name for x in m.mods if isinstance(x, Annotation)]
        return ["field", "", m.type.text(), "" if m.type.prim else m.type.first_ident(), m.names, [], "0",
                [], "0", annots, [x for x in m.mods if not isinstance(x, Annotation)],
                ["0", "0", "0", "0"], P(unit, m.first, m.last), ev]
    kind = {"method": "method", "ctor": "ctor", "imethod": "imethod"}[m.kind]
    first = m.mods[0] if m.mods else None
    if m.type_params:
        first_annot = []
    elif m.kind == "method":
        first_annot = [annot_fact(x) for x in m.mods if isinstance(x, Annotation)]
    else:
        first_annot = [annot_fact(first)] if isinstance(first, Annotation) else []
    annots = [x.name for x in m.mods if isinstance(x, Annotation)]
    mods = [x for x in m.mods if not isinstance(x, Annotation)]
    # EnterFormalParameter keys on the text of the whole declarator id (`argv[]`), the parameter list on its identifier
    ev = [["formal", prm[0].text(), prm[1] + "[]" * (prm[3] if len(prm) > 3 else 0)] for prm in m.params]
    if m.body is not None:
        ev += body_events(unit, m.body)
    it = unit.toks[m.name_tok]
    return [kind, m.name, "" if m.kind == "ctor" else (m.ret.text() if m.ret is not None else "void"), "", [],
            [[prm[0].text(), prm[1]] for prm in m.params], "1" if m.params else "0",
            first_annot, "1" if (m.mods and not m.type_params) else "0", annots, mods,
            [str(it.line), str(it.col), "0", "0"], P(unit, m.first, m.last), ev]

def body_events_expr(unit, e):
    s = S(k="expr", e=e)
    return body_events(unit, [s])

def unit_fact(unit):
    return [unit.path, unit.pkg or "", "1" if unit.pkg else "0", [i.qname for i in unit.imports],
            unit.kind, unit.name,
            ([unit.extends.text()] if unit.extends is not None else []) if unit.kind == "class"
            else [e.text() for e in (unit.extends or [])],
            [t.text() for t in unit.implements], [annot_fact(a) for a in unit.annots],
            [member_fact(unit, m) for m in unit.members]]

class Import(Node):
    def __init__(self, qname, static=False, star=False):
        super().__init__(qname=qname, static=static, star=star)

# ------------------------------------------------------------------ random conventional units
TYPE_POOL = ["Foo", "Bar", "UserService", "Service", "Repo", "Helper", "Order", "Item", "Client"]
PKG_POOL = ["com.acme", "com.acme.core", "org.demo", "com.acme.util"]
METHOD_NAMES = ["run", "save", "find", "getName", "setName", "handle", "process", "build", "load", "of",
                "get", "set", "gr\u00f6\u00dfe", "\u53d6\u5f97", "na\u00efveCalc", "access$000"]   # legal Java identifiers: multi-byte letters, '$'; bare get / set
VAR_NAMES = ["x", "y", "svc", "repo", "item", "order", "client", "helper", "tmp", "v"]

def rand_type(rng, project_types, allow_prim=True, allow_generic=True):
    r = rng.random()
    if allow_prim and r < 0.2:
        return T(rng.choice(["int", "long", "boolean", "double"]), dims=1 if rng.random() < 0.1 else 0)
    if allow_generic and r < 0.35:
        return T(rng.choice(["List", "Set", "Optional"]), T(rng.choice(project_types + ["String"])))
    if allow_generic and r < 0.4:
        return T("Map", T("String"), T(rng.choice(project_types)))
    base = rng.choice(project_types + ["String", "Object"])
    return T(base, dims=1 if rng.random() < 0.08 else 0)

def rand_expr(rng, env, depth=0):
    """env: dict with 'vars' (names in scope), 'fields', 'types', 'methods' (own class method names)"""
    r = rng.random()
    names = env["vars"] + env["fields"]
    if depth > 2 or r < 0.2:
        if names and rng.random() < 0.6: return Name(rng.choice(names))
        return Lit(rng.choice(["1", "42", '"s"', '"a.b()"', "true", "null", "'c'"]))
    if r < 0.35:
        return Call(None, rng.choice(env["methods"] + METHOD_NAMES), [rand_expr(rng, env, depth + 1) for _ in range(rng.randint(0, 2))])
    if r < 0.6 and names:
        return Call(Name(rng.choice(names)), rng.choice(METHOD_NAMES), [rand_expr(rng, env, depth + 1) for _ in range(rng.randint(0, 2))])
    if r < 0.66:
        return Call(This(), rng.choice(env["methods"] + METHOD_NAMES), [rand_expr(rng, env, depth + 1) for _ in range(rng.randint(0, 1))])
    if r < 0.72 and env["fields"]:
        return Call(FieldAcc(This(), rng.choice(env["fields"])), rng.choice(METHOD_NAMES), [])
    if r < 0.8:
        return Call(Name(rng.choice(env["types"])), rng.choice(["of", "create", "valueOf"]), [rand_expr(rng, env, depth + 1) for _ in range(rng.randint(0, 1))])
    if r < 0.88:
        ty = T(rng.choice(env["types"]))
        g = rng.random()
        if g < 0.12: ty.diamond = True                                   # new Box<>()
        elif g < 0.24: ty.args = [T(rng.choice(env["types"] + ["String"]))]      # new Box<Repo>()
        elif g < 0.28: ty.args = [T("String"), T(rng.choice(env["types"]))]     # new Box<String, Repo>()
        return New(ty, [rand_expr(rng, env, depth + 1) for _ in range(rng.randint(0, 2))])
    if r < 0.93:
        inner = rand_expr(rng, env, depth + 1)
        if inner.k in ("call", "new", "name"):
            return Call(inner, rng.choice(METHOD_NAMES), [])
        return Call(None, "wrap", [inner])
    if r < 0.96:
        return Call(None, "apply", [Lambda(["q"], Call(Name("q"), rng.choice(METHOD_NAMES), []))])
    return Bin(rng.choice(["+", "==", "&&"]), rand_expr(rng, env, depth + 1), rand_expr(rng, env, depth + 1))

def rand_stmts(rng, env, n, depth=0):
    out = []
    for _ in range(n):
        r = rng.random()
        if r < 0.25:
            name = rng.choice(VAR_NAMES)
            ty = rand_type(rng, env["types"])
            init = rand_expr(rng, env, 1) if rng.random() < 0.7 else None
            out.append(Local(ty, name, init, final=rng.random() < 0.15))
            if name not in env["vars"]: env["vars"] = env["vars"] + [name]
        elif r < 0.29 and (env["vars"] or env["fields"]):
            # a field, parameter or local re-assigned with an object of another class, then used as a receiver
            n = rng.choice(env["vars"] + env["fields"])
            out.append(ExprS(Assign(Name(n), New(T(rng.choice(env["types"])), []))))
            out.append(ExprS(Call(Name(n), rng.choice(METHOD_NAMES), [])))
        elif r < 0.65:
            e = rand_expr(rng, env)
            if e.k not in ("call", "new", "assign"):
                e = Assign(Name(rng.choice(env["vars"] + env["fields"] + ["z"])), e)
            out.append(ExprS(e))
        elif r < 0.75 and depth < 2:
            out.append(If(rand_expr(rng, env, 1), rand_stmts(rng, env, rng.randint(0, 2), depth + 1),
                          rand_stmts(rng, env, rng.randint(0, 2), depth + 1) if rng.random() < 0.4 else None))
        elif r < 0.8 and depth < 2:
            out.append(While(rand_expr(rng, env, 2), rand_stmts(rng, env, rng.randint(0, 2), depth + 1)))
        elif r < 0.85 and depth < 2:
            out.append(ForEach(T(rng.choice(env["types"])), "it", Name(rng.choice(env["vars"] + ["items"])), rand_stmts(rng, env, rng.randint(0, 2), depth + 1)))
        elif r < 0.9 and depth < 2:
            out.append(Try(rand_stmts(rng, env, rng.randint(1, 2), depth + 1), [(T("Exception"), "e", rand_stmts(rng, env, rng.randint(0, 1), depth + 1))]))
        elif r < 0.94 and depth < 2:
            out.append(Switch(Name(rng.choice(env["vars"] + ["k"])), [(["1"], rand_stmts(rng, env, 1, depth + 1)), (None, rand_stmts(rng, env, 1, depth + 1))]))
        else:
            out.append(Return(rand_expr(rng, env, 1) if rng.random() < 0.7 else None))
    return out

def rand_annotation(rng, pool=("Override", "Deprecated", "Test", "Ignore", "Autowired", "Transactional")):
    r = rng.random()
    name = rng.choice(list(pool))
    if r < 0.7: return Annotation(name)
    if r < 0.85: return Annotation(rng.choice(["SuppressWarnings", "Qualifier", "RequestMapping"]), value=[rng.choice(['"unchecked"', '"/api"', "Foo", "X"])])
    return Annotation(rng.choice(["RequestMapping", "Column"]), pairs=[("value", ['"/x"']), ("name", ['"n"'])][:rng.randint(1, 2)])

def colliding_unit(rng, pkg, name, path_dir="", same_name=True, annotate=None):
    """A class of some length in which the POSITIONS of two functions, written in decimal one after the other, read the
    same: same_name=True -> two overloads `add` whose (line, column) pairs concatenate to one string (4,18 and 41,8:
    "418"); same_name=False -> `test12` on line L and `test1` on line "2L" in the same column (name + line reads
    "test127" for both).  A key built from names and positions without separators confuses exactly these.
    Returns None when no filler count hits the coincidence (then the caller generates an ordinary unit)."""
    import random as _r
    def build(k, ind_mods, extra=0):
        fill = [Field(T("int"), ["pad%d" % i], ["private"]) if i % 3 == 2 else
                Method("fill%d" % i, None, [], [ExprS(Call(Name("svc"), "run", []))] if i % 3 == 1 else [], ["public"]) for i in range(k)]
        ann = [annotate] if annotate else []
        if same_name:
            m1 = Method("add", T("int"), [(T("int"), "a")], [ExprS(Call(Name("svc"), "run", []))] * extra + [Return(Lit("1"))], ann + ind_mods)
            m2 = Method("add", T("int"), [(T("int"), "a"), (T("int"), "b")], [ExprS(Call(Name("svc"), "save", [])), Return(Lit("2"))], ann)
        else:
            m1 = Method("test12", None, [], [ExprS(Call(Name("Thread"), "sleep", [Lit("10")])), ExprS(Call(None, "assertTrue", [Lit("true")]))], ann + ["public"])
            m2 = Method("test1", None, [], [ExprS(Call(None, "assertTrue", [Lit("true")])), ExprS(Call(Name("svc"), "run", []))], ann + ["public"])
        members = [Field(T("Svc"), ["svc"], ["private"]), m1] + fill + [m2]
        path = (path_dir + "/" if path_dir else "") + (pkg.replace(".", "/") + "/" if pkg else "") + name + ".java"
        u = Unit(path, pkg, [], "class", name, members)
        render(u, _r.Random(7), "std")
        u.text = u.text.replace("\r\n", "\n"); u.crlf = False
        return u, m1, m2
    for ind_mods, extra in [(m, e) for e in (0, 1, 2) for m in (["protected"], ["public", "static"], ["private", "final"])]:
        for k in range(0, 70):
            u, m1, m2 = build(k, ind_mods, extra)
            t1, t2 = u.toks[m1.name_tok], u.toks[m2.name_tok]
            if same_name:
                if (t1.line, t1.col) != (t2.line, t2.col) and "%d%d" % (t1.line, t1.col) == "%d%d" % (t2.line, t2.col):
                    return u
            else:
                if t1.col == t2.col and "test12%d" % t1.line == "test1%d" % t2.line:
                    return u
    return None

def rand_unit(rng, idx, project, layout=None, bodies=True, path_dir="src/main/java"):
    """project: list of (pkg, name) of all types of the generated project"""
    pkg, name = project[idx]
    others = [p for i, p in enumerate(project) if i != idx]
    type_names = [n for _, n in project] or TYPE_POOL
    imports = []
    for (p, n) in others:
        if p != pkg and rng.random() < 0.7:
            imports.append(Import(p + "." + n))
    if rng.random() < 0.5: imports.append(Import("java.util.List"))
    if rng.random() < 0.3: imports.append(Import("java.util", star=True))
    if rng.random() < 0.2: imports.append(Import("org.junit.Assert.assertEquals", static=True))
    rng.shuffle(imports)
    kind = "interface" if rng.random() < 0.2 else "class"
    members = []
    env = {"vars": [], "fields": [], "types": type_names, "methods": []}
    if kind == "class":
        for _ in range(rng.randint(0, 4)):
            ty = rand_type(rng, type_names)
            fn = rng.choice(VAR_NAMES) + str(rng.randint(0, 9))
            mods = [rng.choice(["private", "public", "protected"])] + (["final"] if rng.random() < 0.3 else [])
            if rng.random() < 0.2: mods = [Annotation("Autowired")] + mods
            inits = {}
            if rng.random() < 0.2: inits[fn] = New(T(rng.choice(type_names)), [])
            members.append(Field(ty, [fn], mods, inits))
            env["fields"].append(fn)
    nmeth = rng.randint(0, 6)
    mnames = [rng.choice(METHOD_NAMES) + (str(i) if rng.random() < 0.7 else "") for i in range(nmeth)]
    env["methods"] = list(mnames)
    for i in range(nmeth):
        params = [(rand_type(rng, type_names), rng.choice(VAR_NAMES) + ("" if rng.random() < 0.5 else str(j))) for j in range(rng.randint(0, 3))]
        seen = set(); params = [(t, n) for t, n in params if not (n in seen or seen.add(n))]
        ret = None if rng.random() < 0.4 else rand_type(rng, type_names)
        menv = dict(env); menv["vars"] = [n for _, n in params]
        if kind == "class":
            mods = []
            if rng.random() < 0.4: mods.append(rand_annotation(rng))
            if rng.random() < 0.15: mods.append(rand_annotation(rng))
            mods += [rng.choice(["public", "private", "protected"])] if rng.random() < 0.85 else []
            if rng.random() < 0.2: mods.append("static")
            if rng.random() < 0.1: mods.append("final")
            if rng.random() < 0.1: rng.shuffle(mods)
            body = rand_stmts(rng, menv, rng.randint(0, 6) if bodies else 0)
            if rng.random() < 0.12:
                # a C-style array parameter (`String argv[]`, `long grid[][]`): its declared name is the identifier
                params = params + [(T(rng.choice(["String", "long", "byte"])), rng.choice(["argv", "grid", "buf"]), [], rng.randint(1, 2))]
            members.append(Method(mnames[i], ret, params, body, mods))
        else:
            mods = ["public"] if rng.random() < 0.3 else []
            if rng.random() < 0.2: mods = [rand_annotation(rng)] + mods
            members.append(Method(mnames[i], ret, params, None, mods, kind="imethod"))
    if kind == "class" and rng.random() < 0.5:
        params = [(rand_type(rng, type_names), rng.choice(VAR_NAMES)) for j in range(rng.randint(0, 2))]
        seen = set(); params = [(t, n) for t, n in params if not (n in seen or seen.add(n))]
        menv = dict(env); menv["vars"] = [n for _, n in params]
        members.insert(rng.randint(0, len(members)), Method(name, None, params, rand_stmts(rng, menv, rng.randint(0, 3) if bodies else 0),
                                                            ["public"], kind="ctor"))
    if kind == "class" and env["fields"] and bodies and rng.random() < 0.15:
        # a method whose only statement passes an explicitly typed lambda whose parameter is named like a field of
        # ANOTHER type, directly followed by a method that calls through that field
        fn = rng.choice(env["fields"])
        lam = Lambda([fn], Call(Name(fn), rng.choice(METHOD_NAMES), []), types=[T(rng.choice(type_names + ["Audit"]))])
        first_params = [(T("int"), "n")] if rng.random() < 0.3 else []
        members.append(Method("visitAll", None, first_params, [ExprS(Call(None, "forEach", [lam]))], ["public"]))
        members.append(Method("flushAll", None, [], [ExprS(Call(Name(fn), rng.choice(METHOD_NAMES), []))], ["public"]))
    extends = None
    implements = []
    if kind == "class":
        if rng.random() < 0.3: extends = T(rng.choice(type_names + ["Base"]))
        for _ in range(rng.randint(0, 2) if rng.random() < 0.4 else 0):
            implements.append(T(rng.choice(type_names + ["Runnable", "Serializable"])))
    else:
        if rng.random() < 0.3: extends = [T(rng.choice(type_names + ["Base"]))]
    annots = [rand_annotation(rng, ("Component", "Service", "RestController", "Deprecated", "Repository"))
              for _ in range(rng.randint(0, 2) if rng.random() < 0.5 else 0)]
    path = path_dir + "/" + pkg.replace(".", "/") + "/" + name + ".java"
    u = Unit(path, pkg, imports, kind, name, members, extends, implements, annots)
    lay = layout or rng.choice(["std", "std", "std", "sparse", "random", "oneline"])
    render(u, rng, lay, comments=0.03 if rng.random() < 0.3 else 0.0)
    return u

def rand_project(rng, n=None):
    n = n or rng.randint(1, 5)
    names = rng.sample(TYPE_POOL, min(n, len(TYPE_POOL)))
    return [(rng.choice(PKG_POOL), nm) for nm in names]

# ------------------------------------------------------------------ expectations for C02
def expected_calls(unit, project):
    """per function member: invocations / creations in source order with the position of the callee
    identifier and, where the property's resolution clause applies, the expected (package, type)"""
    explicit = {i.qname.split(".")[-1]: ".".join(i.qname.split(".")[:-1]) for i in unit.imports if not i.static and not i.star}
    static_names = {i.qname.split(".")[-1] for i in unit.imports if i.static}
    proj = {}
    for p, n in project:
        proj.setdefault(n, p)
    def plain(ty):
        return ty is not None and not ty.prim and not ty.args and ty.dims == 0 and "." not in ty.base
    def resolve(ty):
        if not plain(ty): return None
        if ty.base in explicit: return (explicit[ty.base], ty.base)
        if ty.base in proj and proj[ty.base] == unit.pkg: return (unit.pkg, ty.base)
        return None
    fields = {}
    out = []
    for m in unit.members:
        if isinstance(m, Field):
            # only receivers declared at an earlier point of the class are covered
            for n in m.names: fields[n] = m.type
            continue
        scope = {}
        for prm in m.params: scope[prm[1]] = ("param", prm[0])
        calls = []
        def expr(e):
            k = e.k
            if k == "call":
                if e.target is not None: expr(e.target)
                nt = unit.toks[e.name_tok]
                exp = ["", ""]
                if e.target is None:
                    if e.name not in static_names:
                        exp = [unit.pkg, unit.name] if unit.kind == "class" else ["", ""]
                elif e.target.k == "name":
                    x = e.target.x
                    decl = scope.get(x) or (("field", fields[x]) if x in fields else None)
                    if decl is not None:
                        r = resolve(decl[1])
                        if r is not None: exp = [r[0], r[1]]
                elif e.target.k == "field" and e.target.e.k == "this" and e.target.name in fields:
                    # this.repo.save(): the receiver is the field, whatever a local of that name is
                    r = resolve(fields[e.target.name])
                    if r is not None: exp = [r[0], r[1], "1"]
                calls.append(["call", e.name, str(nt.line), str(nt.col), exp[0], exp[1]] + exp[2:])
                for a in e.args: expr(a)
            elif k == "new":
                calls.append(["new", e.type.base.split(".")[0], "0", "0", "", ""])
                for a in e.args: expr(a)
            elif k in ("field", "mref", "paren"): expr(e.e)
            elif k == "lambda":
                saved = dict(scope)
                for i, p in enumerate(e.params):
                    scope[p] = ("param", e.types[i] if e.types else None)      # an untyped parameter shadows too
                expr(e.body)
                scope.clear(); scope.update(saved)
            elif k in ("assign", "bin"): expr(e.l); expr(e.r)
        def stmts(ss):
            for s in ss:
                k = s.k
                if k == "local":
                    scope[s.name] = ("local", s.type)      # the scope of a local includes its own initialiser
                    if s.init is not None: expr(s.init)
                elif k == "expr": expr(s.e)
                elif k == "if":
                    expr(s.cond); stmts(s.then)
                    if s.els is not None: stmts(s.els)
                elif k == "while": expr(s.cond); stmts(s.body)
                elif k == "foreach":
                    expr(s.it); scope[s.name] = ("local", s.type); stmts(s.body)
                elif k == "return":
                    if s.e is not None: expr(s.e)
                elif k == "switch":
                    expr(s.e)
                    for _, b in s.cases: stmts(b)
                elif k == "try":
                    stmts(s.body)
                    for (ty, nm, b) in s.catches:
                        scope[nm] = ("local", ty); stmts(b)
                    if s.fin is not None: stmts(s.fin)
        if m.body is not None:
            stmts(m.body)
        it = unit.toks[m.name_tok]
        # methods and interface methods are recorded at the position of their name, constructors at the
        # start of the declaration
        line = unit.toks[m.first].line if m.kind == "ctor" else it.line
        out.append([m.name, str(line), str(it.col), calls, str(unit.toks[m.first].col)])
    return out
