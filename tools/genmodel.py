"""Generators for code models (lists of CodeDataStruct in wire form)."""

POS0 = ["0", "0", "0", "0"]

def mk_call(pkg, node, fn, typ="", params=(), pos=POS0):
    return [pkg, typ, node, fn, [list(p) for p in params], list(pos)]

def mk_func(name, calls=(), ret="void", params=(), override=False, annots=(), isctor=False,
            retnull=False, mods=(), pos=POS0):
    return [name, ret, [list(p) for p in params], list(calls), "1" if override else "0",
            [[a, [list(kv) for kv in kvs]] for a, kvs in annots],
            "1" if isctor else "0", "1" if retnull else "0", list(mods), list(pos)]

def mk_ds(node, pkg, funcs=(), typ="Class", path="", fields=(), extend="", impls=(), annots=(),
          calls=(), imports=()):
    return [node, typ, pkg, path, [[t, v, list(m)] for t, v, m in fields], extend, list(impls),
            list(funcs), [[a, [list(kv) for kv in kvs]] for a, kvs in annots], list(calls), list(imports)]

def full_name(d, f):
    return d[2] + "." + d[0] + "." + f[0]

def methods_of(model):
    return [full_name(d, f) for d in model for f in d[7]]

ODD_NAMES = ['q"x', 'a"', '"', 'say"hi"there',
             'newThread(()->svc.start', '((Supplier<String>)()->s.get']     # what the Java front end records for calls made on lambda expressions: an arrow without blanks

def random_graph_model(rng, quotes=False, max_classes=6, max_methods=25, dense=False):
    """a random multigraph of methods over a few classes: cycles, self-loops, parallel edges,
    unresolved callees, receiver-less calls, constructor calls, overloaded (same-name) methods"""
    ncls = rng.randint(1, max_classes)
    pkgs = ["p", "p.q", "com.x"][:rng.randint(1, 3)]
    if rng.random() < 0.3:
        pkgs.append("")          # classes of the default package: full names are ".Class.method"
    classes = []
    used = set()
    for i in range(ncls):
        pkg = rng.choice(pkgs)
        name = rng.choice(["A", "B", "C", "Svc", "Repo", "Ctl", "Main", "Util", "Outer$Inner", "Svc$1"]) + (str(i) if rng.random() < 0.7 else "")
        if quotes and rng.random() < 0.3:
            name = rng.choice(ODD_NAMES)
        if (pkg, name) in used:
            name += "_" + str(i)
        used.add((pkg, name))
        classes.append((pkg, name))
    total = rng.randint(1, max_methods)
    meths = []  # (ci, name)
    for j in range(total):
        ci = rng.randrange(ncls)
        nm = rng.choice(["f", "g", "h", "run", "get", "save", "m", "access$", "lambda$run$"]) + (str(j) if rng.random() < 0.8 else "")
        if quotes and rng.random() < 0.15:
            nm = rng.choice(ODD_NAMES)
        meths.append((ci, nm))
    maxdeg = 5 if not dense else 8
    funcs_by_class = {i: [] for i in range(ncls)}
    for (ci, nm) in meths:
        calls = []
        for _ in range(rng.randint(0, maxdeg) if rng.random() < 0.8 else 0):
            r = rng.random()
            if r < 0.70 and meths:
                tci, tnm = rng.choice(meths)
                calls.append(mk_call(classes[tci][0], classes[tci][1], tnm))
            elif r < 0.78:
                calls.append(mk_call(classes[ci][0], classes[ci][1], nm))          # self loop
            elif r < 0.86:
                calls.append(mk_call("ext.lib", "Ext", rng.choice(["x", "y"])))      # unresolved callee
            elif r < 0.92:
                calls.append(mk_call("", "", rng.choice(["local", "helper"])))       # no receiver type: skipped
            else:
                tci = rng.randrange(ncls)
                calls.append(mk_call(classes[tci][0], classes[tci][1], ""))          # constructor call
            if calls and rng.random() < 0.15:
                calls.append(list(calls[-1]))                                       # parallel edge
        # every call site gets a source position: line and columns; parallel edges and some neighbours share the LINE
        # (two calls written on one line: distinct call sites all the same)
        line = rng.randint(1, 400)
        for k, c in enumerate(calls):
            if k and rng.random() < 0.6: line += rng.randint(1, 30)
            col = rng.randint(2, 90)
            c[5] = [str(line), str(col), str(line), str(col + max(1, len(c[3])))]
        funcs_by_class[ci].append(mk_func(nm, calls))
    # the kind of the type is part of the model: interfaces with default / static methods have bodies and call sites like
    # any class, and so do the anonymous classes the front end records ("CreatorClass")
    kinds = [rng.choice(["Class", "Class", "Class", "Interface", "Interface", "CreatorClass"]) if rng.random() < 0.35 else "Class"
             for _ in range(ncls)]
    return [mk_ds(classes[i][1], classes[i][0], funcs_by_class[i], typ=kinds[i]) for i in range(ncls)]

def pick_target(rng, model):
    ms = methods_of(model)
    r = rng.random()
    if ms and r < 0.85:
        return rng.choice(ms)
    if r < 0.93:
        return "no.such.Method.x"
    return "ext.lib.Ext.x"
