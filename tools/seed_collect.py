#!/usr/bin/env python3
"""seed_collect.py: assembles /verif/seeded/<id>/<k>/ (patch.diff, demo/, meta.json) from the sub-agents'
deliveries in /tmp/seed/outNN and my own verification records in /tmp/seed/verify, and prints the table
used in DESIGN.md §13.8. A change is kept only if I confirmed it: applies, builds, suite passes."""
import json, os, shutil, glob, sys

ROOT = os.path.dirname(os.path.dirname(os.path.abspath(__file__)))
SRC = os.environ.get("SEED_DIR", "/tmp/seed"); VER = os.path.join(SRC, "verify")
OFFSET = int(os.environ.get("SEED_OFFSET", "0"))      # round 2 continues the numbering: 3, 4

def load(p):
    try: return json.load(open(p))
    except Exception: return None

rows = []
for out in sorted(glob.glob(os.path.join(SRC, "out*"))):
    pid = "C" + os.path.basename(out)[3:]
    for k in ("1", "2"):
        meta = load(os.path.join(out, "meta%s.json" % k)); patch = os.path.join(out, "change%s.diff" % k)
        if meta is None or not os.path.exists(patch): continue
        n = "%s-%s" % (pid, k)
        suite = load(os.path.join(VER, n + ".suite.json")) or {}
        chk = load(os.path.join(VER, n + ".check.json")) or {}
        chk2 = load(os.path.join(VER, n + ".check2.json"))      # after strengthening
        demo = load(os.path.join(VER, n + ".demo.json")) or {}
        confirmed = bool(suite.get("applies") and suite.get("builds") and suite.get("suite_passes"))
        kk = str(int(k) + OFFSET)
        dst = os.path.join(ROOT, "seeded", pid, kk)
        if confirmed:
            shutil.rmtree(dst, ignore_errors=True); os.makedirs(dst)
            shutil.copy(patch, os.path.join(dst, "patch.diff"))
            d = os.path.join(out, "demo%s" % k)
            if os.path.isdir(d): shutil.copytree(d, os.path.join(dst, "demo"))
            m = dict(meta)
            m["confirmed_by_me"] = {"applies_to_repo_head": suite.get("applies"), "builds": suite.get("builds"),
                                    "pinned_suite_passes": suite.get("suite_passes"),
                                    "demonstration_fails_with_patch_and_passes_without": demo.get("demo_confirms"),
                                    "demonstration_violation_line": (demo.get("with_patch") or {}).get("violation_line")}
            final = chk2 or chk
            m["check"] = {"command": "tools/check %s --tier quick" % pid, "caught": final.get("caught"),
                          "no_failing_input_found": final.get("no_failing_input_found"),
                          "summary": (final.get("check_tail") or [None])[-1],
                          "caught_before_strengthening": chk.get("caught") if chk2 else None}
            rp = final.get("replay")
            if rp and os.path.exists(rp):
                shutil.copy(rp, os.path.join(dst, "replay.json")); m["check"]["replay"] = "seeded/%s/%s/replay.json" % (pid, kk)
            json.dump(m, open(os.path.join(dst, "meta.json"), "w"), indent=1)
        rows.append((pid, kk, meta.get("what", "")[:110], confirmed, demo.get("demo_confirms"), chk.get("caught"),
                     (chk2 or {}).get("caught"), (chk2 or chk).get("no_failing_input_found")))

print("| id | change | confirmed (build+suite) | demo | caught | after strengthening |")
print("|---|---|---|---|---|---|")
for r in rows:
    print("| %s-%s | %s | %s | %s | %s | %s |" % (r[0], r[1], r[2].replace("|", "/"), "yes" if r[3] else "NO",
          {True: "yes", False: "no", None: "-"}[r[4]], {True: "yes", False: "**no**", None: "-"}[r[5]],
          {True: "yes", False: "no", None: ""}[r[6]]))
