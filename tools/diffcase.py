#!/usr/bin/env python3
"""diffcase.py <replay.json>: shows where model and implementation outputs differ (canonicalised)"""
import json, sys, os, importlib
sys.path.insert(0, os.path.dirname(os.path.abspath(__file__)))
sys.path.insert(0, os.path.join(os.path.dirname(os.path.abspath(__file__)), "props"))
import vlib
r = json.load(open(sys.argv[1]))
cases = r.get("disagreeing_cases") or [r]
for r in cases[:3]:
    prop = importlib.import_module(r["property"])
    m = prop.canon(vlib.sx_parse(r["model_output"])); i = prop.canon(vlib.sx_parse(r["implementation_output"]))
    print("case", r["case"], "clauses", r["failing_clauses_on_implementation"])
    def walk(a, b, path):
        if isinstance(a, str) or isinstance(b, str):
            if a != b: print("  DIFF at", path, "\n     model:", vlib.sx_dump(a)[:300], "\n     impl :", vlib.sx_dump(b)[:300])
            return
        if len(a) != len(b):
            print("  LEN  at", path, "model", len(a), "impl", len(b))
            for x in a:
                if x not in b: print("     only model:", vlib.sx_dump(x)[:400])
            for x in b:
                if x not in a: print("     only impl :", vlib.sx_dump(x)[:400])
            return
        for k, (x, y) in enumerate(zip(a, b)):
            walk(x, y, path + [k])
    walk(m, i, [])
    if len(sys.argv) > 2:
        print("\n".join(r["pretty"] or []))
