#!/bin/bash
# Re-checks every compiled property module (and everything it depends on) with Coq's independent checker
# and prints the axioms they rely on. Takes about a minute; run after `python3 tools/build.py`.
cd "$(dirname "$0")/../coq" || exit 2
mods=$(ls Properties/C*.v | sed 's#Properties/\(C[0-9]*\).v#Coca.Properties.\1#')
for m in $mods; do f=Properties/${m##*.}; [ -f $f.vo ] || coqc -Q . Coca $f.v > /dev/null || exit 1; done
exec coqchk -silent -o -Q . Coca $mods
