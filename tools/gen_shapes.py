#!/usr/bin/env python3
"""gen_shapes.py -- regenerates coq/Generated/JavaShapes.v from /repo on every build.

Two translations, both purely syntactic (this script is part of the trusted base of C09):
 1. languages/java/JavaParser.g4 -> for every parser rule its alternatives, each alternative as the list of
    (symbol, minimal number of occurrences) of the rule references and tokens it contains
    (x? and x* contribute 0, x+ and x contribute 1, a parenthesised choice the minimum over its branches).
 2. the Java listener sources -> every place where a callback `func (..) EnterX/ExitX(ctx *[parser.]XContext)`
    (or a helper taking such a ctx) dereferences a child accessor `ctx.Child()` / `ctx.Child(i)`
    (a method call or type assertion on the result), with a flag telling whether the same accessor is
    compared with nil earlier in the function body (the guard idiom used throughout the listeners).
Fails closed: an unparsable grammar or an accessor that names no grammar symbol breaks the tie (see die())."""
import os, re, sys, json

REPO = os.environ.get("COCA_REPO", "/repo")
ROOT = os.path.dirname(os.path.dirname(os.path.abspath(__file__)))
OUT = os.path.join(ROOT, "coq", "Generated", "JavaShapes.v")
LISTENERS = [
    "pkg/infrastructure/ast/ast_java/java_full_listener.go",
    "pkg/infrastructure/ast/ast_java/java_full_converter.go",
    "pkg/infrastructure/ast/ast_java/java_identify/java_identifier_listener.go",
    "pkg/infrastructure/ast/ast_java/ast_api_java/java_api_listener.go",
    "pkg/infrastructure/ast/ast_java/common_listener/common_listener.go",
    "pkg/infrastructure/ast/bs_java/bad_smell_listener.go",
    "pkg/application/refactor/base/java_refactor_listener.go",
]

STATUS = os.path.join(ROOT, "coq", "Generated", "shapes_status.json")

def set_status(failed):
    txt = json.dumps({"failed": failed})
    if not os.path.exists(STATUS) or open(STATUS).read() != txt:
        open(STATUS, "w").write(txt)

def die(msg):
    """the tie is broken: with a previous (committed) JavaShapes.v the build goes on with it and exit code 3 tells
    tools/build.py; tools/check then reports the broken tie for the properties that use the tables (C09)"""
    sys.stderr.write("gen_shapes: BROKEN TIE: " + msg + "\n")
    if os.path.exists(OUT):
        set_status(msg); sys.exit(3)
    sys.exit(2)

# ------------------------------------------------------------------ grammar
def tokenize_g4(text):
    text = re.sub(r"/\*.*?\*/", " ", text, flags=re.S)
    text = re.sub(r"//[^\n]*", " ", text)
    text = re.sub(r"<\w+\s*=\s*\w+>", " ", text)      # element options such as <assoc=right>
    toks = re.findall(r"'(?:[^'\\]|\\.)*'|[A-Za-z_][A-Za-z_0-9]*|[:;|()?*+=]|\{[^}]*\}|#\s*[A-Za-z_0-9]+|\S", text)
    return toks

def lexer_literals(path):
    """literal -> token name, from rules of the form NAME : 'literal' ;"""
    text = open(path, encoding="utf-8").read()
    text = re.sub(r"/\*.*?\*/", " ", text, flags=re.S)
    out = {}
    for m in re.finditer(r"^([A-Z_][A-Z_0-9]*)\s*:\s*('(?:[^'\\]|\\.)*')\s*;", text, re.M):
        out[m.group(2)] = m.group(1)
    return out

MAX_EXPANSIONS = 4096

def merge(a, b):
    out = dict(a)
    for k, v in b.items(): out[k] = out.get(k, 0) + v
    return out

def dedup(l):
    seen, out = set(), []
    for d in l:
        key = tuple(sorted(d.items()))
        if key not in seen:
            seen.add(key); out.append(d)
    return out

def parse_g4(path, literals):
    """rule -> list of expanded alternatives; an expanded alternative lists the symbols PRESENT in one way of
    matching the rule (x? and x* are expanded into absent / present), with their number of occurrences"""
    toks = tokenize_g4(open(path, encoding="utf-8").read())
    i = 0
    while i < len(toks) and not (re.match(r"[a-z]\w*$", toks[i]) and i + 1 < len(toks) and toks[i + 1] == ":"):
        i += 1
    rules = {}
    def parse_alts():
        nonlocal i
        alts = parse_seq()
        while i < len(toks) and toks[i] == "|":
            i += 1; alts = alts + parse_seq()
        return dedup(alts)
    def parse_seq():
        nonlocal i
        seqs = [{}]
        while i < len(toks) and toks[i] not in ("|", ")", ";"):
            t = toks[i]
            if t.startswith("#"):
                i += 1; continue
            if re.match(r"[A-Za-z_]\w*$", t) and i + 1 < len(toks) and toks[i + 1] == "=":
                i += 2; continue
            if t == "(":
                i += 1
                atom = parse_alts()
                if toks[i] != ")": die("unbalanced ( in grammar")
                i += 1
            elif t.startswith("'"):
                i += 1; atom = [{literals[t]: 1}] if t in literals else [{}]
            elif re.match(r"[A-Za-z_]\w*$", t):
                i += 1; atom = [{t: 1}]
            elif t.startswith("{"):
                i += 1; continue
            else:
                die("unexpected grammar token %r" % t)
            if i < len(toks) and toks[i] in ("?", "*"):
                i += 1; atom = dedup([{}] + atom)
                if i < len(toks) and toks[i] == "?": i += 1
            elif i < len(toks) and toks[i] == "+":
                i += 1
                if i < len(toks) and toks[i] == "?": i += 1
            seqs = dedup([merge(x, y) for x in seqs for y in atom])
            if len(seqs) > MAX_EXPANSIONS: die("too many expansions in the grammar")
        return seqs
    while i < len(toks):
        name = toks[i]
        if not re.match(r"[a-z]\w*$", name) or toks[i + 1] != ":": die("rule expected at %r" % name)
        i += 2
        rules[name] = parse_alts()
        if toks[i] != ";": die("; expected after rule " + name)
        i += 1
    return rules

# ------------------------------------------------------------------ listeners
FUNC = re.compile(r"^func\s+(?:\([^)]*\)\s*)?(\w+)\s*\(([^)]*)\)", re.M)

def body_of(text, start):
    j = text.index("{", start)
    depth = 0
    k = j
    while k < len(text):
        c = text[k]
        if c == "{": depth += 1
        elif c == "}":
            depth -= 1
            if depth == 0: return text[j:k + 1], j
        elif c == '"':
            k += 1
            while text[k] != '"':
                if text[k] == "\\": k += 1
                k += 1
        elif c == "`":
            k = text.index("`", k + 1)
        elif text.startswith("//", k):
            k = text.index("\n", k)
        k += 1
    die("unbalanced braces")

def sym_of(acc):
    return acc if acc.isupper() or "_" in acc else acc[0].lower() + acc[1:]

def if_blocks(body):
    """(condition text, block start, block end, has_return) of every if statement of the body"""
    out = []
    for m in re.finditer(r"\bif\b", body):
        j = m.end()
        # the condition runs to the { that opens the block (no composite literals in these conditions)
        depth = 0; k = j
        while k < len(body):
            c = body[k]
            if c == "(": depth += 1
            elif c == ")": depth -= 1
            elif c == "{" and depth == 0: break
            k += 1
        if k >= len(body): continue
        cond = body[j:k]
        d = 0; e = k
        while e < len(body):
            if body[e] == "{": d += 1
            elif body[e] == "}":
                d -= 1
                if d == 0: break
            e += 1
        out.append((cond, k, e, re.search(r"\breturn\b", body[k:e]) is not None, j))
    return out

def accesses_of(path, rules, symbols):
    text = open(os.path.join(REPO, path), encoding="utf-8").read()
    out = []
    for m in FUNC.finditer(text):
        fname, params = m.group(1), m.group(2)
        ctxs = re.findall(r"(\w+)\s+\*?(?:parser\.)?I?(\w+)Context\b", params)
        if not ctxs: continue
        body, off = body_of(text, m.end())
        ifs = if_blocks(body)
        for var, ctxname in ctxs:
            rule = ctxname[0].lower() + ctxname[1:]
            if rule not in rules: continue
            for a in re.finditer(r"\b%s\.(\w+)\((\d*)\)\s*\.\s*(\(?)" % re.escape(var), body):
                acc = a.group(1)
                if acc.startswith("Get") or acc.startswith("All") or acc in ("ToStringTree", "Accept", "EnterRule", "ExitRule"):
                    continue
                sym = sym_of(acc)
                if sym not in symbols:
                    die("%s:%s: accessor %s names no grammar symbol" % (path, fname, acc))
                # v, ok := x.Child().(*T) does not panic on a nil child
                line_start = body.rfind("\n", 0, a.start()) + 1
                if a.group(3) == "(" and re.search(r",\s*\w+\s*:?=\s*$", body[line_start:a.start()]):
                    continue
                guards = set()
                for cond, bs, be, has_ret, cs in ifs:
                    inside = bs < a.start() < be
                    if cs <= a.start() < bs and "||" not in cond:
                        # inside the condition itself: the tests to its left, joined by &&
                        for g in re.finditer(r"\b%s\.(\w+)\(\d*\)\s*!=\s*nil" % re.escape(var), body[cs:a.start()]):
                            guards.add(sym_of(g.group(1)))
                    for g in re.finditer(r"\b%s\.(\w+)\(\d*\)\s*(!=|==)\s*nil" % re.escape(var), cond):
                        # x != nil && ... guards the block; x == nil || ... { return } guards what follows
                        if g.group(2) == "!=" and inside and "||" not in cond: guards.add(sym_of(g.group(1)))
                        if g.group(2) == "==" and has_ret and be < a.start() and "&&" not in cond: guards.add(sym_of(g.group(1)))
                guards = sorted(x for x in guards if x in symbols)
                line = text.count("\n", 0, off + a.start()) + 1
                out.append((path, fname, rule, sym, guards, line))
    # a type switch `switch x := e.(type) { case *parser.YContext: ... x.Child(). ...`: x is a Y node in that case
    for m in FUNC.finditer(text):
        fname = m.group(1)
        body, off = body_of(text, m.end())
        for sw in re.finditer(r"switch\s+(\w+)\s*:=\s*[^\n{]*\.\(type\)\s*\{", body):
            var = sw.group(1)
            # the cases up to the end of the switch block
            depth, k = 1, sw.end()
            while k < len(body) and depth > 0:
                depth += {"{": 1, "}": -1}.get(body[k], 0); k += 1
            block = body[sw.end():k]
            cases = list(re.finditer(r"case\s+\*(?:parser\.)?(\w+)Context\s*:", block))
            for ci, cm in enumerate(cases):
                rule = cm.group(1)[0].lower() + cm.group(1)[1:]
                if rule not in rules: continue
                end = cases[ci + 1].start() if ci + 1 < len(cases) else len(block)
                cbody = block[cm.end():end]
                ifs = if_blocks(cbody)
                for a2 in re.finditer(r"\b%s\.(\w+)\((\d*)\)\s*\.\s*(\(?)" % re.escape(var), cbody):
                    acc = a2.group(1)
                    if acc.startswith("Get") or acc.startswith("All"): continue
                    sym = sym_of(acc)
                    if sym not in symbols:
                        die("%s:%s: accessor %s names no grammar symbol" % (path, fname, acc))
                    guards = set()
                    for cond, bs, be, has_ret, cs in ifs:
                        if bs < a2.start() < be and "||" not in cond:
                            for g in re.finditer(r"\b%s\.(\w+)\(\d*\)\s*!=\s*nil" % re.escape(var), cond):
                                guards.add(sym_of(g.group(1)))
                    line = text.count("\n", 0, off + sw.end() + cm.end() + a2.start()) + 1
                    out.append((path, fname, rule, sym, sorted(x for x in guards if x in symbols), line))
    # children reached through a type assertion: x.(*parser.YContext).Child().  -- no guard is recognised here
    for m in FUNC.finditer(text):
        fname = m.group(1)
        body, off = body_of(text, m.end())
        for a in re.finditer(r"\.\(\*(?:parser\.)?(\w+)Context\)\.(\w+)\((\d*)\)\s*\.", body):
            rule = a.group(1)[0].lower() + a.group(1)[1:]
            acc = a.group(2)
            if rule not in rules or acc.startswith("Get") or acc.startswith("All"): continue
            sym = sym_of(acc)
            if sym not in symbols:
                die("%s:%s: accessor %s names no grammar symbol" % (path, fname, acc))
            line = text.count("\n", 0, off + a.start()) + 1
            out.append((path, fname, rule, sym, [], line))
    return out

def coq_str(s): return '"' + s.replace('"', '""') + '"'

def main():
    literals = lexer_literals(os.path.join(REPO, "languages/java/JavaLexer.g4"))
    rules = parse_g4(os.path.join(REPO, "languages/java/JavaParser.g4"), literals)
    if len(rules) < 100: die("suspiciously small grammar: %d rules" % len(rules))
    symbols = set(rules) | set(k for alts in rules.values() for a in alts for k in a)
    accs = []
    for p in LISTENERS:
        accs += accesses_of(p, rules, symbols)
    if len(accs) < 40: die("suspiciously few accesses: %d" % len(accs))
    lines = ["(* GENERATED by tools/gen_shapes.py from languages/java/JavaParser.g4, JavaLexer.g4 and the Java listener",
             "   sources. Do not edit. *)",
             "From Coq Require Import String List Bool Arith.",
             "Import ListNotations.",
             "Open Scope string_scope.",
             "",
             "(* rule -> expanded alternatives -> the symbols present in that way of matching the rule *)",
             "Definition java_grammar : list (string * list (list string)) := ["]
    used = sorted(set(a[2] for a in accs))
    rows = []
    for r in used:
        alts = ";\n     ".join("[" + "; ".join(coq_str(k) for k, v in sorted(a.items()) if v > 0) + "]" for a in rules[r])
        rows.append("  (%s,\n    [%s])" % (coq_str(r), alts))
    lines.append(";\n".join(rows))
    lines.append("].")
    lines.append("")
    lines.append("Record access := mkAcc { ac_file : string; ac_func : string; ac_rule : string; ac_child : string;")
    lines.append("                         ac_guards : list string; ac_line : nat }.")
    lines.append("")
    lines.append("(* every dereference of a child accessor in a listener callback, with the accessors tested against nil")
    lines.append("   by the if statements that enclose it (or that return before it) *)")
    lines.append("Definition java_accesses : list access := [")
    lines.append(";\n".join("  mkAcc %s %s %s %s [%s] %d" % (coq_str(os.path.basename(a[0])), coq_str(a[1]), coq_str(a[2]), coq_str(a[3]),
                                                          "; ".join(coq_str(g) for g in a[4]), a[5]) for a in accs))
    lines.append("].")
    os.makedirs(os.path.dirname(OUT), exist_ok=True)
    new = "\n".join(lines) + "\n"
    if not os.path.exists(OUT) or open(OUT).read() != new:
        open(OUT, "w").write(new)
    unsafe = []
    for a in accs:
        for alt in rules[a[2]]:
            if all(alt.get(g, 0) > 0 for g in a[4]) and alt.get(a[3], 0) == 0:
                unsafe.append("%s:%d %s: %s.%s absent in %s" % (a[0], a[5], a[1], a[2], a[3], sorted(k for k, v in alt.items() if v)))
                break
    set_status(None)
    json.dump({"rules": len(rules), "accesses": len(accs), "unsafe": unsafe},
              open(os.path.join(ROOT, "coq", "Generated", "shapes.json"), "w"), indent=1)

if __name__ == "__main__":
    try:
        main()
    except SystemExit:
        raise
    except Exception as e:
        die("translator failed: %r" % (e,))
