#!/bin/bash
# recheck.sh <seed-dir> <NN-K> ... : re-run the property's check on the seeded change (after strengthening) -> check2.json
D=$1; shift
for nk in "$@"; do i=${nk%-*}; k=${nk#*-}
  python3 /verif/tools/seed_verify.py C$i $D/out$i/change$k.diff --check-only > $D/verify/C$i-$k.check2.json 2>&1
  python3 - "$D" "C$i-$k" <<'PY'
import json,sys
D,n=sys.argv[1],sys.argv[2]
try: c=json.load(open("%s/verify/%s.check2.json"%(D,n)))
except Exception as e: c={"error":repr(e)}
print(n,"caught=",c.get("caught"),"nofail=",c.get("no_failing_input_found"),"|",((c.get("check_tail") or [c.get("error")])[-1] or "")[:130])
PY
done
