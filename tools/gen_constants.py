#!/usr/bin/env python3
"""Translator: re-extracts, on every run, the constants and constant tables the
properties talk about from /repo's Go sources into coq/Generated/Constants.v.

Fails closed PER CONSTANT: a constant that cannot be found in the Go sources is reported in
coq/Generated/constants_status.json ("failed": {name: reason}); its definition is then taken from
tools/constants_fallback.json (the last value that WAS extracted, committed) so that the rest of the
development still builds, and tools/check reports a broken tie for exactly the properties whose
Coq files (or generator) mention that constant.  Without a fallback value the run aborts (exit 2).
The file is rewritten only when its content changes (keeps make incremental)."""
import json, os, re, sys

REPO = os.environ.get("VERIF_REPO", "/repo")
OUT = os.path.join(os.path.dirname(os.path.abspath(__file__)), "..", "coq", "Generated", "Constants.v")

def read(rel):
    with open(os.path.join(REPO, rel), encoding="utf-8") as f:
        return f.read()

def go_string_list(body):
    """string literals of a Go slice literal body, in order"""
    return [go_unescape(x) for x in re.findall(r'"((?:[^"\\]|\\.)*)"', body)]

def go_unescape(x):
    out, i = [], 0
    esc = {'n': '\n', 't': '\t', '"': '"', '\\': '\\', "'": "'", 'r': '\r'}
    while i < len(x):
        if x[i] == '\\' and i + 1 < len(x) and x[i+1] in esc:
            out.append(esc[x[i+1]]); i += 2
        else:
            out.append(x[i]); i += 1
    return "".join(out)

def coq_str(s):
    return '"' + s.replace('"', '""') + '"'

errors = []          # fatal: no fallback
failed = {}          # coq_name -> reason (fallback used)
inconclusive = {}    # coq_name -> reason (documented value used; the correspondence run decides)
defs = []
_FB = os.path.join(os.path.dirname(os.path.abspath(__file__)), "constants_fallback.json")
try:
    fallback = json.load(open(_FB))
except Exception:
    fallback = {}
current = {}

def emit(coq_name, text):
    current[coq_name] = text
    defs.append(text)

def broken(coq_name, reason):
    if coq_name in fallback:
        failed[coq_name] = reason
        defs.append("(* NOT FOUND in the Go sources: last extracted value *)\n" + fallback[coq_name])
    else:
        errors.append(f"{coq_name}: {reason}")

def nat_const(coq_name, rel, pattern, doc):
    try:
        src = read(rel)
    except OSError as e:
        broken(coq_name, f"cannot read {rel}: {e}"); return
    m = re.search(pattern, src, re.M)
    if not m:
        broken(coq_name, f"pattern {pattern!r} not found in {rel}"); return
    emit(coq_name, f"(* {rel}: {doc} *)\nDefinition {coq_name} : nat := {int(m.group(1))}.")

def str_const(coq_name, rel, pattern, doc, absent_is_inconclusive=False):
    """absent_is_inconclusive: the constant is a piece of program text (a regular expression); when the source no
    longer holds one at all (the matching was re-implemented by hand) the documented text stays in the model and
    the correspondence run decides; a DIFFERENT text is extracted as it is (and breaks the theorem that names it)"""
    try:
        src = read(rel)
    except OSError as e:
        broken(coq_name, f"cannot read {rel}: {e}"); return
    m = re.search(pattern, src, re.M | re.S)
    if not m and absent_is_inconclusive and coq_name in fallback:
        inconclusive[coq_name] = f"{rel}: no such expression in the text any more; documented expression used"
        defs.append("(* documented expression; the source holds none *)\n" + fallback[coq_name]); return
    if not m:
        broken(coq_name, f"pattern {pattern!r} not found in {rel}"); return
    emit(coq_name, f"(* {rel}: {doc} *)\nDefinition {coq_name} : string := {coq_str(m.group(1))}.")

def strlist_const(coq_name, rel, pattern, doc):
    try:
        src = read(rel)
    except OSError as e:
        broken(coq_name, f"cannot read {rel}: {e}"); return
    m = re.search(pattern, src, re.M | re.S)
    if not m:
        broken(coq_name, f"pattern {pattern!r} not found in {rel}"); return
    items = go_string_list(m.group(1))
    emit(coq_name, f"(* {rel}: {doc} *)\nDefinition {coq_name} : list string := [" +
                "; ".join(coq_str(x) for x in items) + "].")

def cmp_const(coq_name, rel, pattern, doc):
    """comparison operator used at a threshold: the operator written immediately before the threshold's name.
    Reading an operator off the text is only a hint -- `if n <= LIMIT { return }` and `if n > LIMIT { report }` are
    the same behaviour -- so the documented operator (tools/constants_fallback.json) is what the model uses; when
    the text shows exactly one comparison and it is the documented one the constant counts as extracted, otherwise
    the disagreement is recorded as inconclusive and the boundary cases of the correspondence run (every generator
    produces values at and next to each threshold) decide what the code does at the threshold."""
    try:
        src = re.sub(r"//[^\n]*", "", read(rel))
    except OSError as e:
        broken(coq_name, f"cannot read {rel}: {e}"); return
    ms = re.findall(pattern, src)
    if coq_name not in fallback:
        if len(ms) != 1:
            errors.append(f"{coq_name}: pattern {pattern!r} found {len(ms)} times in {rel} and no documented value"); return
        emit(coq_name, f"(* {rel}: {doc} *)\nDefinition {coq_name} : string := {coq_str(ms[0])}."); return
    text = f"(* {rel}: {doc} *)\nDefinition {coq_name} : string := {coq_str(ms[0])}." if len(ms) == 1 else None
    if text is not None and text == fallback[coq_name]:
        emit(coq_name, text)
    else:
        inconclusive[coq_name] = (f"{rel}: {len(ms)} comparison(s) with the threshold in the text" +
                                  (f", written {ms[0]!r}" if len(ms) == 1 else "") + "; documented operator used")
        defs.append("(* documented operator; the source text is inconclusive *)\n" + fallback[coq_name])

def func_strlist_const(coq_name, rel, func, doc):
    """the string literals inside the body of a function, in order (a slice literal scanned by a loop, or the
    labels of a switch: both say the same)"""
    try:
        src = read(rel)
    except OSError as e:
        broken(coq_name, f"cannot read {rel}: {e}"); return
    m = re.search(r"^func %s\(.*?\n\}\n" % re.escape(func), src, re.M | re.S)
    if not m:
        broken(coq_name, f"function {func} not found in {rel}"); return
    items = go_string_list(re.sub(r"//[^\n]*", "", m.group(0)))
    if not items:
        broken(coq_name, f"no string literal in function {func} of {rel}"); return
    emit(coq_name, f"(* {rel}: {doc} *)\nDefinition {coq_name} : list string := [" +
         "; ".join(coq_str(x) for x in items) + "].")

# ---- call graph / reverse call graph budgets (C03, C04, C07)
nat_const("maxLoopCount", "pkg/application/call/call_graph.go",
          r"^(?:var|const)\s+maxLoopCount\s*(?:int\s*)?=\s*(\d+)\s*$", "expansion budget of BuildCallChain")
cmp_const("maxLoopCount_cmp", "pkg/application/call/call_graph.go",
          r"([<>]=?|[!=]=)\s*maxLoopCount\b", "budget test of BuildCallChain")
nat_const("loopDepth", "pkg/application/rcall/rcall_graph.go",
          r"^(?:var|const)\s+loopDepth\s*(?:int\s*)?=\s*(\d+)\s*$", "depth budget of BuildRCallChain")
cmp_const("loopDepth_cmp", "pkg/application/rcall/rcall_graph.go",
          r"([<>]=?|[!=]=)\s*loopDepth\b", "budget test of BuildRCallChain")

# ---- bad smell thresholds (C10)
for name in ["BS_LONG_PARAS_LENGTH", "BS_IF_SWITCH_LENGTH", "BS_LARGE_LENGTH",
             "BS_METHOD_LENGTH", "BS_IF_LINES_LENGTH"]:
    nat_const(name, "pkg/application/bs/bs_app.go",
              r"^\s*%s\s*=\s*(\d+)\s*$" % name, "bad smell threshold")
cmp_const("bs_long_method_cmp", "pkg/application/bs/bs_app.go",
          r"([<>]=?|[!=]=)\s*BS_METHOD_LENGTH\b", "longMethod comparison")
cmp_const("bs_long_params_cmp", "pkg/application/bs/bs_app.go",
          r"([<>]=?|[!=]=)\s*BS_LONG_PARAS_LENGTH\b", "longParameterList comparison")
cmp_const("bs_large_class_cmp", "pkg/application/bs/bs_app.go",
          r"([<>]=?|[!=]=)\s*BS_LARGE_LENGTH\b", "largeClass comparison")
cmp_const("bs_if_size_cmp", "pkg/application/bs/bs_app.go",
          r"\.IfSize\s*([<>]=?|[!=]=)\s*BS_IF_SWITCH_LENGTH\b", "repeatedSwitches (if) comparison")
cmp_const("bs_switch_size_cmp", "pkg/application/bs/bs_app.go",
          r"\.SwitchSize\s*([<>]=?|[!=]=)\s*BS_IF_SWITCH_LENGTH\b", "repeatedSwitches (switch) comparison")
cmp_const("bs_if_lines_cmp", "pkg/application/bs/bs_app.go",
          r"([<>]=?|[!=]=)\s*BS_IF_LINES_LENGTH\b", "complexCondition comparison")

# ---- test bad smell (C11)
nat_const("DuplicatedAssertionLimitLength", "pkg/infrastructure/constants/java_target_config.go",
          r"DuplicatedAssertionLimitLength\s*=\s*(\d+)", "duplicate assert limit")
strlist_const("ASSERTION_LIST", "pkg/infrastructure/constants/java_target_config.go",
              r"ASSERTION_LIST\s*=\s*\[\]string\{(.*?)\}", "assertion prefixes")

# ---- architecture graph (C13)
nat_const("tequila_Level", "pkg/application/arch/tequila/merge_viz.go",
          r"^(?:var|const)\s+Level\s*(?:int\s*)?=\s*(\d+)\s*$", "MergePackageFunc depth")

# ---- concept analysis (C18)
strlist_const("TechStopWords", "pkg/infrastructure/constants/java_target_config.go",
              r"TechStopWords\s*=\s*\[\]string\{(.*?)\n\}", "technical stop words")
strlist_const("ENGLISH_STOP_WORDS", "pkg/application/call/stop_words/languages/en.go",
              r"ENGLISH_STOP_WORDS\s*=\s*\[\]string\{(.*?)\n\}", "English stop words")

# ---- cloc (C16)
func_strlist_const("cloc_ignore_dirs", "pkg/application/cloc/cloc_app.go", "IsIgnoreDir",
                   "directories skipped by the by-directory report")

strlist_const("cloc_exclude_dirs", "cmd/cloc.go",
              r"&processor\.PathDenyList, \"exclude-dir\", \[\]string\{(.*?)\}", "default of --exclude-dir (scc path deny list)")
nat_const("cloc_top_lang_limit", "cmd/cloc.go",
          r"if\s+len\(\w+\)\s*<=\s*(\d+)\s*\{", "top-file tables are printed for at most this many languages")
cmp_const("cloc_top_size_cmp", "cmd/cloc.go",
          r"([<>]=?|[!=]=)\s*clocConfig\.TopSizes\b", "top-file truncation test")

# ---- git log arguments (C14)
strlist_const("git_log_args", "cmd/git.go",
              r"\w+\s*:=\s*\[\]string\{(\s*\"log\".*?)\}\s*$", "argument vector of the git log invocation")

# ---- build dependencies (C19)
str_const("deps_pom_block", "pkg/application/deps/maven_analysis.go",
          r'val\.Name == "([^"]+)"', "name of the pom element whose children are the declared dependencies")
str_const("deps_gradle_block", "pkg/infrastructure/ast/ast_groovy/groovy_identifier_listener.go",
          r'GetText\(\) != "([^"]+)"', "name of the build.gradle closure whose statements are the declared dependencies")
str_const("deps_coord_sep", "pkg/infrastructure/ast/ast_groovy/groovy_identifier_listener.go",
          r'strings\.Split\([^,()]+, "([^"]+)"\)', "separator of group:artifact:version in ConvertToJDep")

# ---- todo scanner (C17)
strlist_const("todo_identifiers", "pkg/application/todo/astitodo/astitodo.go",
              r"todoIdentifiers\s*=\s*\[\]string\{(.*?)\}", "comment keywords of IsTodoIdentifier, in test order")
str_const("todo_assign_regexp", "pkg/application/todo/astitodo/astitodo.go",
          r'assignRegStr\s*=\s*"((?:[^"\\\n]|\\.)*)"', "assignee expression, as written in the Go source (escapes not decoded)",
          absent_is_inconclusive=True)

# ---- unused-import removal (C06): which repairs of fixes/unused-*.diff the sources carry.
# Each switch recognises the defective text only (see bool_switch).
def bool_switch(coq_name, checks, doc):
    """checks: [(rel, pattern_of_the_defective_text, pattern_of_the_repaired_text)].  A file votes `false` (defective
    variant of the model) exactly when the DEFECTIVE text is present and the repaired one is not; any other text
    -- the repaired one, or a rewrite this script does not recognise -- selects the repaired variant, and it is
    the correspondence check of C06 that decides whether that variant describes the code.  All files must agree."""
    votes = []
    for rel, pf, pt in checks:
        try:
            src = read(rel)
        except OSError as e:
            broken(coq_name, f"cannot read {rel}: {e}"); return
        a = re.search(pf, src, re.M) is not None
        b = re.search(pt, src, re.M) is not None
        votes.append(not (a and not b))
    if len(set(votes)) != 1:
        broken(coq_name, f"the sources disagree ({votes}) -- the repair is only half applied"); return
    emit(coq_name, f"(* {', '.join(c[0] for c in checks)}: {doc} *)\nDefinition {coq_name} : bool := {'true' if votes[0] else 'false'}.")

_UI = "pkg/application/refactor/unused/remove_unused_import.go"
_UL = "pkg/application/refactor/base/java_refactor_listener.go"
_UM = "pkg/application/refactor/base/models/jfull_identifier.go"
bool_switch("unused_fix_perfile",
            [(_UI, r"removeImportByLines\(currentFile, errorLines\)", r"removeImportByLines\(node\.FilePath, errorLines\)"),
             (_UM, r"^var fields = make\(map\[string\]JField\)", r"^\tfields\s+map\[string\]JField$")],
            "the tables and the path of a file are members of its JFullIdentifier (else package-level)")
bool_switch("unused_fix_lines",
            [(_UI, r"^\treturn errorLines$", r"^\treturn removableLines\(errorLines, usedLines\)$")],
            "BuildErrorLines returns each line once and no line holding an import in use")
bool_switch("unused_fix_wildcard",
            [(_UI, r'field\.Name == lastField \|\| lastField == "\*"', r'isOk = lastField == "\*"')],
            "the wildcard test of BuildErrorLines is outside the loop over the referenced names")
bool_switch("unused_fix_decl",
            [(_UL, r"\A(?![\s\S]*func \(s \*JavaRefactorListener\) EnterEnumDeclaration)[\s\S]*func \(s \*JavaRefactorListener\) EnterClassDeclaration",
              r"func \(s \*JavaRefactorListener\) EnterEnumDeclaration[\s\S]*func \(s \*JavaRefactorListener\) EnterAnnotationTypeDeclaration")],
            "enum and annotation type declarations name the node")
bool_switch("unused_fix_primary",
            [(_UL, r"\A(?![\s\S]*func \(s \*JavaRefactorListener\) EnterPrimary)[\s\S]*func isUppercaseText",
              r"func \(s \*JavaRefactorListener\) EnterPrimary\(")],
            "a bare identifier (primary) is recorded as a referenced name")

# ---- method rename (C05)
str_const("rename_conf_sep", "pkg/application/refactor/rename/support/related_parser.go",
          r'strings\.Split\(str, "([^"]+)"\)', "separator between the old and the new qualified name on a line of the rename file")
str_const("rename_line_sep", "pkg/application/refactor/rename/rename_method.go",
          r'strings\.Split\((?:string\()?\w+\)?, "((?:[^"\\]|\\.)+)"\)', "line separator of updateSelfRefs, as written in the Go source (escape not decoded)")
str_const("rename_name_sep", "pkg/application/refactor/rename/support/package_info_helper.go",
          r'strings\.Split\(name, "([^"]+)"\)', "separator of package, class and method in a qualified method name")

_jp = os.path.join(os.path.dirname(OUT), "constants.json")
if "git_log_args" in current:
    _m = re.search(r"\w+\s*:=\s*\[\]string\{(\s*\"log\".*?)\}\s*$", read("cmd/git.go"), re.M | re.S)
    _jt = json.dumps({"git_log_args": go_string_list(_m.group(1))})
    if not os.path.exists(_jp) or open(_jp).read() != _jt:
        open(_jp, "w").write(_jt)

if errors:
    sys.stderr.write("gen_constants: BROKEN TIE (constants not found in the Go sources, no fallback value):\n")
    for e in errors:
        sys.stderr.write("  " + e + "\n")
    sys.exit(2)
for k, v in failed.items():
    sys.stderr.write("gen_constants: BROKEN TIE for %s: %s (last extracted value used)\n" % (k, v))

_st = os.path.join(os.path.dirname(OUT), "constants_status.json")
_sj = json.dumps({"failed": failed, "inconclusive": inconclusive,
                  "constants": sorted(list(current) + list(failed) + list(inconclusive))}, indent=1, sort_keys=True)
if not os.path.exists(_st) or open(_st).read() != _sj:
    open(_st, "w").write(_sj)
# the committed file of last extracted / documented values is rewritten only on request (after a repair of /repo
# changed a constant): a check run against a modified tree must never move it
if "--update-fallback" in sys.argv:
    _nf = dict(fallback); _nf.update(current)
    _nj = json.dumps(_nf, indent=1, sort_keys=True, ensure_ascii=True)
    if not os.path.exists(_FB) or open(_FB).read() != _nj:
        open(_FB, "w").write(_nj)

text = """(* GENERATED by tools/gen_constants.py from the Go sources under /repo -- do not edit. *)
From Coq Require Import String List.
Import ListNotations.
Open Scope string_scope.

""" + "\n\n".join(defs) + "\n"

os.makedirs(os.path.dirname(OUT), exist_ok=True)
old = None
if os.path.exists(OUT):
    with open(OUT, encoding="utf-8") as f:
        old = f.read()
if old != text:
    with open(OUT, "w", encoding="utf-8") as f:
        f.write(text)
    print("gen_constants: wrote", os.path.normpath(OUT))
