#!/bin/bash
# refac_round.sh <dir> <ids...>: behaviour-preserving changes delivered in <dir>/outNN (changeK.diff): the pinned
# suite in scratch worktrees (parallel), then - patch applied to /repo's working tree, undone afterwards - the
# property's own check and the checks of the properties that share the touched code. Expected: NO alarm.
D=$1; shift
mkdir -p $D/verify
for i in "$@"; do for k in 1 2; do [ -f $D/out$i/change$k.diff ] && echo "$i $k"; done; done > $D/verify/todo.txt
[ -n "$SKIP_SUITE" ] || cat $D/verify/todo.txt | xargs -P 4 -L 1 sh -c 'python3 /verif/tools/seed_verify.py C$0 '$D'/out$0/change$1.diff --suite-only > '$D'/verify/C$0-$1.suite.json 2>&1'
while read i k; do
  files=$(grep '^+++ b/' $D/out$i/change$k.diff | sed 's,^+++ b/,,')
  ids="C$i"
  for f in $files; do case $f in
    pkg/infrastructure/ast/ast_java/*|pkg/application/analysis/javaapp/*|pkg/adapter/cocafile/*|pkg/domain/core_domain/*) ids="$ids C01 C02 C07 C08 C09 C10 C11 C12 C05";;
    pkg/infrastructure/ast/bs_java/*|pkg/application/bs/*) ids="$ids C10 C07 C08 C09";;
    pkg/application/call/*) ids="$ids C03 C07 C08";;
    pkg/application/rcall/*) ids="$ids C04 C07 C08";;
    pkg/application/api/*|pkg/domain/api_domain/*) ids="$ids C12 C03 C07 C08";;
    pkg/application/arch/*) ids="$ids C13 C08";;
    pkg/application/git/*|pkg/domain/git_domain/*) ids="$ids C14 C15";;
    pkg/application/evaluate/*|pkg/application/count/*|pkg/application/concept/*) ids="$ids C18 C08";;
    pkg/application/refactor/*) ids="$ids C05 C06";;
    pkg/application/tbs/*) ids="$ids C11 C08";;
    pkg/application/todo/*) ids="$ids C17";;
    pkg/application/deps/*|pkg/infrastructure/ast/ast_groovy/*|pkg/infrastructure/xmlparse/*) ids="$ids C19";;
    pkg/application/cloc/*|cmd/cloc*.go) ids="$ids C16";;
    pkg/infrastructure/jpackage/*) ids="$ids C03 C08";;
    pkg/infrastructure/ast/ast_go/*|pkg/infrastructure/ast/ast_python/*|pkg/application/analysis/goapp/*|pkg/application/analysis/pyapp/*) ids="$ids C20";;
    cmd/*) ids="$ids C08";;
    pkg/infrastructure/*) ids="$ids C01 C02 C08";;
  esac; done
  ids=$(echo $ids | tr ' ' '\n' | awk '!s[$0]++' | paste -sd,)
  python3 /verif/tools/seed_verify.py C$i $D/out$i/change$k.diff --check-only --checks=$ids > $D/verify/C$i-$k.check.json 2>&1
  python3 - "$D" "C$i-$k" <<'PY'
import json,sys
D,n=sys.argv[1],sys.argv[2]
def L(s):
    try: return json.load(open("%s/verify/%s.%s.json"%(D,n,s)))
    except Exception as e: return {"error": repr(e)}
s,c=L("suite"),L("check")
print(n,"suite=",s.get("applies"),s.get("builds"),s.get("suite_passes"),"checks=",",".join(sorted((c.get("checks") or {}).keys())),"ALARMS=",c.get("alarms"),c.get("error",""))
PY
done < $D/verify/todo.txt
