"""Shared machinery of the checks: wire format, model driver, Go harness runner,
proof-obligation accounting, verdicts, evidence."""
import concurrent.futures, glob, hashlib, json, os, random, re, shutil, subprocess, sys, tempfile, time

ROOT = os.path.normpath(os.path.join(os.path.dirname(os.path.abspath(__file__)), ".."))
COQ = os.path.join(ROOT, "coq")
REPO = os.environ.get("VERIF_REPO", "/repo")
DRIVER = os.path.join(ROOT, "ocaml", "driver")
HARNESS = os.path.join(ROOT, "harness", "bin", "run")

# ------------------------------------------------------------------ s-expressions
def sx_dump(x):
    if isinstance(x, (list, tuple)):
        return "(" + " ".join(sx_dump(i) for i in x) + ")"
    if isinstance(x, bool):
        x = "1" if x else "0"
    if isinstance(x, int):
        x = str(x)
    if isinstance(x, str):
        x = x.encode("utf-8", "surrogateescape")
    out = bytearray(b'"')
    for c in x:
        if c == 0x22: out += b'\\"'
        elif c == 0x5c: out += b'\\\\'
        elif c == 0x0a: out += b'\\n'
        elif c == 0x09: out += b'\\t'
        elif c == 0x0d: out += b'\\r'
        elif c < 32 or c > 126: out += b'\\x%02x' % c
        else: out.append(c)
    out += b'"'
    return out.decode("ascii")

def sx_parse(s):
    """-> nested lists of str (atoms decoded as utf-8 with surrogateescape)"""
    pos = 0
    n = len(s)
    def value():
        nonlocal pos
        while pos < n and s[pos] == " ":
            pos += 1
        if pos >= n:
            raise ValueError("eof")
        if s[pos] == "(":
            pos += 1
            items = []
            while True:
                while pos < n and s[pos] == " ":
                    pos += 1
                if pos >= n:
                    raise ValueError("unterminated list")
                if s[pos] == ")":
                    pos += 1
                    return items
                items.append(value())
        if s[pos] == '"':
            pos += 1
            b = bytearray()
            while True:
                if pos >= n:
                    raise ValueError("unterminated string")
                c = s[pos]
                if c == '"':
                    pos += 1
                    return b.decode("utf-8", "surrogateescape")
                if c == "\\":
                    d = s[pos + 1]
                    if d == "n": b.append(10); pos += 2
                    elif d == "t": b.append(9); pos += 2
                    elif d == "r": b.append(13); pos += 2
                    elif d == "x": b.append(int(s[pos + 2:pos + 4], 16)); pos += 4
                    else: b += d.encode("utf-8", "surrogateescape"); pos += 2
                else:
                    b += c.encode("utf-8", "surrogateescape"); pos += 1
        raise ValueError("unexpected %r at %d in %r" % (s[pos], pos, s[:80]))
    return value()

# ------------------------------------------------------------------ running the two sides
def run_driver(jobs, timeout=3600):
    """jobs: list of (entry, sx) -> list of parsed outputs (or ('!ERR', msg))"""
    if not jobs:
        return []
    inp = "\n".join(e + " " + sx_dump(x) for e, x in jobs) + "\n"
    p = subprocess.run([DRIVER], input=inp, stdout=subprocess.PIPE, stderr=subprocess.PIPE, text=True,
                       timeout=timeout, env=dict(os.environ, OCAMLRUNPARAM="l=2000M"))
    lines = p.stdout.split("\n")
    if lines and lines[-1] == "":
        lines.pop()
    out = []
    for ln in lines:
        if ln.startswith("!ERR"):
            out.append(["!ERR", ln])
        else:
            out.append(sx_parse(ln))
    if len(out) != len(jobs):
        raise RuntimeError("driver returned %d results for %d jobs (rc=%s): %s" %
                           (len(out), len(jobs), p.returncode, p.stderr[-2000:]))
    return out

def _run_harness_batch(jobs, case_timeout, cwd=None, env_extra=None):
    """one process for the whole batch; on a timeout / crash the offending case gets a marker
    and the rest of the batch continues in a new process"""
    results = []
    i = 0
    env = dict(os.environ, VERIF_CASE_TIMEOUT=case_timeout)
    if env_extra:
        env.update(env_extra)
    while i < len(jobs):
        chunk = jobs[i:]
        inp = "\n".join(op + " " + sx_dump(x) for op, x in chunk) + "\n"
        try:
            p = subprocess.run([HARNESS], input=inp, stdout=subprocess.PIPE, stderr=subprocess.PIPE,
                               text=True, env=env, cwd=cwd, timeout=3600)
            out, err, rc = p.stdout, p.stderr, p.returncode
        except subprocess.TimeoutExpired as e:
            out, err, rc = (e.stdout or ""), "", -9
        lines = out.split("\n")
        if lines and lines[-1] == "":
            lines.pop()
        got = []
        for ln in lines:
            try:
                got.append(sx_parse(ln))
            except Exception:
                got.append(["!ERR", "unparsable harness line: " + ln[:200]])
        results += got
        i += len(got)
        if len(got) < len(chunk):
            if not (got and got[-1] == ["!TIMEOUT"]):
                # the process died while running case i (fatal signal, os.Exit, runtime throw)
                cls = "fatal"
                m = re.search(r"(fatal error: [^\n]*|SIGSEGV[^\n]*|signal [^\n]*)", err or "")
                if m:
                    cls = m.group(1)[:80]
                results.append(["!CRASH", cls, "rc=%s" % rc])
                i += 1
    return results

def run_harness(jobs, fresh_process=False, case_timeout="20s", workers=12, cwd=None, env_extra=None):
    if not jobs:
        return []
    if not fresh_process:
        # split into a few batches to use the cores
        k = max(1, min(workers, len(jobs) // 8 or 1))
        chunks = [jobs[j::k] for j in range(k)]
        with concurrent.futures.ThreadPoolExecutor(max_workers=k) as ex:
            outs = list(ex.map(lambda c: _run_harness_batch(c, case_timeout, cwd, env_extra), chunks))
        res = [None] * len(jobs)
        for j, o in enumerate(outs):
            for t, v in enumerate(o):
                res[j + t * k] = v
        return res
    with concurrent.futures.ThreadPoolExecutor(max_workers=workers) as ex:
        outs = list(ex.map(lambda jb: _run_harness_batch([jb], case_timeout, cwd, env_extra)[0], jobs))
    return outs

# ------------------------------------------------------------------ proofs
FORBIDDEN = re.compile(r"\b(Admitted|admit|Axiom|Axioms|Parameter|Parameters|Conjecture|Conjectures|"
                       r"Unset Guard Checking|bypass_check|type-in-type|impredicative-set|"
                       r"Admit Obligations|Unset Universe Checking|Unset Positivity Checking)\b")

def strip_coq_comments(text):
    out, depth, i = [], 0, 0
    while i < len(text):
        if text.startswith("(*", i):
            depth += 1; i += 2
        elif text.startswith("*)", i) and depth > 0:
            depth -= 1; i += 2
        else:
            if depth == 0:
                out.append(text[i])
            i += 1
    return "".join(out)

def forbidden_tokens():
    bad = []
    for p in glob.glob(os.path.join(COQ, "**", "*.v"), recursive=True):
        txt = strip_coq_comments(open(p, encoding="utf-8").read())
        # string literals may mention anything
        txt = re.sub(r'"(?:[^"]|"")*"', '""', txt)
        for m in FORBIDDEN.finditer(txt):
            bad.append("%s: %s" % (os.path.relpath(p, ROOT), m.group(0)))
    return bad

def check_property_file(pid):
    """(re)compiles coq/Properties/<pid>.v against the built development and returns
    (ok, obligations, discharged, axioms, theorem_names, log)."""
    src = os.path.join(COQ, "Properties", pid + ".v")
    if not os.path.exists(src):
        return False, 0, 0, [], [], "missing " + src
    text = strip_coq_comments(open(src, encoding="utf-8").read())
    names = re.findall(r"^\s*(?:Theorem|Lemma|Example|Corollary)\s+([A-Za-z0-9_']+)", text, re.M)
    prints = re.findall(r"Print Assumptions\s+([A-Za-z0-9_'.]+)\s*\.", text)
    p = subprocess.run(["timeout", "900", "coqc", "-Q", COQ, "Coca", src], cwd=COQ,
                       stdout=subprocess.PIPE, stderr=subprocess.STDOUT, text=True)
    log = p.stdout
    closed = log.count("Closed under the global context")
    axioms = []
    for m in re.finditer(r"Axioms:\n((?:.+\n?)+?)(?:\n|$)", log):
        for ln in m.group(1).split("\n"):
            mm = re.match(r"^([A-Za-z0-9_.']+)\s*:", ln)
            if mm:
                axioms.append(mm.group(1))
    ok = p.returncode == 0 and len(prints) >= len(set(names)) and not set(names) - set(prints)
    obligations = len(names)
    discharged = len(names) if p.returncode == 0 else 0
    return ok, obligations, discharged, sorted(set(axioms)), names, log

ALLOWED_AXIOMS = {
    "functional_extensionality_dep", "FunctionalExtensionality.functional_extensionality_dep",
    "proof_irrelevance", "ProofIrrelevance.proof_irrelevance", "Eqdep.Eq_rect_eq.eq_rect_eq",
    "Classical_Prop.classic", "JMeq.JMeq_eq",
}

# ------------------------------------------------------------------ known findings
def load_findings(pid):
    p = os.path.join(ROOT, "known_findings.json")
    if not os.path.exists(p):
        return []
    data = json.load(open(p))
    return [f for f in data.get("findings", []) if f.get("property") == pid]

# ------------------------------------------------------------------ replay / evidence
def write_replay(pid, name, payload):
    d = os.path.join(ROOT, "replays", pid)
    os.makedirs(d, exist_ok=True)
    path = os.path.join(d, name + ".json")
    with open(path, "w") as f:
        json.dump(payload, f, indent=1, ensure_ascii=True)
    return path

def write_evidence(pid, ev):
    d = os.path.join(ROOT, "evidence")
    os.makedirs(d, exist_ok=True)
    with open(os.path.join(d, pid + ".json"), "w") as f:
        json.dump(ev, f, indent=1, ensure_ascii=True)

def sub_seed(seed, *parts):
    h = hashlib.sha256(("%d|" % seed + "|".join(str(p) for p in parts)).encode()).digest()
    return int.from_bytes(h[:8], "big")

def rng_for(seed, *parts):
    return random.Random(sub_seed(seed, *parts))

def scratch_dir(prefix):
    base = os.environ.get("VERIF_SCRATCH", "/var/tmp")
    os.makedirs(base, exist_ok=True)
    return tempfile.mkdtemp(prefix="verif-" + prefix + "-", dir=base)
