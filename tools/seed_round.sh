#!/bin/bash
# seed_round.sh <seed-dir> <ids...>: confirms and checks the seeded changes delivered in <seed-dir>/outNN for the
# given property numbers (e.g. 01 02): suite + demo in parallel (scratch worktrees), then the property check
# sequentially against /repo's working tree (patch applied, undone afterwards).
D=$1; shift
mkdir -p $D/verify
for i in "$@"; do for k in 1 2; do [ -f $D/out$i/change$k.diff ] && echo "$i $k"; done; done > $D/verify/todo.txt
cat $D/verify/todo.txt | xargs -P 4 -L 1 sh -c 'python3 /verif/tools/seed_verify.py C$0 '$D'/out$0/change$1.diff --suite-only > '$D'/verify/C$0-$1.suite.json 2>&1'
cat $D/verify/todo.txt | xargs -P 3 -L 1 sh -c 'python3 /verif/tools/seed_demo.py '$D'/out$0 $1 > '$D'/verify/C$0-$1.demo.json 2>&1'
while read i k; do python3 /verif/tools/seed_verify.py C$i $D/out$i/change$k.diff --check-only > $D/verify/C$i-$k.check.json 2>&1; done < $D/verify/todo.txt
for f in $D/verify/*.check.json; do n=$(basename $f .check.json); python3 - "$D" "$n" <<'PY'
import json,sys
D,n=sys.argv[1],sys.argv[2]
def L(s):
    try: return json.load(open("%s/verify/%s.%s.json"%(D,n,s)))
    except Exception: return {}
s,d,c=L("suite"),L("demo"),L("check")
print(n,"suite=",s.get("applies"),s.get("builds"),s.get("suite_passes"),"demo=",d.get("demo_confirms"),"caught=",c.get("caught"),"nofail=",c.get("no_failing_input_found"),"|",(c.get("check_tail") or [c.get("error")])[-1][:110] if (c.get("check_tail") or c.get("error")) else "")
PY
done
