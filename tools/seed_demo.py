#!/usr/bin/env python3
"""seed_demo.py <out-dir> <k>: runs the demonstration delivered with seeded change k twice, in fresh scratch
worktrees of /repo HEAD (outside /repo and /verif): with the patch (must show the violation: the demo test
fails) and without it (must pass). The command is the `demo` field of meta<k>.json with the author's
worktree path replaced. Prints one JSON object."""
import json, os, re, subprocess, sys, tempfile, shutil

ENV = dict(os.environ, GOFLAGS="-mod=mod", GOPROXY="off", GOSUMDB="off", GOTOOLCHAIN="local")

def sh(cmd, cwd):
    p = subprocess.run(["bash", "-c", cmd], cwd=cwd, env=ENV, stdout=subprocess.PIPE, stderr=subprocess.STDOUT, text=True, timeout=1800)
    return p.returncode, p.stdout

def run(out, k, with_patch):
    meta = json.load(open(os.path.join(out, "meta%s.json" % k)))
    cmd = meta["demo"] if isinstance(meta["demo"], str) else " && ".join(meta["demo"])
    cmd = re.split(r"\s\((?=[a-zA-Z`'0-9])", cmd)[0]         # trailing explanation in parentheses
    wt = tempfile.mkdtemp(prefix="seeddemo-", dir="/tmp"); os.rmdir(wt)
    try:
        subprocess.run("git -C /repo worktree add -q %s HEAD" % wt, shell=True, check=True)
        cmd = cmd.replace("<worktree>", wt).replace("<wt>", wt)
        cmd = re.sub(r"/tmp/seed\d*/wt\d\d", wt, cmd)
        cmd = re.sub(r";\s*rm -rf [\w/]+\s*$", "", cmd.rstrip())
        patch = os.path.join(out, "change%s.diff" % k)
        # the patch is applied (or not) by this script, never by the command
        cmd = re.sub(r"git apply [^\s;&]+\s*(&&|;)\s*", "", cmd)
        if with_patch:
            rc, o = sh("git apply %s" % patch, wt)
            if rc != 0: return {"error": "patch does not apply", "log": o[-300:]}
        if not re.match(r"\s*cd ", cmd): cmd = "cd %s && %s" % (wt, cmd)
        rc, o = sh(cmd, wt)
        if any(re.match(r"(--- FAIL|FAIL\b)", l) for l in o.split("\n")): rc = rc or 1     # go test piped through grep
        return {"rc": rc, "violation_line": next((l[:200] for l in o.split("\n") if re.search(r"VIOLAT", l)), None),
                "tail": o.strip().split("\n")[-3:]}
    finally:
        subprocess.run("git -C /repo worktree remove --force %s" % wt, shell=True)
        shutil.rmtree(wt, ignore_errors=True)

def main():
    out, k = sys.argv[1], sys.argv[2]
    w = run(out, k, True); wo = run(out, k, False)
    ok = ("rc" in w and "rc" in wo and w["rc"] != 0 and wo["rc"] == 0)
    print(json.dumps({"out": out, "k": k, "with_patch": w, "without_patch": wo, "demo_confirms": ok}, indent=1))

if __name__ == "__main__":
    main()
